#!/usr/bin/env python3
"""(re)generate /verif/MANIFEST.json from the check registry and the Properties/*.v files present."""
import os, sys, json
sys.path.insert(0, os.path.dirname(os.path.abspath(__file__)))
import engine, checks
V = engine.VERIF
props = [json.loads(l) for l in open(os.path.join(V, 'properties.jsonl'))]
notes = json.load(open(os.path.join(V, 'tools', 'manifest_notes.json')))
out = {
 'version': 1,
 'setup_cmd': './setup.sh',
 'hooks': {'guard': 'serde_json_verif',
           'enable': 'RUSTFLAGS="--cfg serde_json_verif" (declared, but no hook is needed: every observation point is public API — from_*/to_*, Deserializer, StreamDeserializer, Error::{classify,line,column,io_error_kind}, the doc(hidden) pub methods of the sealed de::Read trait, Map, Value, Number, RawValue)',
           'baseline_off_cmd': 'cd /repo && cargo test --workspace --no-fail-fast --offline',
           'source_commits': [], 'add_only': True},
 'engines': [
  {'name': 'coq', 'path': 'coq/', 'kind_free_text': 'Coq 8.16.1 development (-Q theories SJ): hand-written Gallina model of the Rust code, spec, theorems; Gen/Tables.v regenerated from /repo/src by tools/translate.py on every run', 'serves_properties': []},
  {'name': 'ocaml-driver', 'path': 'ocaml/', 'kind_free_text': 'model extracted with ExtrOcamlBasic only, run on the same case files as the implementation', 'serves_properties': []},
  {'name': 'harness', 'path': 'harness/', 'kind_free_text': 'Rust crate with a path dependency on /repo, rebuilt from the working tree per feature configuration', 'serves_properties': []},
  {'name': 'engine', 'path': 'tools/', 'kind_free_text': 'translate -> prove -> audit -> build -> correspond -> decide -> report (tools/run_check.py)', 'serves_properties': []}],
 'checks': [], 'not_applicable': [],
 'notes': 'Technique: machine-checked proof in Coq 8.16.1 about an executable model tied to /repo on every run (translator for tables, differential correspondence for logic). See DESIGN.md; findings in known_findings.json.'}
claimed = []
for p in props:
    pid = p['id']
    pf = os.path.join(V, 'coq', 'theories', 'Properties', pid + '.v')
    n = notes.get(pid, {})
    if pid in checks.REGISTRY and os.path.exists(pf) and not n.get('hold'):
        claimed.append(pid)
        out['checks'].append({
            'property_id': pid,
            'quick_cmd': './check %s --tier quick' % pid,
            'thorough_cmd': './check %s --tier thorough' % pid,
            'evidence_file': 'evidence/%s.json' % pid,
            'replay_cmd_template': './check %s --replay {path}' % pid,
            'engine': 'coq',
            'level_claimed': {'category': 'proof', 'text': n.get('text', ''), 'design_ref': n.get('design_ref', 'DESIGN.md §6 ' + pid)},
            'level_note': n.get('note', ''),
            'technique': n.get('technique', 'Coq theorems about a hand-written executable model + translator-regenerated tables + differential correspondence (extracted model vs Rust harness)')})
    else:
        out['not_applicable'].append({'property_id': pid, 'reason': n.get('na', 'check under construction: model/correspondence exist or are being built, theorems not yet integrated; not claimed until Properties/%s.v is checked' % pid)})
for e in out['engines']:
    e['serves_properties'] = claimed
json.dump(out, open(os.path.join(V, 'MANIFEST.json'), 'w'), indent=1)
print('claimed:', claimed)
