#!/usr/bin/env python3
"""translate_read.py — regenerates coq/theories/Gen/ReadTables.v from /repo/src/iter.rs and /repo/src/read.rs on every run.

A statement-level translator for the reader primitives that produce POSITIONS (properties C09 and C11 rest on them):

    iter.rs   impl<I> LineColIterator<I>                  new  line  col  byte_offset
              impl<I> Iterator for LineColIterator<I>     next
    read.rs   impl<R> IoRead<R>                           new
              impl<'de, R> Read<'de> for IoRead<R>        next  peek  discard (both cfg variants)  position  peek_position  byte_offset
              impl<'a> SliceRead<'a>                      new  position_of_index
              impl<'a> Read<'a> for SliceRead<'a>         next  peek  discard  position  peek_position  byte_offset
              impl<'a> StrRead<'a>                        new
              impl<'a> Read<'a> for StrRead<'a>           next  peek  discard  position  peek_position  byte_offset
              impl<'de, R> Read<'de> for &mut R           EVERY item, as a table  item |-> what its body forwards to  (MUT_REF_FORWARD);
                                                          a forwarder calling a different method of R shows up in the table as such
              pub trait Read<'de>                         the list of its items (READ_TRAIT_ITEMS)

Each named function is parsed into the AST of Model/ReadAst.v; Proofs/ReadSrc.v proves the hand-written models of Model/Pos.v equal to the
interpretation of the generated bodies.  The Rust subset (anything else: `BROKEN read:<fn>: <why>`, exit status 3, the previous file is
NOT rewritten; the translator never guesses):

    body  ::= { stmt* [expr] }
    stmt  ::= let x = expr;  |  PLACE = expr;  |  PLACE += expr;  |  expr;  |  match.. / if.. / {..} without `;`
            | if let PAT = expr { .. }                         (no else)
            | if let Some(x) = &mut PLACE { .. }               (no else)
            | #[cfg(feature = "f")] { .. }  |  #[cfg(not(feature = "f"))] { .. }
    expr  ::= 0 | 1 | b'c' | x | self | PLACE | None | Some(e) | Ok(e) | Err(e) | e + e | e - e | e < e | &e | (e)
            | T { [#[cfg(..)]] f: e, g, .. }                   (T a capitalised name or Self)
            | PLACE.m(e, ..)                                   (method call on a variable or field path only)
            | T::f(e, ..)                                      T::f one of LineColIterator::new, SliceRead::new, Error::io, cmp::min, memchr::memrchr
            | memchr::memchr_iter(e, e).count()
            | e[e]  |  e[..e]  |  if e { .. } else { .. }  |  match e { PAT => e, .. }  |  { .. }
    PLACE ::= x | self | PLACE.f
    PAT   ::= _ | x | b'c' | None | Some(PAT) | Ok(PAT) | Err(PAT)

Pinned by exact (whitespace-squeezed, comment-stripped) text, because the interpreter / the embedding of the states relies on them:
    every translated function's signature and attributes (only #[inline] and the raw_value cfg pair are accepted);
    the impl headers above with their attributes (the IoRead impls are #[cfg(feature = "std")]);  `type Item = io::Result<u8>;`
    struct LineColIterator, Position, IoRead, SliceRead, StrRead (fields, order, cfg attributes);
    the imports that say what `io`, `cmp`, `LineColIterator`, `Error`, `Result` are;  `pub type Result<T>` and `Error::io` of src/error.rs
    (code Io, line 0, column 0);  the memchr dependency of Cargo.toml, and that nothing in read.rs shadows `memchr` / `cmp`;
    the two memchr calls only in the forms `memchr::memrchr(a, b)` and `memchr::memchr_iter(a, b).count()`.

Usage: translate_read.py [--repo /repo] [--out <file>]        (--repo defaults to $VERIF_REPO, then /repo)
"""
import re, sys, os, argparse

class Broken(Exception):
    pass

def squeeze(s):
    return re.sub(r'\s+', ' ', s).strip()

CHARLIT = re.compile(r"'(?:\\x[0-9a-fA-F]{2}|\\u\{[0-9a-fA-F]+\}|\\.|[^\\'])'")

RAWSTR = re.compile(r'r#*"')
def raw_string_at(src, i):
    """r"..", r#".."#, br".." start at src[i] == 'r' (and the r is not the tail of an identifier)"""
    if not RAWSTR.match(src, i):
        return False
    j = i - 1
    if j >= 0 and src[j] == 'b':
        j -= 1
    return j < 0 or not (src[j].isalnum() or src[j] == '_')

def strip_comments(src):
    """remove // and /* */ comments; string / char literal aware"""
    out, i, n = [], 0, len(src)
    while i < n:
        c = src[i]
        if src.startswith('//', i):
            j = src.find('\n', i)
            i = n if j < 0 else j
        elif src.startswith('/*', i):
            depth, i = 1, i + 2
            while i < n and depth:
                if src.startswith('/*', i): depth += 1; i += 2
                elif src.startswith('*/', i): depth -= 1; i += 2
                else: i += 1
            out.append(' ')
        elif c == '"':
            j = i + 1
            while j < n and src[j] != '"':
                j += 2 if src[j] == '\\' else 1
            out.append(src[i:j + 1]); i = j + 1
        elif c == "'":
            m = CHARLIT.match(src, i)
            if m:
                out.append(m.group(0)); i = m.end()
            else:
                out.append(c); i += 1
        elif c == 'r' and raw_string_at(src, i):
            raise Broken('raw string literal outside a comment (the comment stripper does not handle them)')
        else:
            out.append(c); i += 1
    return ''.join(out)

def block_at(src, i):
    """src[i] == '{': the brace-matched block text (string / char literal aware) and the index after it"""
    assert src[i] == '{'
    depth, j, n = 0, i, len(src)
    while j < n:
        c = src[j]
        if c == '"':
            j += 1
            while j < n and src[j] != '"':
                j += 2 if src[j] == '\\' else 1
        elif c == "'":
            m = CHARLIT.match(src, j)
            if m:
                j = m.end()
                continue
        elif c == '{':
            depth += 1
        elif c == '}':
            depth -= 1
            if depth == 0:
                return src[i:j + 1], j + 1
        j += 1
    raise Broken('unbalanced braces')

# ---------------------------------------------------------------------------------------------- tokens
TOK = re.compile(r'''\s*(?:
   (?P<str>b?"(?:[^"\\]|\\.)*")
 | (?P<byte>b'(?:\\x[0-9a-fA-F]{2}|\\.|[^\\'])')
 | (?P<chr>'(?:\\x[0-9a-fA-F]{2}|\\u\{[0-9a-fA-F]+\}|\\.|[^\\'])')
 | (?P<life>'[A-Za-z_][A-Za-z0-9_]*)
 | (?P<id>[A-Za-z_][A-Za-z0-9_]*)
 | (?P<num>0x[0-9a-fA-F_]+|[0-9][0-9A-Za-z_]*)
 | (?P<op>\.\.=|\.\.|::|=>|->|==|!=|<=|>=|\+=|-=|\*=|/=|&&|\|\|)
 | (?P<c>\S)
)''', re.X | re.S)

class Tok:
    __slots__ = ('t', 'k', 'a', 'b')
    def __init__(self, t, k, a, b):
        self.t, self.k, self.a, self.b = t, k, a, b
    def __repr__(self):
        return self.t

def tokenize(s):
    out, i = [], 0
    n = len(s.rstrip())
    while i < n:
        m = TOK.match(s, i)
        if not m:
            raise Broken('cannot tokenize at `%s`' % s[i:i + 30].strip())
        k = m.lastgroup
        out.append(Tok(m.group(k), k, m.start(k), m.end(k)))
        i = m.end()
    return out

ESC = {'n': 10, 't': 9, 'r': 13, '\\': 92, '"': 34, '0': 0, "'": 39}
def byte_value(tok):
    body = tok[2:-1]
    if body.startswith('\\x'):
        return int(body[2:], 16)
    if body.startswith('\\'):
        if body[1] not in ESC:
            raise Broken('escape in literal %s' % tok)
        return ESC[body[1]]
    if ord(body) > 127:
        raise Broken('non-ASCII byte literal %s' % tok)
    return ord(body)

OPEN = {'(': ')', '[': ']', '{': '}'}
def match_close(toks, i):
    """toks[i] opens a bracket: index of the token that closes it"""
    stack = []
    for j in range(i, len(toks)):
        t = toks[j]
        if t.k == 'c' and t.t in OPEN:
            stack.append(OPEN[t.t])
        elif t.k == 'c' and t.t in ')]}':
            if not stack or stack.pop() != t.t:
                raise Broken('unbalanced `%s`' % t.t)
            if not stack:
                return j
    raise Broken('unbalanced `%s`' % toks[i].t)

# ---------------------------------------------------------------------------------------------- items of an impl / trait block
def parse_items(block):
    """block = '{ .. }' text of an impl or trait.  List of dicts:
       kind 'fn': name, attrs [squeezed], sig (squeezed text up to the body), params [names after self], selfk, body (token list) or None
       kind 'const' / 'type': name, attrs, text (squeezed, whole item)"""
    inner = block[1:-1]
    toks = tokenize(inner)
    items, i, n = [], 0, len(toks)
    def text(a, b):
        return squeeze(inner[toks[a].a:toks[b].b])
    while i < n:
        attrs = []
        while toks[i].t == '#':
            if toks[i + 1].t != '[':
                raise Broken('`#` not followed by `[`')
            j = match_close(toks, i + 1)
            attrs.append(text(i, j))
            i = j + 1
        start = i
        if toks[i].t == 'pub':
            i += 1
            if toks[i].t == '(':
                i = match_close(toks, i) + 1
        kw = toks[i].t
        if kw in ('type', 'const') and toks[i + 1].t != 'fn':
            name = toks[i + 1].t
            j = i
            while toks[j].t != ';':
                j = match_close(toks, j) if toks[j].t in OPEN else j
                j += 1
            items.append({'kind': kw, 'name': name, 'attrs': attrs, 'text': text(start, j)})
            i = j + 1
            continue
        while toks[i].t in ('const', 'unsafe', 'async'):
            i += 1
        if toks[i].t != 'fn':
            raise Broken('item starting with `%s` inside an impl / trait block' % ' '.join(t.t for t in toks[start:start + 6]))
        name = toks[i + 1].t
        j = i + 2
        if toks[j].t == '<':                           # generics: no parentheses expected inside
            depth = 0
            while True:
                if toks[j].t == '<': depth += 1
                elif toks[j].t == '>': depth -= 1
                elif toks[j].t == '(':
                    raise Broken('fn %s: parenthesis inside the generic parameter list' % name)
                j += 1
                if depth == 0:
                    break
        if toks[j].t != '(':
            raise Broken('fn %s: parameter list not found' % name)
        pclose = match_close(toks, j)
        ptoks = toks[j + 1:pclose]
        j = pclose + 1
        while toks[j].t not in ('{', ';'):
            j = match_close(toks, j) if toks[j].t in OPEN else j
            j += 1
        sig = text(start, j - 1)
        selfk, params = parse_params(name, ptoks)
        if toks[j].t == ';':
            items.append({'kind': 'fn', 'name': name, 'attrs': attrs, 'sig': sig, 'params': params, 'selfk': selfk, 'body': None})
            i = j + 1
        else:
            bclose = match_close(toks, j)
            items.append({'kind': 'fn', 'name': name, 'attrs': attrs, 'sig': sig, 'params': params, 'selfk': selfk,
                          'body': [t.t for t in toks[j:bclose + 1]], 'kinds': [t.k for t in toks[j:bclose + 1]]})
            i = bclose + 1
    return items

def parse_params(name, ptoks):
    """split at top-level commas; `&self` / `&mut self` / `&'s mut self` / `self` first, then `name: type`"""
    groups, cur, depth = [], [], 0
    for t in ptoks:
        if t.t in ('(', '[', '<'): depth += 1
        elif t.t in (')', ']', '>'): depth -= 1
        if t.t == ',' and depth == 0:
            groups.append(cur); cur = []
        else:
            cur.append(t)
    if cur:
        groups.append(cur)
    selfk, params = 'NoSelf', []
    for gi, g in enumerate(groups):
        ts = [t.t for t in g if t.k != 'life']
        if ts in (['self'], ['mut', 'self']):
            raise Broken('fn %s takes self by value' % name)
        if ts == ['&', 'self']:
            selfk = 'RefSelf'
        elif ts == ['&', 'mut', 'self']:
            selfk = 'MutSelf'
        else:
            if ts and ts[0] == 'mut':
                ts = ts[1:]
            if len(ts) < 3 or ts[1] != ':' or not re.fullmatch(r'[a-z_][a-z0-9_]*', ts[0]):
                raise Broken('fn %s: parameter `%s`' % (name, ' '.join(ts)))
            params.append(ts[0])
            continue
        if gi != 0:
            raise Broken('fn %s: self is not the first parameter' % name)
    return selfk, params

# ---------------------------------------------------------------------------------------------- cfg attributes
CFG_FEAT = re.compile(r'#\[cfg\(feature = "(\w+)"\)\]\Z')
CFG_NOT = re.compile(r'#\[cfg\(not\(feature = "(\w+)"\)\)\]\Z')
def cfg_of(attr):
    m = CFG_FEAT.match(attr)
    if m: return ('CfgFeature', m.group(1))
    m = CFG_NOT.match(attr)
    if m: return ('CfgNotFeature', m.group(1))
    return None

# ---------------------------------------------------------------------------------------------- bodies
STATICS = {('LineColIterator', 'new'): 1, ('SliceRead', 'new'): 1, ('Error', 'io'): 1, ('cmp', 'min'): 2, ('memchr', 'memrchr'): 2}
KEYWORDS = {'_', 'self', 'Self', 'let', 'mut', 'if', 'else', 'match', 'while', 'loop', 'for', 'in', 'return', 'break', 'continue', 'as', 'true',
            'false', 'fn', 'ref', 'move', 'unsafe', 'None', 'Some', 'Ok', 'Err', 'where', 'impl', 'pub', 'use', 'struct', 'enum', 'type', 'const'}

class BP:
    """recursive descent over the token list of one function body"""
    def __init__(self, toks, kinds, self_ty):
        self.t, self.k, self.i, self.self_ty = toks, kinds, 0, self_ty
    def at(self, *lits):
        return self.t[self.i:self.i + len(lits)] == list(lits)
    def eat(self, *lits):
        if self.at(*lits):
            self.i += len(lits)
            return True
        return False
    def here(self):
        return ' '.join(self.t[self.i:self.i + 10])
    def need(self, *lits):
        if not self.eat(*lits):
            raise Broken('expected `%s` at `%s`' % (' '.join(lits), self.here()))
    def kind(self):
        return self.k[self.i] if self.i < len(self.k) else None
    def ident(self):
        if self.kind() == 'id' and self.t[self.i] not in KEYWORDS:
            self.i += 1
            return self.t[self.i - 1]
        raise Broken('identifier expected at `%s`' % self.here())

    # ---- attributes inside a body
    def cfg_attr(self):
        """`# [ .. ]` at the cursor: the cfg guard (anything else is outside the subset)"""
        j = self.i + 1
        if self.t[j] != '[':
            raise Broken('`#` not followed by `[`')
        depth = 0
        while True:
            if self.t[j] in OPEN: depth += 1
            elif self.t[j] in ')]}': depth -= 1
            j += 1
            if depth == 0:
                break
        toks = self.t[self.i:j]
        self.i = j
        txt = ''.join(toks).replace('feature=', 'feature = ')
        g = cfg_of(txt)
        if not g:
            raise Broken('attribute `%s` inside a body' % ' '.join(toks))
        return g

    # ---- patterns
    def pat(self):
        if self.eat('_'):
            p = ('PWild',)
        elif self.kind() == 'byte':
            p = ('PLit', byte_value(self.t[self.i])); self.i += 1
        elif self.kind() == 'num':
            p = ('PLit', self.number())
        elif self.eat('None'):
            p = ('PNone',)
        elif self.at('Some', '(') or self.at('Ok', '(') or self.at('Err', '('):
            c = self.t[self.i]; self.i += 2
            q = self.pat()
            self.need(')')
            p = ('P' + c, q)
        elif self.kind() == 'id' and self.t[self.i] not in KEYWORDS and re.fullmatch(r'[a-z_][a-z0-9_]*', self.t[self.i]):
            p = ('PVar', self.ident())
        else:
            raise Broken('pattern outside the subset at `%s`' % self.here())
        if self.at('|') or self.at('@') or self.at('..=') or self.at('..') or self.at('(') or self.at('::') or self.at('{'):
            raise Broken('pattern outside the subset at `%s`' % self.here())
        return p

    def number(self):
        t = self.t[self.i]
        if not re.fullmatch(r'[0-9][0-9_]*', t):
            raise Broken('number literal `%s` outside the subset (plain decimal only)' % t)
        self.i += 1
        return int(t.replace('_', ''))

    # ---- blocks and statements
    def block(self):
        self.need('{')
        ss, e = [], None
        while not self.at('}'):
            if e is not None:
                raise Broken('expression without `;` in the middle of a block at `%s`' % self.here())
            if self.at('#'):
                g = self.cfg_attr()
                if not self.at('{'):
                    raise Broken('a cfg attribute on something other than a block statement at `%s`' % self.here())
                ss.append(('SCfg', g, self.block()))
                continue
            if self.eat('let'):
                if self.at('mut'):
                    raise Broken('`let mut`')
                x = self.ident()
                if not self.at('='):
                    raise Broken('`let %s` with a type annotation or pattern at `%s`' % (x, self.here()))
                self.need('=')
                ex = self.expr()
                if self.at('else'):
                    raise Broken('let-else')
                self.need(';')
                ss.append(('SLet', x, ex))
                continue
            if self.at('if', 'let'):
                self.i += 2
                p = self.pat()
                self.need('=')
                if self.eat('&', 'mut'):
                    pl = self.expr(nostruct=True)
                    if pl[0] != 'EPlace':
                        raise Broken('`if let .. = &mut <not a field path>`')
                    if not (p[0] == 'PSome' and p[1][0] == 'PVar'):
                        raise Broken('`if let P = &mut place` with P other than Some(x)')
                    body = self.block()
                    st = ('SIfLetSomeMut', p[1][1], pl[1], body)
                else:
                    ex = self.expr(nostruct=True)
                    body = self.block()
                    st = ('SIfLet', p, ex, body)
                if self.at('else'):
                    raise Broken('`if let .. else`')
                ss.append(st)
                continue
            ex = self.expr()
            if self.at('=') or self.at('+='):
                op = self.t[self.i]; self.i += 1
                if ex[0] != 'EPlace':
                    raise Broken('assignment to something other than a variable or field path')
                rhs = self.expr()
                self.need(';')
                ss.append(('SAssign' if op == '=' else 'SAddAssign', ex[1], rhs))
            elif self.eat(';'):
                ss.append(('SExpr', ex))
            elif self.at('}'):
                e = ex
            elif ex[0] in ('EMatch', 'EIf', 'EBlock'):
                ss.append(('SExpr', ex))
            else:
                raise Broken('expected `;` or `}` at `%s`' % self.here())
        self.need('}')
        return ('EBlock', ss, e if e is not None else ('EUnit',))

    # ---- expressions
    def expr(self, nostruct=False):
        a = self.additive(nostruct)
        if self.at('<'):
            self.i += 1
            b = self.additive(nostruct)
            if self.at('<') or self.at('>'):
                raise Broken('chained comparison / generic arguments at `%s`' % self.here())
            return ('EBin', 'OLt', a, b)
        for op in ('==', '!=', '<=', '>=', '>', '&&', '||', '*', '/', '%', '|', '^', 'as', '?', '..', '..='):
            if self.at(op):
                raise Broken('operator `%s` outside the subset' % op)
        return a
    def additive(self, nostruct):
        a = self.unary(nostruct)
        while self.at('+') or self.at('-'):
            op = 'OAdd' if self.t[self.i] == '+' else 'OSub'
            self.i += 1
            a = ('EBin', op, a, self.unary(nostruct))
        return a
    def unary(self, nostruct):
        if self.at('&'):
            self.i += 1
            if self.at('mut'):
                raise Broken('`&mut` outside `if let Some(x) = &mut place`')
            return self.postfix(nostruct)          # a shared borrow is transparent for values
        if self.at('*') or self.at('!') or self.at('-'):
            raise Broken('unary `%s` outside the subset' % self.t[self.i])
        return self.postfix(nostruct)
    def args(self):
        self.need('(')
        out = []
        while not self.at(')'):
            out.append(self.expr())
            if not self.at(')'):
                self.need(',')
        self.need(')')
        return out
    def postfix(self, nostruct):
        e = self.primary(nostruct)
        while True:
            if self.at('.'):
                self.i += 1
                if self.kind() != 'id':
                    raise Broken('field / method name expected at `%s`' % self.here())
                name = self.t[self.i]; self.i += 1
                if self.at('::'):
                    raise Broken('turbofish')
                if self.at('('):
                    a = self.args()
                    if e[0] != 'EPlace':
                        raise Broken('method `%s` called on something other than a variable or field path' % name)
                    e = ('ECall', e[1], name, a)
                else:
                    if e[0] != 'EPlace':
                        raise Broken('field `%s` of something other than a variable or field path' % name)
                    e = ('EPlace', e[1] + [name])
            elif self.at('['):
                self.i += 1
                if self.eat('..'):
                    ix = self.expr()
                    self.need(']')
                    e = ('ESliceTo', e, ix)
                else:
                    ix = self.expr()
                    self.need(']')
                    e = ('EIndex', e, ix)
            elif self.at('?'):
                raise Broken('`?`')
            else:
                return e
    def primary(self, nostruct):
        k = self.kind()
        if k == 'num':
            return ('ENum', self.number())
        if k == 'byte':
            v = byte_value(self.t[self.i]); self.i += 1
            return ('ENum', v)
        if k in ('str', 'chr', 'life'):
            raise Broken('literal `%s` outside the subset' % self.t[self.i])
        if self.eat('None'):
            return ('ENone',)
        if self.at('Some', '(') or self.at('Ok', '(') or self.at('Err', '('):
            c = self.t[self.i]; self.i += 2
            e = self.expr()
            self.need(')')
            return ('E' + c, e)
        if self.eat('match'):
            sc = self.expr(nostruct=True)
            self.need('{')
            arms = []
            while not self.at('}'):
                p = self.pat()
                if self.at('if'):
                    raise Broken('match guard')
                self.need('=>')
                if self.at('{'):
                    body = self.block()
                    self.eat(',')
                else:
                    body = self.expr()
                    if not self.at('}'):
                        self.need(',')
                arms.append((p, body))
            self.need('}')
            return ('EMatch', sc, arms)
        if self.at('if'):
            self.i += 1
            if self.at('let'):
                raise Broken('`if let` as an expression')
            c = self.expr(nostruct=True)
            a = self.block()
            if not self.eat('else'):
                raise Broken('`if` without `else`')
            if self.at('if'):
                raise Broken('`else if`')
            b = self.block()
            return ('EIf', c, a, b)
        if self.at('{'):
            return self.block()
        if self.eat('('):
            if self.at(')'):
                raise Broken('`()`')
            e = self.expr()
            self.need(')')
            return e
        if self.eat('self'):
            return ('EPlace', ['self'])
        if k == 'id' and (self.t[self.i] not in KEYWORDS or self.t[self.i] == 'Self'):
            name = self.t[self.i]; self.i += 1
            if name == 'Self':
                name = self.self_ty
            if self.at('::'):
                self.i += 1
                if self.kind() != 'id':
                    raise Broken('path at `%s`' % self.here())
                f = self.t[self.i]; self.i += 1
                if self.at('::') or not self.at('('):
                    raise Broken('path `%s::%s` used other than as a two-segment call' % (name, f))
                a = self.args()
                if (name, f) == ('memchr', 'memchr_iter'):
                    if not self.eat('.', 'count', '(', ')'):
                        raise Broken('memchr::memchr_iter(..) used other than as `.count()`')
                    if len(a) != 2:
                        raise Broken('memchr::memchr_iter with %d arguments' % len(a))
                    return ('EStatic', 'memchr', 'memchr_iter.count', a)
                if (name, f) not in STATICS:
                    raise Broken('call of `%s::%s`, which is neither a translated constructor nor a pinned external' % (name, f))
                if len(a) != STATICS[(name, f)]:
                    raise Broken('%s::%s with %d arguments' % (name, f, len(a)))
                return ('EStatic', name, f, a)
            if name[0].isupper():
                if nostruct or not self.at('{'):
                    raise Broken('`%s` used other than as a struct literal' % name)
                self.i += 1
                fields = []
                while not self.at('}'):
                    g = ('CfgAlways',)
                    if self.at('#'):
                        g = self.cfg_attr()
                    if self.at('..'):
                        raise Broken('struct update syntax')
                    fn = self.ident()
                    if self.eat(':'):
                        fe = self.expr()
                    else:
                        fe = ('EPlace', [fn])
                    fields.append((g, fn, fe))
                    if not self.at('}'):
                        self.need(',')
                self.need('}')
                return ('EStruct', name, fields)
            if self.at('!'):
                raise Broken('macro `%s!`' % name)
            if self.at('('):
                raise Broken('call of the free function `%s`' % name)
            return ('EPlace', [name])
        raise Broken('expression outside the subset at `%s`' % self.here())

def parse_body(item, self_ty):
    p = BP(item['body'], item['kinds'], self_ty)
    e = p.block()
    if p.i != len(p.t):
        raise Broken('trailing tokens after the body')
    # a body that is one block around one expression: drop the block
    if e[0] == 'EBlock' and e[1] == []:
        e = e[2]
    return e

# ---------------------------------------------------------------------------------------------- what is translated
# (key, file, squeezed impl header, attributes of the impl, type name, Coq prefix, [(fn, squeezed signature)])
IMPLS = [
    ('LineColIterator', 'iter.rs', 'impl<I> LineColIterator<I> where I: Iterator<Item = io::Result<u8>>,', [], 'LineColIterator', 'LCI',
     [('new', 'pub fn new(iter: I) -> LineColIterator<I>'), ('line', 'pub fn line(&self) -> usize'), ('col', 'pub fn col(&self) -> usize'),
      ('byte_offset', 'pub fn byte_offset(&self) -> usize')]),
    ('Iterator for LineColIterator', 'iter.rs', 'impl<I> Iterator for LineColIterator<I> where I: Iterator<Item = io::Result<u8>>,', [],
     'LineColIterator', 'LCI', [('next', 'fn next(&mut self) -> Option<io::Result<u8>>')]),
    ('IoRead', 'read.rs', 'impl<R> IoRead<R> where R: io::Read,', ['#[cfg(feature = "std")]'], 'IoRead', 'IO',
     [('new', 'pub fn new(reader: R) -> Self')]),
    ('Read for IoRead', 'read.rs', "impl<'de, R> Read<'de> for IoRead<R> where R: io::Read,", ['#[cfg(feature = "std")]'], 'IoRead', 'IO',
     [('next', 'fn next(&mut self) -> Result<Option<u8>>'), ('peek', 'fn peek(&mut self) -> Result<Option<u8>>'),
      ('discard', 'fn discard(&mut self)'), ('position', 'fn position(&self) -> Position'),
      ('peek_position', 'fn peek_position(&self) -> Position'), ('byte_offset', 'fn byte_offset(&self) -> usize')]),
    ('SliceRead', 'read.rs', "impl<'a> SliceRead<'a>", [], 'SliceRead', 'SL',
     [('new', "pub fn new(slice: &'a [u8]) -> Self"), ('position_of_index', 'fn position_of_index(&self, i: usize) -> Position')]),
    ('Read for SliceRead', 'read.rs', "impl<'a> Read<'a> for SliceRead<'a>", [], 'SliceRead', 'SL',
     [('next', 'fn next(&mut self) -> Result<Option<u8>>'), ('peek', 'fn peek(&mut self) -> Result<Option<u8>>'),
      ('discard', 'fn discard(&mut self)'), ('position', 'fn position(&self) -> Position'),
      ('peek_position', 'fn peek_position(&self) -> Position'), ('byte_offset', 'fn byte_offset(&self) -> usize')]),
    ('StrRead', 'read.rs', "impl<'a> StrRead<'a>", [], 'StrRead', 'STR', [('new', "pub fn new(s: &'a str) -> Self")]),
    ('Read for StrRead', 'read.rs', "impl<'a> Read<'a> for StrRead<'a>", [], 'StrRead', 'STR',
     [('next', 'fn next(&mut self) -> Result<Option<u8>>'), ('peek', 'fn peek(&mut self) -> Result<Option<u8>>'),
      ('discard', 'fn discard(&mut self)'), ('position', 'fn position(&self) -> Position'),
      ('peek_position', 'fn peek_position(&self) -> Position'), ('byte_offset', 'fn byte_offset(&self) -> usize')]),
]
FWD_HEADER = "impl<'de, R> Read<'de> for &mut R where R: Read<'de>,"
TRAIT_HEADER = "pub trait Read<'de>: private::Sealed"
ITEM_TYPE = 'type Item = io::Result<u8>;'

PIN_ITER = [
    'use crate::io;',
    'pub struct LineColIterator<I> { iter: I, line: usize, col: usize, start_of_line: usize, }',
]
PIN_READ = [
    'use crate::error::{Error, ErrorCode, Result};',
    'use core::cmp;',
    '#[cfg(feature = "std")] use crate::io;',
    '#[cfg(feature = "std")] use crate::iter::LineColIterator;',
    'pub struct Position { pub line: usize, pub column: usize, }',
    '#[cfg(feature = "std")] #[cfg_attr(docsrs, doc(cfg(feature = "std")))] pub struct IoRead<R> where R: io::Read, '
    '{ iter: LineColIterator<io::Bytes<R>>, ch: Option<u8>, #[cfg(feature = "raw_value")] raw_buffer: Option<Vec<u8>>, }',
    "pub struct SliceRead<'a> { slice: &'a [u8], index: usize, #[cfg(feature = \"raw_value\")] raw_buffering_start_index: usize, }",
    "pub struct StrRead<'a> { delegate: SliceRead<'a>, #[cfg(feature = \"raw_value\")] data: &'a str, }",
]
PIN_ERROR = [
    'pub type Result<T> = result::Result<T, Error>;',
    'pub fn io(error: io::Error) -> Self { Error { err: Box::new(ErrorImpl { code: ErrorCode::Io(error), line: 0, column: 0, }), } }',
]
SHADOW = re.compile(r'\b(?:mod|fn|struct|enum|trait|static|const|type)\s+(?:memchr|cmp|memrchr|memchr_iter)\b|\bas\s+(?:memchr|cmp)\b|\buse\s+[^;]*\b(?:memchr|memrchr)\b|\bextern\s+crate\b')

def top_impls(src):
    """[(squeezed header, [attribute lines], block text)] of the column-0 impl / trait items"""
    out = []
    for m in re.finditer(r'^(?:impl\b|pub trait\b)', src, re.M):
        b = src.find('{', m.start())
        semi = src.find(';', m.start())
        if b < 0 or (0 <= semi < b):
            continue
        header = squeeze(src[m.start():b])
        block, _ = block_at(src, b)
        attrs, lines = [], src[:m.start()].split('\n')[:-1]
        while lines and re.fullmatch(r'\s*#\[.*\]\s*', lines[-1]):
            attrs.insert(0, squeeze(lines.pop()))
        out.append((header, attrs, block))
    return out

def check_pins(tag, text, pins, broken):
    s = squeeze(text)
    for p in pins:
        c = s.count(p)
        if c != 1:
            broken.append(('read:pinned:' + tag, 'expected exactly one `%s`, found %d' % (p, c)))

def read_src(repo, rel):
    raw = open(os.path.join(repo, rel), encoding='utf-8').read()
    try:
        return strip_comments(raw)
    except Broken as e:
        raise Broken('%s: %s' % (rel, e))

def translate(repo):
    broken, fns, fwd, trait_items = [], [], [], []
    srcs = {}
    for rel in ('src/iter.rs', 'src/read.rs', 'src/error.rs'):
        try:
            srcs[os.path.basename(rel)] = read_src(repo, rel)
        except (Broken, OSError) as e:
            broken.append(('read:source', str(e)))
    if broken:
        return fns, fwd, trait_items, broken
    check_pins('iter.rs', srcs['iter.rs'], PIN_ITER, broken)
    check_pins('read.rs', srcs['read.rs'], PIN_READ, broken)
    check_pins('error.rs', srcs['error.rs'], PIN_ERROR, broken)
    m = SHADOW.search(srcs['read.rs'])
    if m:
        broken.append(('read:pinned:memchr', '`%s` in read.rs: `memchr` / `cmp` may no longer be the external crate / core::cmp' % squeeze(m.group(0))))
    try:
        cargo = open(os.path.join(repo, 'Cargo.toml'), encoding='utf-8').read()
        dep = re.search(r'^\[dependencies\]\s*\n(.*?)(?=^\[)', cargo, re.M | re.S)
        lines = [l for l in (dep.group(1).split('\n') if dep else []) if re.match(r'\s*memchr\s*=', l)]
        if len(lines) != 1 or 'package' in lines[0] or 'path' in lines[0] or 'git' in lines[0] or not re.search(r'version\s*=\s*"2(?:\.[0-9.]*)?"', lines[0]):
            raise Broken('the `memchr` dependency of Cargo.toml is not the crates.io crate memchr 2: %s' % lines)
    except (Broken, OSError) as e:
        broken.append(('read:pinned:Cargo.toml', str(e)))

    impls = {}
    for name in ('iter.rs', 'read.rs'):
        try:
            impls[name] = top_impls(srcs[name])
        except Broken as e:
            broken.append(('read:' + name, str(e)))
            impls[name] = []

    seen_names = set()
    for key, file, header, want_attrs, ty, prefix, wanted in IMPLS:
        blocks = [(a, b) for h, a, b in impls[file] if h == header]
        if not blocks:
            broken.append(('read:impl:' + key, 'no `%s {` in %s' % (header, file)))
            continue
        items = []
        try:
            for a, b in blocks:
                if a != want_attrs:
                    raise Broken('the impl carries the attributes %s, expected %s' % (a, want_attrs))
                items += parse_items(b)
        except (Broken, IndexError) as e:
            broken.append(('read:impl:' + key, str(e)))
            continue
        if key == 'Iterator for LineColIterator':
            tys = [it for it in items if it['kind'] == 'type']
            if [it['text'] for it in tys] != [ITEM_TYPE] or any(it['attrs'] for it in tys):
                broken.append(('read:impl:' + key, 'the associated type is not `%s`' % ITEM_TYPE))
        for fn, want_sig in wanted:
            label = 'read:%s::%s' % (ty, fn)
            defs = [it for it in items if it['kind'] == 'fn' and it['name'] == fn]
            if not defs:
                broken.append((label, 'function missing'))
                continue
            guards = []
            for it in defs:
                try:
                    g = ('CfgAlways',)
                    for a in it['attrs']:
                        c = cfg_of(a)
                        if c:
                            if g != ('CfgAlways',):
                                raise Broken('two cfg attributes')
                            g = c
                        elif a != '#[inline]':
                            raise Broken('attribute `%s`' % a)
                    if g in guards:
                        raise Broken('defined twice under the same cfg')
                    guards.append(g)
                    if it['sig'] != want_sig:
                        raise Broken('signature is `%s`, the interpreter assumes `%s`' % (it['sig'], want_sig))
                    if it['body'] is None:
                        raise Broken('no body')
                    body = parse_body(it, ty)
                    coq = '%s_%s' % (prefix, fn)
                    if len(defs) > 1:
                        coq += {'CfgAlways': '', 'CfgFeature': '_with_', 'CfgNotFeature': '_without_'}[g[0]] + (g[1] if len(g) > 1 else '')
                    if coq in seen_names:
                        raise Broken('name clash on %s' % coq)
                    seen_names.add(coq)
                    fns.append({'coq': coq, 'file': file, 'impl': header, 'ty': ty, 'name': fn, 'cfg': g, 'attrs': it['attrs'], 'sig': it['sig'],
                                'selfk': it['selfk'], 'params': it['params'], 'body': body})
                except (Broken, IndexError) as e:
                    broken.append((label, str(e)))
            if len(defs) > 1 and ('CfgAlways',) in guards:
                broken.append((label, 'defined several times, once without cfg'))

    # ---- the trait and the forwarding impl
    try:
        tb = [(a, b) for h, a, b in impls['read.rs'] if h == TRAIT_HEADER]
        if len(tb) != 1 or tb[0][0] != []:
            raise Broken('expected exactly one `%s {` without attributes' % TRAIT_HEADER)
        for it in parse_items(tb[0][1]):
            g = ('CfgAlways',)
            for a in it['attrs']:
                c = cfg_of(a)
                if c:
                    g = c
                elif a != '#[doc(hidden)]':
                    raise Broken('trait item %s carries `%s`' % (it['name'], a))
            if it['kind'] == 'fn':
                if it['body'] is not None:
                    raise Broken('trait item %s has a default body (the forwarding impl might not define it)' % it['name'])
                trait_items.append((it['name'], g, 'FwFn'))
            elif it['kind'] == 'const':
                trait_items.append((it['name'], g, 'FwConst'))
            else:
                raise Broken('trait item `%s`' % it['text'])
    except (Broken, IndexError) as e:
        broken.append(('read:trait Read', str(e)))
    try:
        fb = [(a, b) for h, a, b in impls['read.rs'] if h == FWD_HEADER]
        if len(fb) != 1 or fb[0][0] != []:
            raise Broken('expected exactly one `%s {` without attributes' % FWD_HEADER)
        for it in parse_items(fb[0][1]):
            label = 'read:&mut R::%s' % it['name']
            try:
                g = ('CfgAlways',)
                for a in it['attrs']:
                    c = cfg_of(a)
                    if c and g == ('CfgAlways',):
                        g = c
                    elif a != '#[inline]':
                        raise Broken('attribute `%s`' % a)
                if it['kind'] == 'const':
                    m = re.fullmatch(r'const (\w+): bool = R::(\w+);', it['text'])
                    if not m or m.group(1) != it['name']:
                        raise Broken('not `const NAME: bool = R::<const>;`: `%s`' % it['text'])
                    fwd.append((it['name'], g, 'FwConst', [], m.group(2), [], it['text']))
                elif it['kind'] == 'fn':
                    if it['selfk'] == 'NoSelf' or it['body'] is None:
                        raise Broken('not a method with a body')
                    t = it['body']
                    if t[:5] != ['{', 'R', '::'] + t[3:4] + ['('] or it['kinds'][3] != 'id':
                        raise Broken('body does not start with `R::<method>(`: `%s`' % ' '.join(t[:8]))
                    target = t[3]
                    rest = t[5:]
                    if rest[-1:] != ['}']:
                        raise Broken('unbalanced body')
                    rest = rest[:-1]
                    if rest[-1:] == [';']:
                        rest = rest[:-1]
                    if rest[-1:] != [')']:
                        raise Broken('body is more than one call: `%s`' % ' '.join(t))
                    args = rest[:-1]
                    if args[:1] != ['self']:
                        raise Broken('the first argument of R::%s is not `self`' % target)
                    args = args[1:]
                    names = []
                    while args:
                        if args[0] != ',' or len(args) < 2 or not re.fullmatch(r'[a-z_][a-z0-9_]*', args[1]) or args[1] in KEYWORDS:
                            raise Broken('arguments of R::%s are not plain parameter names: `%s`' % (target, ' '.join(t)))
                        names.append(args[1]); args = args[2:]
                    fwd.append((it['name'], g, 'FwFn', it['params'], target, names, it['sig']))
                else:
                    raise Broken('item `%s`' % it['text'])
            except (Broken, IndexError) as e:
                broken.append((label, str(e)))
    except (Broken, IndexError) as e:
        broken.append(('read:&mut R', str(e)))
    return fns, fwd, trait_items, broken

# ---------------------------------------------------------------------------------------------- Coq output
def q(s):
    return '"%s"' % s
def qlist(xs):
    return '[' + '; '.join(q(x) for x in xs) + ']'
def cq_cfg(g):
    return g[0] if len(g) == 1 else '(%s %s)' % (g[0], q(g[1]))
def cq_pat(p):
    if p[0] in ('PWild', 'PNone'): return p[0]
    if p[0] == 'PVar': return '(PVar %s)' % q(p[1])
    if p[0] == 'PLit': return '(PLit %d)' % p[1]
    return '(%s %s)' % (p[0], cq_pat(p[1]))

WIDTH = 110
def cq_expr(e, ind):
    """Coq text of e; continuation lines are indented by ind + 2"""
    k = e[0]
    pad = ' ' * (ind + 2)
    if k in ('EUnit', 'ENone'): return k
    if k == 'ENum': return '(ENum %d)' % e[1]
    if k == 'EPlace': return '(EPlace %s)' % qlist(e[1])
    if k in ('ESome', 'EOk', 'EErr'): return '(%s %s)' % (k, cq_expr(e[1], ind))
    if k == 'EBin': return '(EBin %s %s %s)' % (e[1], cq_expr(e[2], ind), cq_expr(e[3], ind))
    if k in ('EIndex', 'ESliceTo'): return '(%s %s %s)' % (k, cq_expr(e[1], ind), cq_expr(e[2], ind))
    if k in ('ECall', 'EStatic'):
        head = '%s %s %s' % (k, qlist(e[1]) if k == 'ECall' else q(e[1]), q(e[2]))
        args = [cq_expr(a, ind + 2) for a in e[3]]
        one = '(%s [%s])' % (head, '; '.join(args))
        if len(one) + ind <= WIDTH and '\n' not in one:
            return one
        return '(%s [\n%s%s])' % (head, pad, (';\n' + pad).join(args))
    if k == 'EStruct':
        fs = ['(%s, %s, %s)' % (cq_cfg(g), q(n), cq_expr(x, ind + 2)) for g, n, x in e[2]]
        return '(EStruct %s [\n%s%s])' % (q(e[1]), pad, (';\n' + pad).join(fs))
    if k == 'EIf':
        return '(EIf %s\n%s%s\n%s%s)' % (cq_expr(e[1], ind + 2), pad, cq_expr(e[2], ind + 2), pad, cq_expr(e[3], ind + 2))
    if k == 'EMatch':
        arms = ['(%s, %s)' % (cq_pat(p), cq_expr(b, ind + 2)) for p, b in e[2]]
        return '(EMatch %s [\n%s%s])' % (cq_expr(e[1], ind + 2), pad, (';\n' + pad).join(arms))
    if k == 'EBlock':
        ss = [cq_stmt(s, ind + 2) for s in e[1]]
        if not ss:
            return '(EBlock [] %s)' % cq_expr(e[2], ind)
        return '(EBlock [\n%s%s]\n%s%s)' % (pad, (';\n' + pad).join(ss), pad, cq_expr(e[2], ind + 2))
    raise AssertionError(k)

def cq_stmt(s, ind):
    k = s[0]
    if k == 'SLet': return 'SLet %s %s' % (q(s[1]), cq_expr(s[2], ind))
    if k in ('SAssign', 'SAddAssign'): return '%s %s %s' % (k, qlist(s[1]), cq_expr(s[2], ind))
    if k == 'SExpr': return 'SExpr %s' % cq_expr(s[1], ind)
    if k == 'SIfLet': return 'SIfLet %s %s %s' % (cq_pat(s[1]), cq_expr(s[2], ind), cq_expr(s[3], ind))
    if k == 'SIfLetSomeMut': return 'SIfLetSomeMut %s %s %s' % (q(s[1]), qlist(s[2]), cq_expr(s[3], ind))
    if k == 'SCfg': return 'SCfg %s %s' % (cq_cfg(s[1]), cq_expr(s[2], ind))
    raise AssertionError(k)

def emit(fns, fwd, trait_items):
    L = ['(* Gen/ReadTables.v — GENERATED by tools/translate_read.py from /repo/src/iter.rs and /repo/src/read.rs on every run. Do not edit.',
         '   The bodies of the position-producing reader primitives (LineColIterator, IoRead, SliceRead, StrRead), expression by expression',
         '   (AST and meaning: Model/ReadAst.v), the forwarding table of `impl Read for &mut R`, and the items of `trait Read`. *)',
         'From Coq Require Import List NArith String.', 'From SJ Require Import Base.Bytes Model.ReadAst.', 'Import ListNotations.',
         'Local Open Scope string_scope.', 'Local Open Scope N_scope.', '']
    last = None
    for f in fns:
        if (f['file'], f['impl']) != last:
            last = (f['file'], f['impl'])
            L.append('(* ---- %s   %s *)' % last)
            L.append('')
        sig = ' '.join(f['attrs'] + [f['sig']])
        L.append('(* %s *)' % sig.replace('(*', '( *').replace('*)', '* )'))
        L.append('Definition %s : fdef := mkFn %s %s %s %s %s\n  %s.' %
                 (f['coq'], q(f['ty']), q(f['name']), cq_cfg(f['cfg']), f['selfk'], qlist(f['params']), cq_expr(f['body'], 2)))
        L.append('')
    L.append('Definition READ_TABLE : table := [\n  %s].' % ';\n  '.join(f['coq'] for f in fns))
    L.append('')
    L.append('(* ---- read.rs   %s *)' % FWD_HEADER)
    L.append('(* one row per item: name, cfg, kind, own parameters, the R::<item> its body is, the arguments after self *)')
    rows = []
    for name, g, kind, params, target, args, sig in fwd:
        rows.append('  (* %s *)\n  mkFwd %s %s %s %s %s %s' % (sig.replace('(*', '( *').replace('*)', '* )'), q(name), cq_cfg(g), kind, qlist(params), q(target), qlist(args)))
    L.append('Definition MUT_REF_FORWARD : list fwd := [\n%s].' % ';\n'.join(rows))
    L.append('')
    L.append('(* ---- read.rs   %s: its items in order (name, cfg, kind) *)' % TRAIT_HEADER)
    L.append('Definition READ_TRAIT_ITEMS : list (string * cfgg * fwd_kind) := [\n  %s].' %
             ';\n  '.join('(%s, %s, %s)' % (q(n), cq_cfg(g), k) for n, g, k in trait_items))
    L.append('')
    return '\n'.join(L)

def main():
    ap = argparse.ArgumentParser()
    ap.add_argument('--repo', default=os.environ.get('VERIF_REPO', '/repo'))
    ap.add_argument('--out', default=os.path.join(os.path.dirname(os.path.abspath(__file__)), '..', 'coq', 'theories', 'Gen', 'ReadTables.v'))
    a = ap.parse_args()
    try:
        fns, fwd, trait_items, broken = translate(a.repo)
    except (Broken, ValueError, IndexError, OSError) as e:
        fns, fwd, trait_items, broken = [], [], [], [('read:source', str(e))]
    for name, why in broken:
        print('BROKEN %s: %s' % (name, why))
    if broken:
        return 3
    text = emit(fns, fwd, trait_items)
    old = open(a.out).read() if os.path.exists(a.out) else None
    if old != text:
        with open(a.out, 'w') as f:
            f.write(text)
        print('UPDATED ' + os.path.relpath(a.out))
    return 0

if __name__ == '__main__':
    sys.exit(main())
