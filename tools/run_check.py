#!/usr/bin/env python3
"""run_check.py <ID> [--tier quick|thorough] [--replay <file>]

One engine for all properties (DESIGN.md §4):
 translate -> prove (make Properties/<ID>.vo) -> audit -> build harness -> correspond -> decide -> report.
Exit 0: property held on everything explored (KNOWN-FINDING lines allowed); exit 1: a VIOLATION line was
printed; exit 2: the machinery itself is broken (audit failure, missing tool)."""
import os, sys, json, time, argparse, random, traceback
sys.path.insert(0, os.path.dirname(os.path.abspath(__file__)))
import engine
from engine import log

def main():
    ap = argparse.ArgumentParser()
    ap.add_argument('pid')
    ap.add_argument('--tier', default=os.environ.get('VERIF_TIER', 'quick'))
    ap.add_argument('--replay', default=None)
    a = ap.parse_args()
    pid = a.pid.upper()
    tier = a.tier if a.tier in ('quick', 'thorough') else 'quick'
    seed = int(os.environ.get('VERIF_SEED', '20260929'))
    t0 = time.time()
    import checks
    if pid not in checks.REGISTRY:
        print('unknown property', pid)
        return 2
    spec = checks.REGISTRY[pid]

    ties_broken = []          # things that no longer check: translator items, theorems, harness build, correspondence
    # 1. translate
    broken, tout = engine.translate()
    for b in broken:
        if engine.tie_relevant(pid, b):
            ties_broken.append('translator:' + b)
            log(b)
        else:
            log('(not in the dependency cone of %s) %s' % (pid, b))
    # 2. prove + model
    # every extraction target of the development (area drivers go stale otherwise when Gen/Tables.v is regenerated)
    targets = [l.strip()[:-2] + '.vo' for l in open(os.path.join(engine.COQ, 'FILES')) if l.strip().startswith('theories/Extract/Extract')]
    pfile = os.path.join(engine.COQ, 'theories', 'Properties', pid + '.v')
    if os.path.exists(pfile):
        targets.append('theories/Properties/%s.vo' % pid)
    ok, bout = engine.build_model(targets)
    proof_ok = True
    if os.path.exists(pfile) and not engine.coq_target_ok('theories/Properties/%s.vo' % pid):
        proof_ok = False
        errs = [l for l in bout.splitlines() if 'Error' in l or l.startswith('File ')]
        ties_broken.append('theorem:Properties/%s.v (%s)' % (pid, '; '.join(errs[:4])[:400]))
        log('proof obligation failed for', pid)
    model_ok = os.path.exists(os.path.join(engine.VERIF, 'ocaml', 'sjdriver')) and engine.coq_target_ok('theories/Extract/Extract.vo')
    if not model_ok:
        ties_broken.append('model:extraction or driver build failed')
        log(bout[-2000:])
    # 3. audit
    bad = engine.audit_sources()
    if bad:
        print('AUDIT-FAILURE forbidden declarations in the development:')
        for b in bad:
            print('  ' + b)
        return 2
    prep = engine.property_file_report(pid) if (proof_ok and os.path.exists(pfile)) else None
    if prep is not None:
        extra = [x for x in prep['axioms'] if x not in engine.ALLOWED_AXIOMS]
        if extra:
            print('AUDIT-FAILURE axioms outside the allowlist:', extra)
            return 2
    chk = None
    if tier == 'thorough' and proof_ok and os.path.exists(pfile):
        chk = engine.coqchk(pid)
        if chk['not_allowlisted'] or not chk['ok'] and chk['rc'] == 0:
            print('AUDIT-FAILURE coqchk:', chk)
            return 2
        if chk['rc'] != 0:
            ties_broken.append('coqchk:Properties/%s.vo rejected by the independent checker' % pid)
    # 4. harness
    cfgs = spec['cfgs'][tier]
    side = [c for c in spec.get('side_cfgs', []) if c not in cfgs]        # configurations used by small side families only
    hres = engine.build_harness(cfgs + side)
    harness_ok = True
    for c, (okc, out) in hres.items():
        if not okc:
            harness_ok = False
            ties_broken.append('harness-build:%s' % c)
            log(out[-3000:])
    if not harness_ok:
        # cannot observe the implementation: the property is no longer shown to hold
        rp = engine.replay_path(pid, {'property': pid, 'broken': ties_broken, 'note': 'the harness no longer compiles against /repo; no implementation run possible'})
        print('VIOLATION property=%s replay=%s no-failing-input-found' % (pid, rp))
        return 1

    # 5./6. correspondence + decision
    ctx = checks.Ctx(pid, tier, seed, cfgs, model_ok)
    ctx.side_cfgs = side
    if a.replay:
        return checks.replay(ctx, spec, a.replay)
    try:
        spec['run'](ctx)
    except Exception as ex:
        # the implementation answered something the judge cannot even read (e.g. `null` where a number text must be): the property is no longer shown to hold —
        # reported like a broken tie (with whatever failing inputs were found before the crash), never a silent non-zero exit
        traceback.print_exc()
        ties_broken.append('check-crashed: %s: %s' % (type(ex).__name__, str(ex)[:200]))
    ties_broken += [t for t in getattr(ctx, 'ties_broken', []) if t not in ties_broken]      # shape assertions evaluated inside a check
    # extended search when a tie broke but no failing input has been found yet
    if ties_broken and not ctx.violations and 'extended' in spec:
        log('tie broken (%s); running the extended search' % '; '.join(ties_broken)[:300])
        try:
            spec['extended'](ctx)
        except Exception:
            traceback.print_exc()

    # 7. report
    known = [f for f in engine.load_known_findings() if f.get('property') == pid and f.get('status') == 'known']
    new_viol = []
    known_hit = {}
    for v in ctx.violations:
        k = checks.match_known(v, known)
        if k is not None:
            known_hit.setdefault(k['id'], (k, v))
        else:
            new_viol.append(v)
    for kid, (k, v) in sorted(known_hit.items()):
        print('KNOWN-FINDING: property=%s %s' % (pid, k.get('what', kid)))
    wall = time.time() - t0
    rc = 0
    if new_viol:
        shown = checks.minimize_and_dedupe(ctx, spec, new_viol)
        for v in shown[:5]:
            rp = engine.replay_path(pid, dict(v, property=pid, seed=seed, tier=tier, ties_broken=ties_broken))
            print('VIOLATION property=%s replay=%s' % (pid, rp))
            log('  what: %s' % v.get('what'))
        rc = 1
    elif ties_broken:
        rp = engine.replay_path(pid, {'property': pid, 'no_longer_checks': ties_broken, 'seed': seed, 'tier': tier,
                                      'sample_disagreements': ctx.disagreements[:10],
                                      'note': 'a proof obligation / the translator / the correspondence broke and the search found no input on which the property itself fails'})
        print('VIOLATION property=%s replay=%s no-failing-input-found' % (pid, rp))
        rc = 1

    # evidence
    names = prep['names'] if prep else []
    cov = {
        'obligations': max(1, len(names)),
        'discharged': len(names) if proof_ok else 0,
        'checker_cmd': 'cd /verif/coq && make theories/Properties/%s.vo  (coqc 8.16.1, full .vo build; Print Assumptions audited against an allowlist)' % pid,
        'trusted_base': spec.get('trusted_base', []) + ['Coq 8.16.1 kernel (coqc), vm_compute; no native_compute',
                        'axioms: ' + (', '.join(prep['axioms']) if prep and prep['axioms'] else 'none (all theorems closed under the global context)'),
                        'tools/translate.py (tables regenerated from /repo/src this run)',
                        'extraction with ExtrOcamlBasic only + ocaml/driver.ml', 'Rust harness /verif/harness (path dependency on /repo), rustc'],
        'theorems': names,
        'evaluations': ctx.evaluations,
        'distinct_nontrivial': ctx.distinct_nontrivial,
        'rule': ctx.rule or spec.get('rule', ''),
        'samples': ctx.samples[:12],
        'input_distribution': ctx.hist,
        'configs': cfgs,
        'ties_broken': ties_broken,
        'coqchk': chk,
        'model_impl_disagreements': len(ctx.disagreements),
    }
    ev = {'property_id': pid, 'tier': tier, 'seed': seed, 'level': 'proof', 'coverage': cov,
          'assumptions': spec.get('assumptions', []), 'wall_s': round(wall, 2), 'violations': len(new_viol)}
    engine.write_json(os.path.join(engine.CACHE if engine.ALT else engine.VERIF, 'evidence', pid + '.json'), ev)
    log('%s %s: %d evaluations, %d theorems, %d violations, %.1fs' % (pid, tier, ctx.evaluations, len(names), len(new_viol), wall))
    return rc

if __name__ == '__main__':
    sys.exit(main())
