#!/usr/bin/env python3
"""translate_vacc.py — regenerates coq/theories/Gen/VaccTables.v from /repo/src/value/mod.rs and /repo/src/value/index.rs on every run.

Translated, statement by statement, into the AST of Model/VaccAst.v (one entry of VACC_FNS per function):
  mod.rs    impl Value { get get_mut is_object as_object as_object_mut is_array as_array as_array_mut is_string as_str is_number as_number
                         is_i64 is_u64 is_f64 as_i64 as_u64 as_f64 is_boolean as_bool is_null as_null take }
  index.rs  impl Index for usize { index_into index_into_mut index_or_insert }     impl Index for str { the same three }
            impl<I> ops::Index<I> for Value { index }                             impl<I> ops::IndexMut<I> for Value { index_mut }
(`pointer` / `pointer_mut` are translated by translate_ptr.py.)  Proofs/VaccSrc.v proves the hand models (Model/Pointer.v, Model/VaccAst.v) equal to
the interpretation of the translated bodies.

The source is tokenised (comments and layout dropped) and each body is parsed by a recursive-descent parser for exactly the subset listed in the
header of Model/VaccAst.v; every function is located by its exact signature inside its exact `impl` header.  Pinned by exact token text (see PINS):
the items the bodies rely on but that are not translated here — `enum Value`, the `use` lines that give `mem`, `Map`, `Number`, `Index` their meaning,
`trait Index`, the delegating `impl Index for String` / `impl<T> Index for &T`, the sealing module (so no further index type exists), `struct Type`
and its Display (panic messages).  Anything else: `BROKEN vacc:<item>: <why>` and exit 3 — never a guess.
Usage: translate_vacc.py [--repo /repo] [--out <file>]        (--repo defaults to $VERIF_REPO, then /repo; the output file may also be given bare)"""
import re, sys, os, argparse

class Broken(Exception):
    pass

# ------------------------------------------------------------------------------------------------ tokens
TOK = re.compile(r'''
    (?P<ws>\s+)
  | (?P<lc>//[^\n]*)
  | (?P<bc>/\*.*?\*/)
  | (?P<str>"(?:[^"\\]|\\.)*")
  | (?P<life>'[A-Za-z_][A-Za-z_0-9]*(?!'))
  | (?P<chr>'(?:[^'\\]|\\.)')
  | (?P<id>[A-Za-z_][A-Za-z_0-9]*)
  | (?P<num>[0-9][0-9A-Za-z_]*)
  | (?P<op>::|->|=>|==|!=|<=|>=|&&|\|\||\.\.=|\.\.|[-+*/%^!&|=<>@.,;:#$?~\[\]{}()])
''', re.X | re.S)

def tokenize(src, what):
    out, i = [], 0
    while i < len(src):
        m = TOK.match(src, i)
        if not m:
            raise Broken('%s: cannot tokenise at %r' % (what, src[i:i + 20]))
        if m.lastgroup not in ('ws', 'lc', 'bc'):
            out.append(m.group(0))
        i = m.end()
    return out

def canon(toks):
    return ' ' + ' '.join(toks) + ' '

def count_sub(hay, needle):
    """occurrences of the token sequence needle in hay (both canon strings)"""
    n, i = 0, hay.find(needle)
    while i >= 0:
        n += 1
        i = hay.find(needle, i + 1)
    return n

def block_end(toks, i):
    """toks[i] == '{' : index just after the matching '}'"""
    if toks[i] != '{':
        raise Broken('expected `{`, found `%s`' % toks[i])
    d = 0
    for j in range(i, len(toks)):
        if toks[j] == '{': d += 1
        elif toks[j] == '}':
            d -= 1
            if d == 0:
                return j + 1
    raise Broken('unbalanced braces')

def find_seq(toks, seq, what, lo=0, hi=None):
    """the unique position (index after the sequence) of the token sequence seq in toks[lo:hi]"""
    hi = len(toks) if hi is None else hi
    hits = [k for k in range(lo, hi - len(seq) + 1) if toks[k:k + len(seq)] == seq]
    if len(hits) != 1:
        raise Broken('%s: `%s` found %d times (expected once)' % (what, ' '.join(seq), len(hits)))
    return hits[0] + len(seq)

# ------------------------------------------------------------------------------------------------ what is translated
VALUE_FNS = [  # (name, exact signature, place is &mut)
    ('get', "pub fn get<I: Index>(&self, index: I) -> Option<&Value>", False),
    ('get_mut', "pub fn get_mut<I: Index>(&mut self, index: I) -> Option<&mut Value>", True),
    ('is_object', "pub fn is_object(&self) -> bool", False),
    ('as_object', "pub fn as_object(&self) -> Option<&Map<String, Value>>", False),
    ('as_object_mut', "pub fn as_object_mut(&mut self) -> Option<&mut Map<String, Value>>", True),
    ('is_array', "pub fn is_array(&self) -> bool", False),
    ('as_array', "pub fn as_array(&self) -> Option<&Vec<Value>>", False),
    ('as_array_mut', "pub fn as_array_mut(&mut self) -> Option<&mut Vec<Value>>", True),
    ('is_string', "pub fn is_string(&self) -> bool", False),
    ('as_str', "pub fn as_str(&self) -> Option<&str>", False),
    ('is_number', "pub fn is_number(&self) -> bool", False),
    ('as_number', "pub fn as_number(&self) -> Option<&Number>", False),
    ('is_i64', "pub fn is_i64(&self) -> bool", False),
    ('is_u64', "pub fn is_u64(&self) -> bool", False),
    ('is_f64', "pub fn is_f64(&self) -> bool", False),
    ('as_i64', "pub fn as_i64(&self) -> Option<i64>", False),
    ('as_u64', "pub fn as_u64(&self) -> Option<u64>", False),
    ('as_f64', "pub fn as_f64(&self) -> Option<f64>", False),
    ('is_boolean', "pub fn is_boolean(&self) -> bool", False),
    ('as_bool', "pub fn as_bool(&self) -> Option<bool>", False),
    ('is_null', "pub fn is_null(&self) -> bool", False),
    ('as_null', "pub fn as_null(&self) -> Option<()>", False),
    ('take', "pub fn take(&mut self) -> Value", True),
]
VALUE_NAMES = [n for n, _, _ in VALUE_FNS]
INDEX_METHS = [  # trait Index
    ('index_into', "fn index_into<'v>(&self, v: &'v Value) -> Option<&'v Value>", False),
    ('index_into_mut', "fn index_into_mut<'v>(&self, v: &'v mut Value) -> Option<&'v mut Value>", True),
    ('index_or_insert', "fn index_or_insert<'v>(&self, v: &'v mut Value) -> &'v mut Value", True),
]
INDEX_NAMES = [n for n, _, _ in INDEX_METHS]
# std / Map / Number methods given a meaning by VaccAst.apply_method: name -> number of arguments
METHS = {'is_some': 0, 'unwrap_or': 1, 'get': 1, 'get_mut': 1, 'len': 0, 'entry': 1, 'or_insert': 1, 'to_owned': 0,
         'is_i64': 0, 'is_u64': 0, 'is_f64': 0, 'as_i64': 0, 'as_u64': 0, 'as_f64': 0}
CTORS = {'Null': ('PNull', 0), 'Bool': ('PBool', 1), 'Number': ('PNumber', 1), 'String': ('PString', 1), 'Array': ('PArray', 1), 'Object': ('PObject', 1)}

PINS_MOD = {
    'enum Value': "pub enum Value { Null, Bool(bool), Number(Number), String(String), Array(Vec<Value>), Object(Map<String, Value>), }",
    'use core::mem': "use core::mem;",
    'use alloc::string::String': "use alloc::string::String;",
    'use alloc::vec::Vec': "use alloc::vec::Vec;",
    'pub use self::index::Index': "pub use self::index::Index;",
    'pub use crate::map::Map': "pub use crate::map::Map;",
    'pub use crate::number::Number': "pub use crate::number::Number;",
}
PINS_INDEX = {
    'use super::Value': "use super::Value;",
    'use crate::map::Map': "use crate::map::Map;",
    'use core::ops': "use core::ops;",
    'trait Index': "pub trait Index: private::Sealed { #[doc(hidden)] fn index_into<'v>(&self, v: &'v Value) -> Option<&'v Value>; "
                   "#[doc(hidden)] fn index_into_mut<'v>(&self, v: &'v mut Value) -> Option<&'v mut Value>; "
                   "#[doc(hidden)] fn index_or_insert<'v>(&self, v: &'v mut Value) -> &'v mut Value; }",
    'impl Index for String': "impl Index for String { fn index_into<'v>(&self, v: &'v Value) -> Option<&'v Value> { self[..].index_into(v) } "
                             "fn index_into_mut<'v>(&self, v: &'v mut Value) -> Option<&'v mut Value> { self[..].index_into_mut(v) } "
                             "fn index_or_insert<'v>(&self, v: &'v mut Value) -> &'v mut Value { self[..].index_or_insert(v) } }",
    'impl Index for &T': "impl<T> Index for &T where T: ?Sized + Index, { fn index_into<'v>(&self, v: &'v Value) -> Option<&'v Value> { (**self).index_into(v) } "
                         "fn index_into_mut<'v>(&self, v: &'v mut Value) -> Option<&'v mut Value> { (**self).index_into_mut(v) } "
                         "fn index_or_insert<'v>(&self, v: &'v mut Value) -> &'v mut Value { (**self).index_or_insert(v) } }",
    'mod private': "mod private { pub trait Sealed {} impl Sealed for usize {} impl Sealed for str {} impl Sealed for alloc::string::String {} "
                   "impl<T> Sealed for &T where T: ?Sized + Sealed {} }",
    'struct Type': "struct Type<'a>(&'a Value);",
    'impl Display for Type': "impl<'a> Display for Type<'a> { fn fmt(&self, formatter: &mut fmt::Formatter) -> fmt::Result { match *self.0 { "
                             "Value::Null => formatter.write_str(\"null\"), Value::Bool(_) => formatter.write_str(\"boolean\"), "
                             "Value::Number(_) => formatter.write_str(\"number\"), Value::String(_) => formatter.write_str(\"string\"), "
                             "Value::Array(_) => formatter.write_str(\"array\"), Value::Object(_) => formatter.write_str(\"object\"), } } }",
}

# ------------------------------------------------------------------------------------------------ the parser
class Ctx:
    def __init__(self, kind, place, index, place_mut, ikind=None):
        self.kind = kind            # 'value' (impl Value), 'ops' (ops::Index / IndexMut for Value), 'impl' (impl Index for usize / str)
        self.place = place          # the name of the Value place: 'self' or 'v'
        self.index = index          # the name of the index: 'index' or 'self' (None: the function has none)
        self.place_mut = place_mut
        self.ikind = ikind          # 'usize' / 'str' for kind == 'impl'

class Parser:
    """expressions are returned as (ast, role): role 'place' / 'index' / 'closure' / 'expr'; ast is a tuple tree printed by pp()"""
    def __init__(self, toks, ctx):
        self.t, self.i, self.ctx = toks, 0, ctx
        self.scopes = [set()]

    def peek(self, k=0):
        return self.t[self.i + k] if self.i + k < len(self.t) else None
    def next(self):
        tok = self.peek()
        if tok is None:
            raise Broken('unexpected end of body')
        self.i += 1
        return tok
    def eat(self, tok):
        if self.peek() != tok:
            raise Broken('expected `%s`, found `%s` (near `%s`)' % (tok, self.peek(), ' '.join(self.t[max(0, self.i - 4):self.i + 3])))
        self.i += 1
    def bound(self, x):
        return any(x in s for s in self.scopes)
    def ident(self):
        tok = self.next()
        if not re.fullmatch(r'[A-Za-z_][A-Za-z_0-9]*', tok):
            raise Broken('expected an identifier, found `%s`' % tok)
        return tok

    # ---- names
    def name(self, x, deref):
        c = self.ctx
        if self.bound(x):
            if deref:
                raise Broken('`*%s`: dereference of a local is outside the subset' % x)
            return ('EVar', x), 'expr'
        if x == c.place:
            if deref and c.kind == 'impl':
                raise Broken('`*%s` as an expression is outside the subset' % x)
            return ('EPlace',), 'place'            # `self` / `*self` (match scrutinee) in impl Value; `v` in impl Index for T
        if c.index is not None and x == c.index:
            if c.kind == 'impl':
                if deref != (c.ikind == 'usize'):
                    raise Broken('the index is written `%s` in impl Index for %s' % ('*self' if c.ikind == 'usize' else 'self', c.ikind))
            elif deref:
                raise Broken('`*%s` is outside the subset' % x)
            return ('EIndex',), 'index'
        raise Broken('unbound name `%s`' % x)

    # ---- patterns:  Value::Ctor | Value::Ctor(x) | Value::Ctor(_) | _
    def pattern(self):
        if self.peek() == '_':
            self.next()
            return ('PWild',), None
        self.eat('Value'); self.eat('::')
        c = self.ident()
        if c not in CTORS:
            raise Broken('pattern `Value::%s`: unknown constructor' % c)
        con, arity = CTORS[c]
        if arity == 0:
            if self.peek() == '(':
                raise Broken('pattern `Value::%s(..)`: the constructor has no payload' % c)
            return (con,), None
        self.eat('(')
        x = self.ident()
        self.eat(')')
        if x in (self.ctx.place, self.ctx.index, 'self'):
            raise Broken('pattern binder `%s` shadows a parameter' % x)
        return (con, x), (None if x == '_' else x)

    # ---- blocks and statements
    def block(self):
        self.eat('{')
        self.scopes.append(set())
        items, tail = [], None
        while self.peek() != '}':
            if tail is not None:
                raise Broken('expression `%s` is followed by more code without `;`' % pp(tail, 0))
            tok = self.peek()
            if tok == 'let':
                self.next()
                if self.peek() == 'mut':
                    raise Broken('`let mut` is outside the subset')
                x = self.ident()
                self.eat('=')
                e = self.expr_value()
                self.eat(';')
                self.scopes[-1].add(x)
                items.append(('let', x, e))
            elif tok == 'static':
                self.next()
                x = self.ident()
                self.eat(':'); self.eat('Value'); self.eat('=')
                e = self.expr_value()
                self.eat(';')
                self.scopes[-1].add(x)
                items.append(('static', x, e))
            elif tok == 'if':
                self.next(); self.eat('let')
                p, b = self.pattern()
                self.eat('=')
                s, role = self.expr()
                if role != 'place':
                    raise Broken('`if let` on something other than the Value place')
                self.scopes.append({b} if b else set())
                body = self.block()
                self.scopes.pop()
                if self.peek() == 'else':
                    raise Broken('`if let .. else` is outside the subset')
                if body[0] == 'ESeq' and body[2] == ('EUnit',):
                    body = body[1]                  # `{ e; }`: the value of the then-block is dropped by EIfLetPlace anyway
                items.append(('expr', ('EIfLetPlace', p, body)))
            elif tok == '*' and self.peek(2) == '=' :
                self.next()
                x = self.ident()
                if x != self.ctx.place or self.bound(x):
                    raise Broken('assignment `*%s = ..`: only the Value place can be assigned' % x)
                if not self.ctx.place_mut:
                    raise Broken('assignment through a shared reference')
                self.eat('=')
                e = self.expr_value()
                self.eat(';')
                items.append(('expr', ('EAssignPlace', e)))
            else:
                e = self.expr_value()
                if self.peek() == ';':
                    self.next()
                    items.append(('expr', e))
                elif e[0] in ('EMatchPlace',) and self.peek() != '}':
                    items.append(('expr', e))       # a block-like expression statement needs no `;`
                else:
                    tail = e
        self.eat('}')
        self.scopes.pop()
        res = tail if tail is not None else ('EUnit',)
        for it in reversed(items):
            if it[0] == 'let': res = ('ELet', it[1], it[2], res)
            elif it[0] == 'static': res = ('EStatic', it[1], it[2], res)
            else: res = ('ESeq', it[1], res)
        return res

    def expr_value(self):
        e, role = self.expr()
        if role == 'closure':
            raise Broken('a closure is only understood as the argument of unwrap_or_else')
        return e

    # ---- expressions
    def expr(self):
        tok = self.peek()
        if tok == '&':
            self.next()
            if self.peek() == 'mut':
                raise Broken('`&mut e` is outside the subset')
            return ('ERef', self.expr_value()), 'expr'
        if tok == '*':
            self.next()
            e, role = self.name(self.ident(), True)
        else:
            e, role = self.primary()
        while self.peek() == '.':
            self.next()
            m = self.ident()
            self.eat('(')
            args = []
            while self.peek() != ')':
                args.append(self.expr())
                if self.peek() == ',':
                    self.next()
                elif self.peek() != ')':
                    raise Broken('argument list of `.%s(`' % m)
            self.eat(')')
            e, role = self.method(e, role, m, args), 'expr'
        return e, role

    def method(self, recv, role, m, args):
        c = self.ctx
        if role == 'closure' or any(r == 'closure' for _, r in args[:-1]):
            raise Broken('a closure is only understood as the argument of unwrap_or_else')
        if m == 'unwrap_or_else':
            if len(args) != 1 or args[0][1] != 'closure':
                raise Broken('unwrap_or_else: expected one closure `|| ..`')
            return ('EUnwrapOrElse', recv, args[0][0])
        if any(r == 'closure' for _, r in args):
            raise Broken('a closure is only understood as the argument of unwrap_or_else')
        if m in INDEX_NAMES:
            if c.kind in ('value', 'ops') and role == 'index' and len(args) == 1 and args[0][1] == 'place':
                if m != 'index_into' and not c.place_mut:
                    raise Broken('`%s` through a shared reference' % m)
                return ('ECallIndex', m)
            raise Broken('`.%s(..)`: only `index.%s(self)` is understood' % (m, m))
        if role == 'place':
            if c.kind == 'value' and m in VALUE_NAMES and not args:
                if dict((n, mt) for n, _, mt in VALUE_FNS)[m] and not c.place_mut:
                    raise Broken('`self.%s()` needs `&mut self`' % m)
                return ('ECallSelf', 'Value_' + m)
            raise Broken('`%s.%s(..)`: not one of the translated Value methods (or called with arguments)' % (c.place, m))
        if m in METHS:
            if len(args) != METHS[m]:
                raise Broken('`.%s(..)` with %d argument(s), expected %d' % (m, len(args), METHS[m]))
            return ('EMethod', recv, 'M_' + m, [a for a, _ in args])
        raise Broken('method `.%s(..)` is outside the subset' % m)

    def primary(self):
        tok = self.next()
        if tok == 'match':
            d = False
            if self.peek() == '*':
                self.next(); d = True
            x = self.ident()
            s, role = self.name(x, d and self.ctx.kind != 'impl')
            if role != 'place' or (d and self.ctx.kind == 'impl'):
                raise Broken('`match` on something other than the Value place')
            self.eat('{')
            arms = []
            while self.peek() != '}':
                p, b = self.pattern()
                if self.peek() == '|':
                    raise Broken('or-patterns are outside the subset')
                if self.peek() == 'if':
                    raise Broken('match guards are outside the subset')
                self.eat('=>')
                self.scopes.append({b} if b else set())
                if self.peek() == '{':
                    e = self.block()
                    if self.peek() == ',':
                        self.next()
                else:
                    e = self.expr_value()
                    if self.peek() == ',':
                        self.next()
                    elif self.peek() != '}':
                        raise Broken('match arm not terminated by `,`')
                self.scopes.pop()
                arms.append((p, e))
            self.eat('}')
            if not arms:
                raise Broken('empty match')
            return ('EMatchPlace', arms), 'expr'
        if tok == 'Some':
            self.eat('(')
            e = self.expr_value()
            self.eat(')')
            return ('ESome', e), 'expr'
        if tok == 'None': return ('ENone',), 'expr'
        if tok == 'true': return ('ETrue',), 'expr'
        if tok == 'false': return ('EFalse',), 'expr'
        if tok == '(':
            if self.peek() == ')':
                self.next()
                return ('EUnit',), 'expr'
            e, role = self.expr()
            self.eat(')')
            return e, role
        if tok == '{':
            self.i -= 1
            return self.block(), 'expr'
        if tok == 'Value' and self.peek() == '::':
            self.next()
            c = self.ident()
            if c == 'Null' and self.peek() != '(':
                return ('EValueNull',), 'expr'
            if c == 'Object':
                self.eat('(')
                e = self.expr_value()
                self.eat(')')
                return ('EValueObject', e), 'expr'
            raise Broken('constructor expression `Value::%s` is outside the subset' % c)
        if tok == 'Map' and self.peek() == '::':
            self.next(); self.eat('new'); self.eat('('); self.eat(')')
            return ('EMapNew',), 'expr'
        if tok == 'mem' and self.peek() == '::':
            self.next(); self.eat('replace'); self.eat('(')
            x = self.ident()
            if x != self.ctx.place or self.bound(x):
                raise Broken('mem::replace(%s, ..): the destination is not the Value place' % x)
            if not self.ctx.place_mut:
                raise Broken('mem::replace through a shared reference')
            self.eat(',')
            e = self.expr_value()
            self.eat(')')
            return ('EMemReplacePlace', e), 'expr'
        if tok == 'panic' and self.peek() == '!':
            self.next(); self.eat('(')
            fmt = self.next()
            if not (fmt.startswith('"') and fmt.endswith('"')) or '\\' in fmt:
                raise Broken('panic!: the first argument is not a plain string literal')
            nargs = 0
            while self.peek() == ',':
                self.next()
                if self.peek() == ')':
                    break
                nargs += 1
                a = self.next()                         # message arguments must be side-effect free: self, a local, Type(v)
                if a == 'Type':
                    self.eat('('); self.eat(self.ctx.place); self.eat(')')
                elif not (a == 'self' or self.bound(a)):
                    raise Broken('panic!: argument `%s` is outside the subset (self, a local, Type(%s))' % (a, self.ctx.place))
            self.eat(')')
            if nargs != len(re.findall(r'\{[^{}]*\}', fmt)):
                raise Broken('panic!: %d argument(s) for the format string %s' % (nargs, fmt))
            return ('EPanic', fmt[1:-1]), 'expr'
        if tok == '||':
            if self.peek() == '{':
                return self.block(), 'closure'
            return self.expr_value(), 'closure'
        if re.fullmatch(r'[A-Za-z_][A-Za-z_0-9]*', tok) and self.peek() not in ('::', '!', '('):
            return self.name(tok, False)
        raise Broken('expression starting with `%s %s` is outside the subset' % (tok, self.peek()))

# ------------------------------------------------------------------------------------------------ printing the AST
def cstr(s):
    return '"' + s.replace('"', '""') + '"'

def pp_pat(p):
    return p[0] if len(p) == 1 else '%s %s' % (p[0], cstr(p[1]))

def atom(e, ind):
    s = pp(e, ind)
    return s if len(e) == 1 else '(' + s + ')'

def pp(e, ind):
    """ind: column at which the expression starts (continuation lines are aligned under it)"""
    k = e[0]
    if len(e) == 1:
        return k
    if k in ('EVar', 'EPanic'):
        return '%s %s' % (k, cstr(e[1]))
    if k in ('ECallSelf', 'ECallIndex'):
        return '%s %s' % (k, e[1])
    if k in ('ESome', 'ERef', 'EValueObject', 'EAssignPlace', 'EMemReplacePlace'):
        return '%s %s' % (k, atom(e[1], ind + len(k) + 2))
    if k == 'EMatchPlace':
        pad = '\n' + ' ' * (ind + len('EMatchPlace ['))
        arms = []
        for p, b in e[1]:
            head = '(%s, ' % pp_pat(p)
            arms.append(head + pp(b, ind + len('EMatchPlace [') + len(head)) + ')')
        return 'EMatchPlace [' + (';' + pad).join(arms) + ']'
    if k == 'EIfLetPlace':
        head = 'EIfLetPlace %s ' % (pp_pat(e[1]) if len(e[1]) == 1 else '(' + pp_pat(e[1]) + ')')
        return head + atom(e[2], ind + len(head) + 1)
    if k in ('ELet', 'EStatic'):
        head = '%s %s ' % (k, cstr(e[1]))
        return head + atom(e[2], ind + len(head) + 1) + '\n' + ' ' * (ind + 2) + atom(e[3], ind + 3)
    if k == 'ESeq':
        return 'ESeq ' + atom(e[1], ind + 6) + '\n' + ' ' * (ind + 5) + atom(e[2], ind + 6)
    if k == 'EMethod':
        head = 'EMethod ' + atom(e[1], ind + 9) + ' ' + e[2] + ' '
        last = head.split('\n')[-1]
        col = (ind if '\n' not in head else 0) + len(last)
        return head + '[' + '; '.join(pp(a, col + 1) for a in e[3]) + ']'
    if k == 'EUnwrapOrElse':
        return 'EUnwrapOrElse ' + atom(e[1], ind + 15) + '\n' + ' ' * (ind + 14) + atom(e[2], ind + 15)
    raise Broken('internal: cannot print %r' % (e,))

# ------------------------------------------------------------------------------------------------ driver
def translate_body(toks, lo, ctx):
    hi = block_end(toks, lo)
    p = Parser(toks[lo:hi], ctx)
    e = p.block()
    if p.i != len(p.t):
        raise Broken('trailing tokens after the body')
    return e

def impl_block(toks, header, what):
    hdr = tokenize(header, what)
    end = find_seq(toks, hdr, what)
    return end - 1, block_end(toks, end - 1)        # [index of '{', index after '}')

def main():
    ap = argparse.ArgumentParser()
    ap.add_argument('--repo', default=os.environ.get('VERIF_REPO', '/repo'))
    ap.add_argument('--out', default=None)
    ap.add_argument('out_pos', nargs='?', default=None)
    a = ap.parse_args()
    out = a.out or a.out_pos or os.path.join(os.path.dirname(os.path.abspath(__file__)), '..', 'coq', 'theories', 'Gen', 'VaccTables.v')
    broken, fns = [], []            # fns: (coq name, comment, ast)
    try:
        mod = tokenize(open(os.path.join(a.repo, 'src', 'value', 'mod.rs'), encoding='utf-8').read(), 'mod.rs')
        idx = tokenize(open(os.path.join(a.repo, 'src', 'value', 'index.rs'), encoding='utf-8').read(), 'index.rs')
    except (Broken, OSError) as e:
        print('BROKEN vacc:source: %s' % e)
        return 3
    cm, ci = canon(mod), canon(idx)
    for name, text in PINS_MOD.items():
        if count_sub(cm, canon(tokenize(text, name))) != 1:
            broken.append(('mod.rs ' + name, 'is no longer exactly `%s`' % text))
    for name, text in PINS_INDEX.items():
        if count_sub(ci, canon(tokenize(text, name))) != 1:
            broken.append(('index.rs ' + name, 'is no longer exactly `%s`' % text))
    # exactly the four `impl .. Index for ..` (usize, str, String, &T): no further index type, no second impl
    n_impl = sum(1 for k in range(len(idx) - 1) if idx[k] == 'Index' and idx[k + 1] == 'for')
    if n_impl != 4:
        broken.append(('index.rs impls', '%d `impl Index for ..` blocks, expected 4 (usize, str, String, &T)' % n_impl))

    def one(tag, toks, lo, hi, sig, ctx, coqname, comment):
        try:
            s = tokenize(sig, tag)
            end = find_seq(toks, s, tag, lo, hi)
            if toks[end] != '{':
                raise Broken('signature is not followed by a body')
            fns.append((coqname, comment, translate_body(toks, end, ctx)))
        except (Broken, IndexError) as e:
            broken.append((tag, str(e)))

    try:
        lo, hi = impl_block(mod, 'impl Value {', 'impl Value')
        for name, sig, mt in VALUE_FNS:
            has_index = name in ('get', 'get_mut')
            one('Value::' + name, mod, lo, hi, sig, Ctx('value', 'self', 'index' if has_index else None, mt), 'Value_' + name,
                'Value::%s  —  mod.rs:  %s' % (name, sig))
    except (Broken, IndexError) as e:
        broken.append(('impl Value', str(e)))
    for ty, kind in (('usize', 'KUsize'), ('str', 'KStr')):
        try:
            lo, hi = impl_block(idx, 'impl Index for %s {' % ty, 'impl Index for ' + ty)
            n_fn = sum(1 for k in range(lo, hi) if idx[k] == 'fn')
            if n_fn != 3:
                raise Broken('%d fns in the impl, expected 3' % n_fn)
            for name, sig, mt in INDEX_METHS:
                one('<%s as Index>::%s' % (ty, name), idx, lo, hi, sig, Ctx('impl', 'v', 'self', mt, ty), 'Index_for %s %s' % (kind, name),
                    '<%s as Index>::%s  —  index.rs:  %s' % (ty, name, sig))
        except (Broken, IndexError) as e:
            broken.append(('impl Index for ' + ty, str(e)))
    for hdr, sig, nm, coqname, mt in (
            ('impl<I> ops::Index<I> for Value where I: Index, { type Output = Value;', 'fn index(&self, index: I) -> &Value', 'index', 'Ops_index', False),
            ('impl<I> ops::IndexMut<I> for Value where I: Index, {', 'fn index_mut(&mut self, index: I) -> &mut Value', 'index_mut', 'Ops_index_mut', True)):
        tag = '<Value as ops::%s>::%s' % ('Index' if nm == 'index' else 'IndexMut', nm)
        try:
            h = tokenize(hdr, tag)
            end = find_seq(idx, h, tag)
            lo = end - len(h) + h.index('{')
            hi = block_end(idx, lo)
            if sum(1 for k in range(lo, hi) if idx[k] == 'fn') != 1:
                raise Broken('more than one fn in the impl')
            one(tag, idx, lo, hi, sig, Ctx('ops', 'self', 'index', mt), coqname, '%s  —  index.rs:  %s' % (tag, sig))
        except (Broken, IndexError) as e:
            broken.append((tag, str(e)))

    for n, w in broken:
        print('BROKEN vacc:%s: %s' % (n, w))
    if broken:
        return 3
    L = ['(* Gen/VaccTables.v — GENERATED by tools/translate_vacc.py from /repo/src/value/mod.rs and /repo/src/value/index.rs on every run. Do not edit.',
         '   The bodies of the Value accessors / in-place lookups, statement by statement (AST and its meaning: Model/VaccAst.v).',
         '   EPlace = the Value the function works on (`self` in impl Value and ops::Index / IndexMut, `v` in impl Index for usize / str);',
         '   EIndex = the index (`index` there, `*self` / `self` here). *)',
         'From Coq Require Import List String.', 'From SJ Require Import Model.VaccAst.', 'Import ListNotations.', 'Open Scope string_scope.', '',
         'Definition VACC_FNS : program := [']
    for k, (coqname, comment, e) in enumerate(fns):
        L.append('  (* %s *)' % comment)
        head = '  (%s,' % coqname
        L.append(head)
        L.append('    ' + pp(e, 4) + ')' + (';' if k + 1 < len(fns) else ''))
    L.append('].')
    text = '\n'.join(L) + '\n'
    old = open(out).read() if os.path.exists(out) else None
    if old != text:
        open(out, 'w').write(text)
        print('UPDATED ' + os.path.relpath(out))
    return 0

if __name__ == '__main__':
    sys.exit(main())
