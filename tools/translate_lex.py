#!/usr/bin/env python3
"""translate_lex.py — regenerates coq/theories/Gen/LexTables.v from /repo/src/lexical on every run.

Extracted (each with a strict shape assertion; a source that no longer has the expected shape is reported as
`BROKEN <item>: <why>` on stdout, exit status 3, and the previous file is NOT rewritten):
  cached_float80.rs  BASE10_SMALL_MANTISSA/EXPONENT, BASE10_LARGE_MANTISSA/EXPONENT, BASE10_SMALL_INT_POWERS,
                     BASE10_STEP, BASE10_BIAS, and the wiring of BASE10_POWERS / get_powers
  small_powers.rs    POW5_64, POW10_64
  large_powers64.rs  POW5_1 .. POW5_n (limb vectors, little endian) and the index array POW5
  num.rs             F32_POW10 / F64_POW10 (float literals 1.0, 10.0, ...), u64 Mantissa constants, and the
                     `impl Float for f32 / f64` constants (expressions over MANTISSA_SIZE / EXPONENT_BIAS are evaluated
                     after their shape has been checked), exponent_limit, mantissa_limit, pow10
  errors.rs          error_scale, error_halfscale
  math.rs            KARATSUBA_CUTOFF (documentation only: the limb algorithms are abstracted to Z in the model)

Usage: translate_lex.py [--repo /repo] [--out <file>]
"""
import re, sys, os, argparse

class Broken(Exception):
    pass

def rd(repo, rel):
    with open(os.path.join(repo, rel), encoding='utf-8') as f:
        return f.read()

def squeeze(s):
    return re.sub(r'\s+', ' ', s).strip()

def strip_comments(s):
    return re.sub(r'//[^\n]*', '', s)

def int_array(src, name, ty, vis=r'(?:pub\(crate\) )?'):
    """`const NAME: [ty; n] = [ ... ];` -> list of ints; the declared length must match"""
    ms = re.findall(r'^%sconst %s: \[%s; (\d+)\] = \[(.*?)\];' % (vis, re.escape(name), ty), src, re.S | re.M)
    if len(ms) != 1:
        raise Broken('%s: expected exactly one definition, found %d' % (name, len(ms)))
    n, body = ms[0]
    toks = [t.strip() for t in strip_comments(body).split(',') if t.strip()]
    vals = []
    for t in toks:
        if not re.fullmatch(r'-?\d+', t):
            raise Broken('%s: entry %r is not a decimal integer literal' % (name, t))
        vals.append(int(t))
    if len(vals) != int(n):
        raise Broken('%s: declared length %s, %d entries' % (name, n, len(vals)))
    lo, hi = {'u64': (0, 2**64 - 1), 'u32': (0, 2**32 - 1), 'i32': (-2**31, 2**31 - 1)}[ty]
    for v in vals:
        if not lo <= v <= hi:
            raise Broken('%s: entry %d out of range for %s' % (name, v, ty))
    return vals

def int_const(src, name, ty):
    ms = re.findall(r'^(?:pub(?:\(crate\))? )?const %s: %s = (-?\d+);' % (re.escape(name), ty), src, re.M)
    if len(ms) != 1:
        raise Broken('%s: expected exactly one definition' % name)
    return int(ms[0])

def float_pow10_array(src, name, ty):
    ms = re.findall(r'^const %s: \[%s; (\d+)\] = \[(.*?)\];' % (name, ty), src, re.S | re.M)
    if len(ms) != 1:
        raise Broken(name)
    n, body = ms[0]
    toks = [t.strip() for t in strip_comments(body).split(',') if t.strip()]
    vals = []
    for t in toks:
        if not re.fullmatch(r'\d+\.0', t):
            raise Broken('%s: literal %r is not of the form <digits>.0' % (name, t))
        vals.append(int(t[:-2]))
    if len(vals) != int(n):
        raise Broken('%s length' % name)
    return vals

def impl_float(num, ty):
    m = re.search(r'impl Float for %s \{(.*?)\n\}\n' % ty, num, re.S)
    if not m:
        raise Broken('impl Float for ' + ty)
    body = m.group(1)
    c = {}
    def const(name, cty, pat):
        mm = re.findall(r'const %s: %s = (.*?);' % (name, cty), body)
        if len(mm) != 1:
            raise Broken('%s::%s missing' % (ty, name))
        e = squeeze(mm[0])
        if not re.fullmatch(pat, e):
            raise Broken('%s::%s has unexpected shape: %s' % (ty, name, e))
        return e
    def lit(e):
        return int(e, 16) if e.lower().startswith('0x') else int(e)
    uns = {'f32': 'u32', 'f64': 'u64'}[ty]
    if not re.search(r'type Unsigned = %s;' % uns, body):
        raise Broken('%s::Unsigned' % ty)
    c['MAX_DIGITS'] = lit(const('MAX_DIGITS', 'usize', r'\d+'))
    c['EXPONENT_MASK'] = lit(const('EXPONENT_MASK', uns, r'0x[0-9A-Fa-f]+'))
    c['HIDDEN_BIT_MASK'] = lit(const('HIDDEN_BIT_MASK', uns, r'0x[0-9A-Fa-f]+'))
    c['MANTISSA_MASK'] = lit(const('MANTISSA_MASK', uns, r'0x[0-9A-Fa-f]+'))
    c['INFINITY_BITS'] = lit(const('INFINITY_BITS', uns, r'0x[0-9A-Fa-f]+'))
    c['MANTISSA_SIZE'] = lit(const('MANTISSA_SIZE', 'i32', r'\d+'))
    e = const('EXPONENT_BIAS', 'i32', r'\d+ \+ Self::MANTISSA_SIZE')
    c['EXPONENT_BIAS'] = int(e.split(' ')[0]) + c['MANTISSA_SIZE']
    const('DENORMAL_EXPONENT', 'i32', r'1 - Self::EXPONENT_BIAS')
    c['DENORMAL_EXPONENT'] = 1 - c['EXPONENT_BIAS']
    e = const('MAX_EXPONENT', 'i32', r'0x[0-9A-Fa-f]+ - Self::EXPONENT_BIAS')
    c['MAX_EXPONENT'] = int(e.split(' ')[0], 16) - c['EXPONENT_BIAS']
    const('DEFAULT_SHIFT', 'i32', r'u64::FULL - %s::MANTISSA_SIZE - 1' % ty)
    c['DEFAULT_SHIFT'] = 64 - c['MANTISSA_SIZE'] - 1
    c['CARRY_MASK'] = lit(const('CARRY_MASK', 'u64', r'0x[0-9A-Fa-f]+'))
    if squeeze(const('ZERO', ty, r'0\.0')) != '0.0':
        raise Broken('%s::ZERO' % ty)
    mm = re.search(r'fn exponent_limit\(\) -> \(i32, i32\) \{\s*\((-?\d+), (-?\d+)\)\s*\}', body)
    if not mm:
        raise Broken('%s::exponent_limit' % ty)
    c['EXP_LIMIT_MIN'], c['EXP_LIMIT_MAX'] = int(mm.group(1)), int(mm.group(2))
    mm = re.search(r'fn mantissa_limit\(\) -> i32 \{\s*(\d+)\s*\}', body)
    if not mm:
        raise Broken('%s::mantissa_limit' % ty)
    c['MANTISSA_LIMIT'] = int(mm.group(1))
    tab = {'f32': 'F32_POW10', 'f64': 'F64_POW10'}[ty]
    mm = re.search(r'fn pow10\(self, n: i32\) -> %s \{(.*?)\n    \}' % ty, body, re.S)
    if not mm:
        raise Broken('%s::pow10' % ty)
    want = 'if n > 0 { self * %s[n as usize] } else { self / %s[-n as usize] }' % (tab, tab)
    if want not in squeeze(strip_comments(mm.group(1))):
        raise Broken('%s::pow10 body changed' % ty)
    return c

def translate(repo):
    out = {}
    broken = []
    def item(name, f):
        try:
            out[name] = f()
        except (Broken, KeyError, ValueError, AttributeError, IndexError, OSError) as e:
            broken.append((name, str(e)))
            out[name] = None

    def src(rel):
        return rd(repo, 'src/lexical/' + rel)

    # ---- cached_float80.rs
    def cached():
        s = src('cached_float80.rs')
        c = {}
        for name, ty in [('BASE10_SMALL_MANTISSA', 'u64'), ('BASE10_SMALL_EXPONENT', 'i32'), ('BASE10_LARGE_MANTISSA', 'u64'),
                         ('BASE10_LARGE_EXPONENT', 'i32'), ('BASE10_SMALL_INT_POWERS', 'u64')]:
            c[name] = int_array(s, name, ty)
        c['BASE10_STEP'] = int_const(s, 'BASE10_STEP', 'i32')
        c['BASE10_BIAS'] = int_const(s, 'BASE10_BIAS', 'i32')
        if not (len(c['BASE10_SMALL_MANTISSA']) == len(c['BASE10_SMALL_EXPONENT']) == len(c['BASE10_SMALL_INT_POWERS']) == c['BASE10_STEP']):
            raise Broken('small tables do not have BASE10_STEP entries')
        if len(c['BASE10_LARGE_MANTISSA']) != len(c['BASE10_LARGE_EXPONENT']):
            raise Broken('large tables differ in length')
        want = ('const BASE10_POWERS: ModeratePathPowers = ModeratePathPowers { small: ExtendedFloatArray { mant: &BASE10_SMALL_MANTISSA, '
                'exp: &BASE10_SMALL_EXPONENT, }, large: ExtendedFloatArray { mant: &BASE10_LARGE_MANTISSA, exp: &BASE10_LARGE_EXPONENT, }, '
                'small_int: &BASE10_SMALL_INT_POWERS, step: BASE10_STEP, bias: BASE10_BIAS, };')
        if want not in squeeze(strip_comments(s)):
            raise Broken('BASE10_POWERS wiring changed')
        if 'pub(crate) fn get_powers() -> &\'static ModeratePathPowers { &BASE10_POWERS }' not in squeeze(strip_comments(s)):
            raise Broken('get_powers changed')
        return c
    item('CACHED', cached)

    # ---- small_powers.rs
    item('POW5_64', lambda: int_array(src('small_powers.rs'), 'POW5_64', 'u64'))
    item('POW10_64', lambda: int_array(src('small_powers.rs'), 'POW10_64', 'u64'))

    # ---- large_powers64.rs
    def large():
        s = src('large_powers64.rs')
        m = re.search(r'^pub\(crate\) const POW5: \[&\[u64\]; (\d+)\] = \[(.*?)\];', s, re.S | re.M)
        if not m:
            raise Broken('POW5 index array')
        n = int(m.group(1))
        names = [t.strip() for t in strip_comments(m.group(2)).split(',') if t.strip()]
        if names != ['&POW5_%d' % i for i in range(1, n + 1)]:
            raise Broken('POW5 index array entries: %r' % names[:4])
        return [int_array(s, 'POW5_%d' % i, 'u64') for i in range(1, n + 1)]
    item('LARGE_POW5', large)

    # ---- num.rs
    def numrs():
        s = src('num.rs')
        c = {'F32_POW10': float_pow10_array(s, 'F32_POW10', 'f32'), 'F64_POW10': float_pow10_array(s, 'F64_POW10', 'f64')}
        m = re.search(r'impl Mantissa for u64 \{(.*?)\}', s, re.S)
        if not m or squeeze(m.group(1)) != 'const HIMASK: u64 = 0xFFFFFFFF00000000; const LOMASK: u64 = 0x00000000FFFFFFFF; const FULL: i32 = 64;':
            raise Broken('impl Mantissa for u64')
        if 'const HALF: i32 = Self::FULL / 2;' not in s:
            raise Broken('Mantissa::HALF')
        c['f32'] = impl_float(s, 'f32')
        c['f64'] = impl_float(s, 'f64')
        return c
    item('NUM', numrs)

    # ---- errors.rs
    def errors():
        s = squeeze(strip_comments(src('errors.rs')))
        m = re.search(r'fn error_scale\(\) -> u32 \{ (\d+) \}', s)
        if not m:
            raise Broken('error_scale')
        if 'fn error_halfscale() -> u32 { u64::error_scale() / 2 }' not in s:
            raise Broken('error_halfscale')
        sc = int(m.group(1))
        return (sc, sc // 2)
    item('ERRORS', errors)

    def karatsuba2():
        s = src('math.rs')
        m = re.search(r'pub const KARATSUBA_CUTOFF: usize = (\d+);', s)
        if not m:
            raise Broken('KARATSUBA_CUTOFF')
        return int(m.group(1))
    item('KARATSUBA_CUTOFF', karatsuba2)

    return out, broken

def nlist(xs, per=4):
    rows = []
    for i in range(0, len(xs), per):
        rows.append('; '.join(str(x) for x in xs[i:i + per]))
    return '[' + ';\n    '.join(rows) + ']%N'

def zlist(xs, per=12):
    rows = []
    for i in range(0, len(xs), per):
        rows.append('; '.join(('(%d)' % x) if x < 0 else str(x) for x in xs[i:i + per]))
    return '[' + ';\n    '.join(rows) + ']%Z'

def emit(out):
    L = []
    A = L.append
    A('(* Gen/LexTables.v — GENERATED by tools/translate_lex.py from /repo/src/lexical on every run. Do not edit. *)')
    A('From Coq Require Import List NArith ZArith.')
    A('Import ListNotations.')
    A('')
    c = out['CACHED']
    A('(* cached_float80.rs *)')
    A('Definition BASE10_SMALL_MANTISSA : list N :=\n   %s.' % nlist(c['BASE10_SMALL_MANTISSA']))
    A('Definition BASE10_SMALL_EXPONENT : list Z :=\n   %s.' % zlist(c['BASE10_SMALL_EXPONENT']))
    A('Definition BASE10_LARGE_MANTISSA : list N :=\n   %s.' % nlist(c['BASE10_LARGE_MANTISSA']))
    A('Definition BASE10_LARGE_EXPONENT : list Z :=\n   %s.' % zlist(c['BASE10_LARGE_EXPONENT']))
    A('Definition BASE10_SMALL_INT_POWERS : list N :=\n   %s.' % nlist(c['BASE10_SMALL_INT_POWERS']))
    A('Definition BASE10_STEP : Z := %d.' % c['BASE10_STEP'])
    A('Definition BASE10_BIAS : Z := %d.' % c['BASE10_BIAS'])
    A('')
    A('(* small_powers.rs *)')
    A('Definition POW5_64 : list N :=\n   %s.' % nlist(out['POW5_64']))
    A('Definition POW10_64 : list N :=\n   %s.' % nlist(out['POW10_64']))
    A('')
    A('(* large_powers64.rs: POW5[i] as limb vectors (little endian, 64-bit limbs) *)')
    A('Definition LARGE_POW5_LIMBS : list (list N) :=\n  [ %s ].' % ';\n    '.join(nlist(v) for v in out['LARGE_POW5']))
    A('')
    n = out['NUM']
    A('(* num.rs: the f32/f64 tables of exact powers of ten, as the integers their literals denote *)')
    A('Definition F32_POW10 : list Z :=\n   %s.' % zlist(n['F32_POW10'], 4))
    A('Definition F64_POW10 : list Z :=\n   %s.' % zlist(n['F64_POW10'], 4))
    for ty, P in (('f32', 'F32'), ('f64', 'F64')):
        c = n[ty]
        A('(* impl Float for %s *)' % ty)
        A('Definition %s_MAX_DIGITS : nat := %d.' % (P, c['MAX_DIGITS']))
        for k in ('EXPONENT_MASK', 'HIDDEN_BIT_MASK', 'MANTISSA_MASK', 'INFINITY_BITS', 'CARRY_MASK'):
            A('Definition %s_%s : N := %d.' % (P, k, c[k]))
        for k in ('MANTISSA_SIZE', 'EXPONENT_BIAS', 'DENORMAL_EXPONENT', 'MAX_EXPONENT', 'DEFAULT_SHIFT', 'EXP_LIMIT_MIN', 'EXP_LIMIT_MAX', 'MANTISSA_LIMIT'):
            v = c[k]
            A('Definition %s_%s : Z := %s.' % (P, k, ('(%d)' % v) if v < 0 else str(v)))
    A('')
    A('(* errors.rs *)')
    A('Definition ERROR_SCALE : N := %d.' % out['ERRORS'][0])
    A('Definition ERROR_HALFSCALE : N := %d.' % out['ERRORS'][1])
    A('(* math.rs *)')
    A('Definition KARATSUBA_CUTOFF : nat := %d.' % out['KARATSUBA_CUTOFF'])
    A('')
    return '\n'.join(L) + '\n'

def main():
    ap = argparse.ArgumentParser()
    ap.add_argument('--repo', default=os.environ.get('VERIF_REPO', '/repo'))
    ap.add_argument('--out', default=os.path.join(os.path.dirname(os.path.abspath(__file__)), '..', 'coq', 'theories', 'Gen', 'LexTables.v'))
    a = ap.parse_args()
    out, broken = translate(a.repo)
    for name, why in broken:
        print('BROKEN %s: %s' % (name, why))
    if broken:
        return 3
    text = emit(out)
    old = None
    if os.path.exists(a.out):
        with open(a.out) as f:
            old = f.read()
    if old != text:
        with open(a.out, 'w') as f:
            f.write(text)
        print('UPDATED ' + os.path.relpath(a.out))
    return 0

if __name__ == '__main__':
    sys.exit(main())
