#!/usr/bin/env python3
"""vacc_try.py — correspondence check of the `Value` accessors (is_* / as_*): the hand models of Model/VaccAst.v + Model/Pointer.v
(extracted: Extract/Driver_vacc.v -> sjmodel_vacc.ml, glue ocaml/driver_vacc.ml) against the real crate (harness/src/bin/sjh_vacc.rs).
Op `acc <value>`: every accessor's result on one line (protocol: header of Extract/Driver_vacc.v).  Generates every kind of value, numbers at the
i64 / u64 / f64 boundaries, strings (empty, ASCII, multi-byte), arrays and objects (sorted unique keys), nested; runs both sides; diffs.
Usage: vacc_try.py [--n 3000] [--seed 1] [--keep]
Scratch: /root/scratch/vacc_ocaml (OCaml side), CARGO_TARGET_DIR=/root/scratch/tgt_pvacc (Rust side)."""
import os, sys, random, struct, subprocess, argparse, shutil

ROOT = os.path.abspath(os.path.join(os.path.dirname(os.path.abspath(__file__)), '..', '..'))
OC = '/root/scratch/vacc_ocaml'
TGT = '/root/scratch/tgt_pvacc'
W = '-notation-overridden,-deprecated-hint-without-locality,-deprecated-instance-without-locality'

def sh(cmd, cwd=None, env=None):
    r = subprocess.run(cmd, shell=True, cwd=cwd, env=env, capture_output=True, text=True)
    if r.returncode != 0:
        sys.stderr.write(r.stdout[-3000:] + r.stderr[-3000:])
        raise SystemExit('FAILED: ' + cmd)
    return r.stdout

def build():
    os.makedirs(OC, exist_ok=True)
    th = ROOT + '/coq/theories'
    for f in ('Model/VaccAst.v', 'Extract/Driver_vacc.v'):
        if not os.path.exists(th + '/' + f[:-2] + '.vo') or os.path.getmtime(th + '/' + f[:-2] + '.vo') < os.path.getmtime(th + '/' + f):
            sh('timeout 600 coqc -Q theories SJ -w %s theories/%s' % (W, f), cwd=ROOT + '/coq')
    # extraction writes sjmodel_vacc.ml into the current directory: run it from the scratch directory
    sh('timeout 600 coqc -Q %s SJ -w %s %s/Extract/Extract_vacc.v' % (th, W, th), cwd=OC)
    shutil.copy(ROOT + '/ocaml/driver_vacc.ml', OC + '/driver_vacc.ml')
    sh('ocamlfind ocamlopt -O2 -w -a -I . sjmodel_vacc.mli sjmodel_vacc.ml driver_vacc.ml -o sjdriver_vacc', cwd=OC)
    env = dict(os.environ, CARGO_TARGET_DIR=TGT, CARGO_NET_OFFLINE='true')
    sh('timeout 1200 cargo build --release --offline --bin sjh_vacc', cwd=ROOT + '/harness', env=env)

# ---- values in the canonical text form ------------------------------------------------------------------
def hx(b):
    return b.hex() if b else '-'

I64MAX, U64MAX = 2**63 - 1, 2**64 - 1
U_EDGE = [0, 1, 2, 9, 10, 255, 256, 65535, 2**31 - 1, 2**31, 2**32 - 1, 2**32, 2**53 - 1, 2**53, 2**53 + 1, 2**53 + 2, 2**53 + 3,
          I64MAX - 1, I64MAX, I64MAX + 1, I64MAX + 2, 2**63 + 1024, 2**63 + 1025, U64MAX - 2048, U64MAX - 1025, U64MAX - 1024, U64MAX - 1023,
          U64MAX - 1, U64MAX, 9007199254740993, 18014398509481985, 1234567890123456789, 9999999999999999999, 10**19]
I_EDGE = [-1, -2, -10, -255, -256, -2**31, -2**31 - 1, -2**32, -2**53 + 1, -2**53, -2**53 - 1, -2**53 - 2, -2**53 - 3, -I64MAX + 1, -I64MAX, -I64MAX - 1,
          -2**62, -2**63 + 1023, -2**63 + 1024, -2**63 + 1025, -1234567890123456789, -9007199254740993]
def bits(x):
    return struct.unpack('>Q', struct.pack('>d', x))[0]
D_EDGE = [0, 1 << 63, bits(1.0), bits(-1.0), bits(0.5), bits(1.5), bits(0.1), 1, 2, (1 << 52) - 1, 1 << 52, (1 << 52) + 1,
          0x7fefffffffffffff, 0xffefffffffffffff, 0x7fe0000000000000, bits(2.0**63), bits(-2.0**63), bits(2.0**64), bits(2.0**53), bits(2.0**53 + 2),
          bits(9223372036854775807.0), bits(1e308), bits(-1e-308), bits(5e-324), bits(123456.789), bits(-0.0), 0x8000000000000001, bits(4294967296.0)]
STRS = [b'', b'a', b'abc', b'\x00', b'\x7f', b'"\\/', b' ', 'é'.encode(), '€'.encode(), '\U0001f600'.encode(), 'aé€\U0001f600z'.encode(),
        b'0', b'-1', b'null', b'true', b'~0~1', b'\n\t\r', b'x' * 70]

def gen_u(r):
    c = r.random()
    if c < 0.5: return 'u%d' % r.choice(U_EDGE)
    if c < 0.7: return 'u%d' % r.getrandbits(r.choice([8, 16, 32, 53, 63, 64]))
    return 'u%d' % min(U64MAX, max(0, r.choice(U_EDGE) + r.randint(-3, 3)))
def gen_i(r):
    c = r.random()
    if c < 0.5: return 'i%d' % r.choice(I_EDGE)
    if c < 0.7: return 'i%d' % (-1 - r.getrandbits(r.choice([8, 16, 32, 53, 62, 63])))
    return 'i%d' % max(-2**63, min(-1, r.choice(I_EDGE) + r.randint(-3, 3)))
def gen_d(r):
    c = r.random()
    if c < 0.5: return 'd%016x' % r.choice(D_EDGE)
    while True:
        b = r.getrandbits(64)
        if (b >> 52) & 0x7ff != 0x7ff:                 # finite only: Number::from_f64 refuses NaN / infinities
            return 'd%016x' % b
def gen_str(r):
    c = r.random()
    if c < 0.6: return r.choice(STRS)
    n = r.randint(0, 12)
    return ''.join(r.choice(['a', 'b', 'Z', '0', ' ', '/', '~', 'é', 'Ж', '€', '\U0001f600', '\x01', '"']) for _ in range(n)).encode()
def gen_scalar(r):
    k = r.randrange(8)
    if k == 0: return 'n'
    if k == 1: return r.choice(['t', 'f'])
    if k == 2: return gen_u(r)
    if k == 3: return gen_i(r)
    if k == 4: return gen_d(r)
    if k == 5: return 's' + hx(gen_str(r))
    return r.choice([gen_u, gen_i, gen_d])(r)
def gen_value(r, depth):
    if depth <= 0 or r.random() < 0.35:
        return gen_scalar(r)
    if r.random() < 0.5:
        n = r.choice([0, 0, 1, 1, 2, 3, 5])
        return 'a(' + ','.join(gen_value(r, depth - 1) for _ in range(n)) + ')'
    n = r.choice([0, 0, 1, 1, 2, 3, 5])
    keys = sorted(set(gen_str(r) for _ in range(n)))           # byte order = String order; unique: the text is the Map's iteration order
    return 'o(' + ','.join(hx(k) + ':' + gen_value(r, depth - 1) for k in keys) + ')'

def cases(n, seed):
    r = random.Random(seed)
    out = ['n', 't', 'f', 'a()', 'o()', 's-', 'a(n)', 'o(-:n)', 'a(a(a(a())))', 'o(61:o(62:o(63:a(u1,i-1,d3ff0000000000000,s61,n,t,f))))']
    out += ['u%d' % x for x in U_EDGE] + ['i%d' % x for x in I_EDGE] + ['d%016x' % x for x in D_EDGE] + ['s' + hx(s) for s in STRS]
    out += ['a(%s)' % ','.join('u%d' % x for x in U_EDGE[:8]), 'o(%s)' % ','.join(hx(k) + ':n' for k in sorted(set(STRS)))]
    while len(out) < n:
        k = len(out) % 10
        out.append(gen_scalar(r) if k < 3 else gen_value(r, 1 + k % 4))
    return ['acc ' + v for v in out]

def main():
    ap = argparse.ArgumentParser()
    ap.add_argument('--n', type=int, default=3000)
    ap.add_argument('--seed', type=int, default=1)
    ap.add_argument('--keep', action='store_true', help='keep the case / answer files in ' + OC)
    a = ap.parse_args()
    build()
    cs = cases(a.n, a.seed)
    cf = OC + '/cases.txt'
    open(cf, 'w').write('\n'.join(cs) + '\n')
    m = sh('%s/sjdriver_vacc %s' % (OC, cf)).split('\n')[:-1]
    i = sh('%s/release/sjh_vacc %s' % (TGT, cf)).split('\n')[:-1]
    assert len(m) == len(cs) == len(i), (len(m), len(i), len(cs))
    bad = [(c, x, y) for c, x, y in zip(cs, m, i) if x != y or x in ('BADCASE', 'PANIC')]
    kinds = {}
    for c in cs:
        k = c[4]
        kinds[k] = kinds.get(k, 0) + 1
    print('cases %d  (top-level kind: %s)  fields compared per case: 20' % (len(cs), ' '.join('%s=%d' % kv for kv in sorted(kinds.items()))))
    for c, x, y in bad[:10]:
        print('DIFF %s\n  model: %s\n  crate: %s' % (c, x, y))
    print('mismatches %d' % len(bad))
    if not a.keep:
        for f in ('cases.txt',):
            os.remove(OC + '/' + f)
    return 1 if bad else 0

if __name__ == '__main__':
    sys.exit(main())
