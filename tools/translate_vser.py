#!/usr/bin/env python3
"""translate_vser.py — regenerates coq/theories/Gen/VserTables.v from /repo/src/value/ser.rs (+ the two TOKEN constants of number.rs /
raw.rs) on every run.

A statement-level translator for `to_value`, the serializer whose output is a `Value`:

    ser      the 31 methods of `impl serde::Serializer for Serializer`
    seq / tuple / tuple_struct / tuple_variant / map / struct / struct_variant
             the 15 methods of `impl serde::ser::Serialize{Seq,Tuple,TupleStruct} for SerializeVec`, `.. SerializeTupleVariant for
             SerializeTupleVariant`, `.. Serialize{Map,Struct} for SerializeMap`, `.. SerializeStructVariant for SerializeStructVariant`
    number_emitter / raw_emitter
             `impl serde::ser::Serializer for NumberValueEmitter / RawValueEmitter` (what `value.serialize(NumberValueEmitter)` reaches),
             classified method by method by exact body text
    (the value-side `MapKeySerializer` is translated by translate_keys.py: Gen/KeyTables.v KEY_VALUE)

Every body is parsed into the AST of Model/VserAst.v (`vstmt` / `vexp`); the subset:

    block ::= { item* }
    item  ::= let [mut] x = EXP;  |  let x = F.take();  |  x.push(EXP);  |  self.f.push(EXP);  |  x.insert(EXP, EXP);  |  F.insert(EXP, EXP);
            | self.f.insert(EXP, EXP);  |  *F = EXP;  |  TAIL                                    (TAIL only last)
    TAIL  ::= Ok(EXP) | Err(f()) | Err(Error::syntax(ErrorCode::C, 0, 0)) | unreachable!()
            | self.serialize_M(EXP, ..) | serde::ser::SerializeT::M(self [, key] [, value]) | value.serialize(self)
            | match self { [#[cfg(feature = "..")]] SerializeMap::V { f, .. } => ARM, .. }
            | match name { [#[cfg(..)]] crate::number::TOKEN | crate::raw::TOKEN | _ => ARM, .. }
            | if key == crate::number::TOKEN | crate::raw::TOKEN block else block
            | #[cfg(feature = "arbitrary_precision")] block #[cfg(not(feature = "arbitrary_precision"))] block
            | if let Ok(p) = u64 | i64 ::try_from(p) block else (block | if let ..)
    ARM   ::= block | TAIL
    EXP   ::= PRIM POSTFIX*
    PRIM  ::= p (parameter) | x (local) | F (field bound by the enclosing SerializeMap pattern) | self.f | () | None | Some(EXP)
            | Value::Bool(EXP) | Value::Null | Value::Number(EXP) | Value::String(EXP) | Value::Array(EXP) | Value::Object(EXP) | Value::from(EXP)
            | String::from(EXP) | String::new() | Map::new() | Map::with_capacity(EXP) | Vec::with_capacity(EXP)
            | tri!(to_value(p)) | tri!(p.serialize(MapKeySerializer)) | tri!(p.serialize(NumberValueEmitter | RawValueEmitter))
            | SerializeVec { vec: EXP, } | SerializeTupleVariant { name: EXP, vec: EXP, } | SerializeMap::Map { map: EXP, next_key: EXP, }
            | SerializeMap::Number { out_value: EXP } | SerializeMap::RawValue { out_value: EXP } | SerializeStructVariant { name: EXP, map: EXP, }
    POSTFIX ::= .into() (directly under Value::Number) | .to_owned() | .to_string() | .unwrap_or(0) | .expect("..") | as i64 | as u64
            | .iter().map(|&b| Value::Number(b.into())).collect()

A parameter is identified by its POSITION in the serde trait signature (checked: count and types), not by the name the source gives it; the
protocol fills the slots value / key / variant / name / len.  `_variant_index` has no slot.
A body outside the subset: `BROKEN vser:<impl>:<method>: <why>`, exit status 3; the previous file is NOT rewritten.
Pinned by exact (whitespace-squeezed) text, because the interpreter takes them as primitives or the dispatch depends on them:
the builder definitions (`struct SerializeVec`, `struct SerializeTupleVariant`, `enum SerializeMap`, `struct SerializeStructVariant`,
`struct Serializer;`, the emitter structs with their cfg), the associated types of the Serializer impl and `type Ok / Error` of every impl,
the error constructors, `to_value` (value/mod.rs), `From<f32>/From<f64> for Value` (value/from.rs), `Number::from_f32/from_f64` and the
`impl_from_unsigned! / impl_from_signed!` macros with their invocations (number.rs), `FromStr for Number` (de.rs), `Map::new / with_capacity /
insert` (map.rs), the `tri!` macro (lib.rs).

Usage: translate_vser.py [--repo /repo] [--out <file>]
"""
import re, sys, os, argparse
sys.path.insert(0, os.path.dirname(os.path.abspath(__file__)))
import translate_fmt as tf
import translate_ser as ts
Broken, squeeze, block_at, find_block, strip_comments, methods_of = tf.Broken, tf.squeeze, tf.block_at, tf.find_block, tf.strip_comments, tf.methods_of
norm, methods_sig = ts.norm, ts.methods_sig

SER_METHODS = ts.SER_METHODS
INTS = ts.INTS
ECODES = ts.ECODES
CFGS = ts.CFGS
TOKENS = ts.TOKENS
STR = "&'static str"
# role (= protocol slot) and type of every parameter, by position in the serde trait signature
SER_SIG = dict({t: [('value', t)] for t in INTS + ['bool', 'f32', 'f64', 'char']},
               str=[('value', '&str')], bytes=[('value', '&[u8]')], unit=[], unit_struct=[('name', STR)],
               unit_variant=[('name', STR), ('index', 'u32'), ('variant', STR)],
               newtype_struct=[('name', STR), ('value', '&T')],
               newtype_variant=[('name', STR), ('index', 'u32'), ('variant', STR), ('value', '&T')],
               none=[], some=[('value', '&T')], seq=[('len', 'Option<usize>')], tuple=[('len', 'usize')],
               tuple_struct=[('name', STR), ('len', 'usize')],
               tuple_variant=[('name', STR), ('index', 'u32'), ('variant', STR), ('len', 'usize')],
               map=[('len', 'Option<usize>')], struct=[('name', STR), ('len', 'usize')],
               struct_variant=[('name', STR), ('index', 'u32'), ('variant', STR), ('len', 'usize')],
               collect_str=[('value', '&T')])
SER_RET = dict({m: 'Value' for m in SER_METHODS},
               seq='Self::SerializeSeq', tuple='Self::SerializeTuple', tuple_struct='Self::SerializeTupleStruct',
               tuple_variant='Self::SerializeTupleVariant', map='Self::SerializeMap', struct='Self::SerializeStruct',
               struct_variant='Self::SerializeStructVariant')
V, KV = [('value', '&T')], [('key', STR), ('value', '&T')]
# impl tag -> (trait, Coq ctrait, [(rust method, Coq cfn, parameters)])
COMPOUND = [
    ('seq', 'SerializeSeq', 'TSeq', [('serialize_element', 'Celement', V), ('end', 'Cend', [])]),
    ('tuple', 'SerializeTuple', 'TTuple', [('serialize_element', 'Celement', V), ('end', 'Cend', [])]),
    ('tuple_struct', 'SerializeTupleStruct', 'TTupleStruct', [('serialize_field', 'Cfield', V), ('end', 'Cend', [])]),
    ('tuple_variant', 'SerializeTupleVariant', 'TTupleVariant', [('serialize_field', 'Cfield', V), ('end', 'Cend', [])]),
    ('map', 'SerializeMap', 'TMap', [('serialize_key', 'Ckey', [('key', '&T')]), ('serialize_value', 'Cvalue', V), ('end', 'Cend', [])]),
    ('struct', 'SerializeStruct', 'TStruct', [('serialize_field', 'Cfield', KV), ('end', 'Cend', [])]),
    ('struct_variant', 'SerializeStructVariant', 'TStructVariant', [('serialize_field', 'Cfield', KV), ('end', 'Cend', [])]),
]
TRAITS = {t[1]: t for t in COMPOUND}
PNAMES = {'value': 'PValue', 'key': 'PKey', 'variant': 'PVariant', 'name': 'PName', 'len': 'PLen'}
# the builders (pinned below by exact text)
STRUCT_FIELDS = {'SerializeVec': ['vec'], 'SerializeTupleVariant': ['name', 'vec'], 'SerializeStructVariant': ['name', 'map']}
VARIANT_FIELDS = {'Map': ['map', 'next_key'], 'Number': ['out_value'], 'RawValue': ['out_value']}
VARIANT_CFG = {'Map': None, 'Number': 'arbitrary_precision', 'RawValue': 'raw_value'}
FNAME = {'vec': 'Fvec', 'name': 'Fname', 'map': 'Fmap', 'next_key': 'Fnext_key', 'out_value': 'Fout_value'}
NONE_OF = {'next_key': 'ENoneString', 'out_value': 'ENoneValue'}
BTYPE = {'SerializeVec': 'TySerializeVec', 'SerializeTupleVariant': 'TySerializeTupleVariant', 'SerializeMap': 'TySerializeMap',
         'SerializeStructVariant': 'TySerializeStructVariant'}

PIN_FLAT = [   # (tag, text that must occur exactly once in the comment-free, squeezed value/ser.rs)
    ('struct Serializer', 'pub struct Serializer;'),
    ('struct SerializeVec', 'pub struct SerializeVec { vec: Vec<Value>, }'),
    ('struct SerializeTupleVariant', 'pub struct SerializeTupleVariant { name: String, vec: Vec<Value>, }'),
    ('enum SerializeMap', 'pub enum SerializeMap { Map { map: Map<String, Value>, next_key: Option<String>, }, '
                          '#[cfg(feature = "arbitrary_precision")] Number { out_value: Option<Value> }, '
                          '#[cfg(feature = "raw_value")] RawValue { out_value: Option<Value> }, }'),
    ('struct SerializeStructVariant', 'pub struct SerializeStructVariant { name: String, map: Map<String, Value>, }'),
    ('struct MapKeySerializer', 'struct MapKeySerializer;'),
    ('struct NumberValueEmitter', '#[cfg(feature = "arbitrary_precision")] struct NumberValueEmitter;'),
    ('struct RawValueEmitter', '#[cfg(feature = "raw_value")] struct RawValueEmitter;'),
    ('impl NumberValueEmitter', '#[cfg(feature = "arbitrary_precision")] impl serde::ser::Serializer for NumberValueEmitter {'),
    ('impl RawValueEmitter', '#[cfg(feature = "raw_value")] impl serde::ser::Serializer for RawValueEmitter {'),
]
UNIQUE_DEFS = [r'\bstruct Serializer\b', r'\bstruct SerializeVec\b', r'\bstruct SerializeTupleVariant\b', r'\benum SerializeMap\b',
               r'\bstruct SerializeStructVariant\b', r'\bstruct MapKeySerializer\b', r'\bstruct NumberValueEmitter\b', r'\bstruct RawValueEmitter\b']
ERRFNS = ['invalid_number', 'invalid_raw_value', 'key_must_be_a_string', 'float_key_must_be_finite']
CFG_BLOCKS = lambda a, b: ('{ if f.is_finite() { let n = { #[cfg(not(feature = "arbitrary_precision"))] { %s } '
                           '#[cfg(feature = "arbitrary_precision")] { %s } }; Some(Number { n }) } else { None } }' % (a, b))
RYU = 'ryu::Buffer::new().format_finite(f).to_owned()'
PIN_FROM_UNSIGNED = ('macro_rules! impl_from_unsigned { ( $($ty:ty),* ) => { $( impl From<$ty> for Number { fn from(u: $ty) -> Self { let n = { '
                     '#[cfg(not(feature = "arbitrary_precision"))] { N::PosInt(u as u64) } #[cfg(feature = "arbitrary_precision")] { '
                     'itoa::Buffer::new().format(u).to_owned() } }; Number { n } } } )* }; }')
PIN_FROM_SIGNED = ('macro_rules! impl_from_signed { ( $($ty:ty),* ) => { $( impl From<$ty> for Number { fn from(i: $ty) -> Self { let n = { '
                   '#[cfg(not(feature = "arbitrary_precision"))] { if i < 0 { N::NegInt(i as i64) } else { N::PosInt(i as u64) } } '
                   '#[cfg(feature = "arbitrary_precision")] { itoa::Buffer::new().format(i).to_owned() } }; Number { n } } } )* }; }')
PIN_FROM_CALLS = ('impl_from_unsigned!(u8, u16, u32, u64, usize); impl_from_signed!(i8, i16, i32, i64, isize); '
                  '#[cfg(feature = "arbitrary_precision")] impl_from_unsigned!(u128); #[cfg(feature = "arbitrary_precision")] impl_from_signed!(i128);')
PIN_MAP_WITH_CAPACITY = ('{ Map { #[cfg(not(feature = "preserve_order"))] map: { let _ = capacity; BTreeMap::new() }, '
                         '#[cfg(feature = "preserve_order")] map: IndexMap::with_capacity(capacity), } }')
BYTES_AS_NUMBERS = '.iter().map(|&b| Value::Number(b.into())).collect()'

def par(s):
    return '(%s)' % s if ' ' in s else s
def lst(ss):
    return '[' + '; '.join(ss) + ']'

class VP(tf.P):
    """recursive descent over a normalised body; statements are Coq `vstmt` strings, expressions Coq `vexp` strings"""
    def __init__(self, s, ctx, impl_type, params, sigs, errs):
        tf.P.__init__(self, s)
        self.ctx, self.impl_type, self.sigs, self.errs = ctx, impl_type, sigs, errs
        self.params = dict(params)            # source name -> (role, type)
        self.locals, self.nlocals = {}, 0     # let-bound name -> id
        self.bound, self.variant = set(), None

    def peek(self, lit):
        self.ws()
        return self.s.startswith(lit, self.i)
    def here(self):
        return self.s[self.i:self.i + 60]

    # ---- names ----
    def slot(self, x):
        role = self.params[x][0]
        if role not in PNAMES:
            raise Broken('parameter `%s` (%s) has no slot in the protocol' % (x, role))
        return PNAMES[role]
    def param(self, x):
        if x in self.locals or x in self.bound or x not in self.params:
            raise Broken('`%s` is not a parameter of the method' % x)
        return self.slot(x)
    def ident(self, x):
        if x in self.locals: return 'ELocal %d' % self.locals[x]
        if x in self.bound: return 'EField %s' % FNAME[x]
        if x in self.params: return 'EParam %s' % self.slot(x)
        raise Broken('unknown name `%s`' % x)
    def self_field(self, f):
        if self.ctx != 'comp' or self.impl_type not in STRUCT_FIELDS or f not in STRUCT_FIELDS[self.impl_type]:
            raise Broken('`self.%s`: %s has no such field' % (f, self.impl_type if self.ctx == 'comp' else 'Serializer'))
        return FNAME[f]
    def field_place(self, x):
        """the name of a field bound by the enclosing SerializeMap pattern"""
        if x in self.locals or x not in self.bound:
            raise Broken('`%s` is not a field bound by an enclosing SerializeMap pattern' % x)
        return FNAME[x]

    # ---- expressions ----
    def exp(self, under_number=False, none_as=None):
        e = self.prim(none_as)
        while True:
            if self.eat('.into()'):
                if not under_number: raise Broken('`.into()` outside `Value::Number(..)`')
                e = 'EInto %s' % par(e); continue
            if self.eat(BYTES_AS_NUMBERS):
                e = 'EBytesAsNumbers %s' % par(e); continue
            if self.eat('.to_owned()'):
                e = 'EToOwned %s' % par(e); continue
            if self.eat('.to_string()'):
                e = 'EToString %s' % par(e); continue
            if self.eat('.unwrap_or(0)'):
                e = 'EUnwrapOr0 %s' % par(e); continue
            if self.rx(r'\.expect\("(?:[^"\\]|\\.)*"\)'):
                e = 'EExpect %s' % par(e); continue
            m = self.rx(r'as (\w+)\b')
            if m:
                if m.group(1) not in INTS: raise Broken('cast to `%s`' % m.group(1))
                e = 'ECast %s %s' % (m.group(1).upper(), par(e)); continue
            if self.peek('.') and not self.peek('..'):
                raise Broken('method call outside the subset: `%s`' % self.here())
            return e

    def fields(self, names):
        """name: EXP, .. [,] }"""
        out = []
        for n in names:
            if out: self.need(',')
            self.need(n + ':')
            out.append(par(self.exp(none_as=NONE_OF.get(n))))
        self.eat(',')
        self.need('}')
        return out

    def prim(self, none_as):
        if self.eat('tri!('):
            if self.eat('to_value('):
                m = self.rx(r'(\w+)\)\)')
                if not m: raise Broken('argument of to_value: `%s`' % self.here())
                return 'EToValue (EParam %s)' % self.param(m.group(1))
            m = self.rx(r'(\w+)\.serialize\((\w+)\)\)')
            if not m: raise Broken('tri!(..) around `%s`' % self.here())
            x = self.param(m.group(1))
            if m.group(2) == 'MapKeySerializer':
                return 'EKeySer (EParam %s)' % x
            for em, variant, con in (('NumberValueEmitter', 'Number', 'EEmitNumber'), ('RawValueEmitter', 'RawValue', 'EEmitRaw')):
                if m.group(2) == em:
                    if self.variant != variant: raise Broken('`%s` outside a `SerializeMap::%s { .. }` arm' % (em, variant))
                    return '%s (EParam %s)' % (con, x)
            raise Broken('serializer handed to the child: `%s`' % m.group(2))
        for lit, con in (('Value::Bool(', 'EValueBool'), ('Value::String(', 'EValueString'), ('Value::Array(', 'EValueArray'),
                         ('Value::Object(', 'EValueObject'), ('Value::from(', 'EValueFromFloat'), ('String::from(', 'EStringFrom'),
                         ('Map::with_capacity(', 'EMapWithCapacity'), ('Vec::with_capacity(', 'EVecWithCapacity'), ('Some(', 'ESome')):
            if self.eat(lit):
                e = self.exp(); self.need(')')
                return '%s %s' % (con, par(e))
        if self.eat('Value::Number('):
            e = self.exp(under_number=True); self.need(')')
            return 'EValueNumber %s' % par(e)
        if self.eat('Value::Null'): return 'EValueNull'
        if self.eat('String::new()'): return 'EStringNew'
        if self.eat('Map::new()'): return 'EMapNew'
        if self.eat('()'): return 'EUnit'
        if self.rx(r'None\b'):
            if none_as is None: raise Broken('`None` outside a `next_key:` / `out_value:` field initialiser')
            return none_as
        if self.eat('SerializeVec {'):
            return 'EBuildVec %s' % ' '.join(self.fields(STRUCT_FIELDS['SerializeVec']))
        if self.eat('SerializeTupleVariant {'):
            return 'EBuildTupleVariant %s' % ' '.join(self.fields(STRUCT_FIELDS['SerializeTupleVariant']))
        if self.eat('SerializeStructVariant {'):
            return 'EBuildStructVariant %s' % ' '.join(self.fields(STRUCT_FIELDS['SerializeStructVariant']))
        m = self.rx(r'SerializeMap::(\w+) \{')
        if m:
            if m.group(1) not in VARIANT_FIELDS: raise Broken('SerializeMap::%s' % m.group(1))
            return 'EBuild%s %s' % (m.group(1), ' '.join(self.fields(VARIANT_FIELDS[m.group(1)])))
        m = self.rx(r'self\.(\w+)\b(?!\()')
        if m:
            return 'EField %s' % self.self_field(m.group(1))
        m = self.rx(r'([a-z_]\w*)\b(?![(!:{])')
        if m and m.group(1) not in ('self', 'match', 'if', 'let', 'as', 'else', 'return'):
            return self.ident(m.group(1))
        raise Broken('expression outside the subset: `%s`' % self.here())

    # ---- tail expressions: (list of statements, True) ----
    def args_to(self, roles, what):
        """EXP, .. )  bound to the callee's slots"""
        args = []
        while not self.eat(')'):
            if args: self.need(',')
            args.append(self.exp())
        if len(args) != len(roles):
            raise Broken('%s takes %d arguments, %d given' % (what, len(roles), len(args)))
        binds = []
        for (role, _), a in zip(roles, args):
            if role not in PNAMES: raise Broken('argument `%s` of %s has no slot in the protocol' % (role, what))
            binds.append('(%s, %s)' % (PNAMES[role], a))
        return lst(binds)

    def tail(self):
        if self.eat('Ok('):
            e = self.exp(); self.need(')')
            return ['SOk %s' % par(e)]
        m = self.rx(r'Err\((\w+)\(\)\)')
        if m:
            if m.group(1) not in self.errs: raise Broken('unknown error constructor %s' % m.group(1))
            return ['SErr %s' % self.errs[m.group(1)]]
        m = self.rx(r'Err\(Error::syntax\(ErrorCode::(\w+), 0, 0\)\)')
        if m:
            if m.group(1) not in ECODES: raise Broken('ErrorCode::%s' % m.group(1))
            return ['SErr %s' % m.group(1)]
        if self.eat('unreachable!()'):
            return ['SUnreachable']
        m = self.rx(r'self\.(serialize_\w+|collect_str)\(')
        if m:
            if self.ctx != 'ser': raise Broken('`self.%s(..)` in a builder method' % m.group(1))
            callee = m.group(1)
            short = callee[len('serialize_'):] if callee != 'collect_str' else callee
            if short not in SER_SIG: raise Broken('call of unknown method %s' % callee)
            return ['SCallM (MSer m_%s) %s' % (short, self.args_to(SER_SIG[short], callee))]
        m = self.rx(r'serde::ser::(Serialize\w+)::(\w+)\(self\b')
        if m:
            if self.ctx != 'comp': raise Broken('`serde::ser::%s::%s(self, ..)` in a Serializer method' % (m.group(1), m.group(2)))
            if m.group(1) not in TRAITS: raise Broken('unknown trait %s' % m.group(1))
            tag, trait, ctrait, fns = TRAITS[m.group(1)]
            if self.sigs['impl_type'][tag] != self.impl_type:
                raise Broken('%s is implemented for %s, `self` is a %s' % (trait, self.sigs['impl_type'][tag], self.impl_type))
            table = {f: (cfn, roles) for f, cfn, roles in fns}
            if (tag, m.group(2)) == ('map', 'serialize_entry'):      # serde's provided method (VserAst.vdefault_entry)
                table['serialize_entry'] = ('Centry', [('key', '&K'), ('value', '&V')])
            if m.group(2) not in table: raise Broken('%s has no method %s in the table' % (trait, m.group(2)))
            cfn, roles = table[m.group(2)]
            if roles and not self.eat(','): raise Broken('arguments of %s::%s' % (trait, m.group(2)))
            if not roles: self.need(')')
            return ['SCallM (MComp %s %s) %s' % (ctrait, cfn, self.args_to(roles, m.group(2)) if roles else '[]')]
        m = self.rx(r'(\w+)\.serialize\(self\)')
        if m:
            if self.ctx != 'ser': raise Broken('`%s.serialize(self)` in a builder method' % m.group(1))
            return ['SChildSelf %s' % self.param(m.group(1))]
        if self.eat('match self {') or self.eat('match *self {'):
            return self.match_self()
        if self.eat('match name {'):
            if self.param('name') != 'PName': raise Broken('`name` is not the name parameter')
            arms = self.arms(self.tok_pat)
            if arms[-1][0] != 'TokAny': raise Broken('match name without a final `_` arm')
            return ['SMatchName [%s]' % '; '.join('(%s, %s, %s)' % (CFGS[c], p, lst(b)) for p, c, b in arms)]
        m = self.rx(r'if key == (crate::\w+::TOKEN) (?=\{)')
        if m:
            if self.param('key') != 'PKey': raise Broken('`key` is not the key parameter')
            if m.group(1) not in TOKENS: raise Broken('unknown token %s' % m.group(1))
            a = self.block(); self.need('else'); b = self.block()
            return ['SIfKeyIs %s %s %s' % (TOKENS[m.group(1)][0], lst(a), lst(b))]
        if self.eat('#[cfg(feature = "arbitrary_precision")]'):
            a = self.block()
            self.need('#[cfg(not(feature = "arbitrary_precision"))]')
            b = self.block()
            return ['SCfgAP %s %s' % (lst(a), lst(b))]
        if self.peek('if let'):
            return self.if_try_from()
        return None

    def if_try_from(self):
        m = self.rx(r'if let Ok\((\w+)\) = (\w+)::try_from\((\w+)\) (?=\{)')
        if not m: raise Broken('`if let` outside the subset: `%s`' % self.here())
        if m.group(1) != m.group(3): raise Broken('`if let Ok(%s) = ..try_from(%s)` does not rebind the same name' % (m.group(1), m.group(3)))
        if m.group(2) not in INTS: raise Broken('%s::try_from' % m.group(2))
        p = self.param(m.group(1))
        old = self.params[m.group(1)]
        if old[1] not in INTS: raise Broken('try_from on a `%s`' % old[1])
        self.params[m.group(1)] = (old[0], m.group(2))
        a = self.block()
        self.params[m.group(1)] = old
        self.need('else')
        b = self.if_try_from() if self.peek('if let') else self.block()
        return ['SIfTryFrom %s %s %s %s' % (m.group(2).upper(), p, lst(a), lst(b))]

    def tok_pat(self):
        m = self.rx(r'crate::\w+::TOKEN|_')
        if not m: raise Broken('pattern of match name: `%s`' % self.here())
        if m.group(0) == '_': return 'TokAny', None
        if m.group(0) not in TOKENS: raise Broken('unknown token %s' % m.group(0))
        return TOKENS[m.group(0)]

    def arm_body(self):
        if self.peek('{'):
            r = self.block()
            self.eat(',')
        else:
            r = self.tail()
            if r is None: raise Broken('match arm outside the subset: `%s`' % self.here())
            if not self.eat(',') and not self.peek('}'):
                raise Broken('`,` expected after a match arm at `%s`' % self.here())
        if not r or not is_value(r[-1]):
            raise Broken('a match arm without a value')
        return r

    def arms(self, pat):
        out = []
        while not self.eat('}'):
            m = self.rx(r'#\[cfg\(feature = "(\w+)"\)\]')
            got = m.group(1) if m else None
            if got is not None and got not in CFGS: raise Broken('attribute `%s` on a match arm' % m.group(0))
            p, want = pat()
            if got != want:
                raise Broken('arm `%s` is gated by %s, expected %s' % (p if not isinstance(p, tuple) else p[0], got, want))
            self.need('=>')
            saved = (set(self.bound), self.variant, dict(self.locals))
            if isinstance(p, tuple):                 # a SerializeMap pattern: (cpat, variant, bound names)
                self.bound, self.variant = set(p[2]), p[1]
                for n in p[2]: self.locals.pop(n, None)
                p = p[0]
            body = self.arm_body()
            self.bound, self.variant, self.locals = saved
            out.append((p, got, body))
        if not out: raise Broken('match without arms')
        return out

    def match_self(self):
        if self.ctx != 'comp' or self.impl_type != 'SerializeMap': raise Broken('match self outside an impl for SerializeMap')
        def pat():
            m = self.rx(r'SerializeMap::(\w+) \{ ([^{}]*?) ?\}')
            if not m or m.group(1) not in VARIANT_FIELDS: raise Broken('SerializeMap pattern `%s`' % self.here())
            items = [squeeze(x) for x in m.group(2).split(',') if squeeze(x)]
            rest = bool(items) and items[-1] == '..'
            names = items[:-1] if rest else items
            for n in names:
                if n not in VARIANT_FIELDS[m.group(1)]: raise Broken('SerializeMap::%s has no field `%s`' % (m.group(1), n))
            if len(set(names)) != len(names): raise Broken('field bound twice')
            if not rest and sorted(names) != sorted(VARIANT_FIELDS[m.group(1)]): raise Broken('pattern `%s` misses fields' % m.group(0))
            return ('CP' + m.group(1), m.group(1), names), VARIANT_CFG[m.group(1)]
        arms = self.arms(pat)
        if [a[0] for a in arms] != ['CPMap', 'CPNumber', 'CPRawValue']:
            raise Broken('match self: arms are %s, expected Map, Number, RawValue' % [a[0] for a in arms])
        return ['SMatchSelf [%s]' % '; '.join('(%s, %s, %s)' % (CFGS[c], p, lst(b)) for p, c, b in arms)]

    # ---- blocks ----
    def new_local(self, x):
        self.locals[x] = self.nlocals
        self.nlocals += 1
        return self.locals[x]

    def block(self):
        self.need('{')
        saved = dict(self.locals)
        out, done = [], False
        while not self.eat('}'):
            if done:
                raise Broken('a value is not in tail position: `%s` follows' % self.here())
            if self.peek('return'):
                raise Broken('`return` is outside the subset: `%s`' % self.here())
            m = self.rx(r'let (?:mut )?(\w+) = ')
            if m:
                t = self.rx(r'(\w+)\.take\(\);')
                if t:
                    f = self.field_place(t.group(1))
                    out.append('SLetTake %d %s' % (self.new_local(m.group(1)), f)); continue
                e = self.exp(); self.need(';')
                out.append('SLet %d %s' % (self.new_local(m.group(1)), par(e))); continue
            m = self.rx(r'\*(\w+) = ')
            if m:
                f = self.field_place(m.group(1))
                e = self.exp(); self.need(';')
                out.append('SSetField %s %s' % (f, par(e))); continue
            m = self.rx(r'(self\.)?(\w+)\.(push|insert)\(')
            if m:
                if m.group(1):
                    tgt, con = self.self_field(m.group(2)), 'Field'
                elif m.group(2) in self.locals:
                    tgt, con = str(self.locals[m.group(2)]), 'Local'
                else:
                    tgt, con = self.field_place(m.group(2)), 'Field'
                if m.group(3) == 'push':
                    e = self.exp(); self.need(')'); self.need(';')
                    out.append('SPush%s %s %s' % (con, tgt, par(e)))
                else:
                    k = self.exp(); self.need(','); v = self.exp(); self.need(')'); self.need(';')
                    out.append('SInsert%s %s %s %s' % (con, tgt, par(k), par(v)))
                continue
            t = self.tail()
            if t is None:
                raise Broken('statement outside the subset: `%s`' % self.here())
            if self.eat(';'):
                raise Broken('the value of a tail expression is dropped by `;`')
            out += t
            done = True
        self.locals = saved
        return out

def is_value(stmt):
    return stmt.split(' ')[0] in ('SOk', 'SErr', 'SUnreachable', 'SCallM', 'SChildSelf', 'SMatchSelf', 'SMatchName', 'SIfKeyIs', 'SCfgAP', 'SIfTryFrom')

def parse_method(body, ctx, impl_type, params, sigs, errs):
    p = VP(body, ctx, impl_type, params, sigs, errs)
    ss = p.block()
    p.ws()
    if p.i != len(p.s): raise Broken('trailing text after the body')
    if not ss or not is_value(ss[-1]): raise Broken('the body has no value in tail position')
    return ss

def classify_emitter(which, m, entry):
    if entry is None:
        if m == 'collect_str': return 'VEToStringThenStr'       # serde's default collect_str
        if m in ('i128', 'u128'): return 'VERejectCustom'       # serde's default serialize_i128 / serialize_u128
        raise Broken('method missing (serde has no default for it)')
    body = entry[2]
    if m == 'collect_str' and body == '{ self.serialize_str(&value.to_string()) }': return 'VEToStringThenStr'
    if which == 'number':
        if m == 'str' and body == '{ let n = tri!(value.to_owned().parse()); Ok(Value::Number(n)) }': return 'VEParseNumber'
        if body == '{ Err(invalid_number()) }': return 'VEReject %s'
    else:
        if m == 'str' and body == '{ crate::from_str(value) }': return 'VEFromStr'
        if body == '{ Err(invalid_raw_value()) }': return 'VEReject %s'
    raise Broken('body of an unknown shape: `%s`' % body[:120])

def read(repo, *rel):
    src = open(os.path.join(repo, 'src', *rel), encoding='utf-8').read()
    return '\n'.join('' if l.lstrip().startswith('//') else l for l in src.split('\n'))

def fn_body(src, header_re):
    ms = list(re.finditer(header_re, src, re.M))
    if len(ms) != 1: raise Broken('expected exactly one `%s`, found %d' % (header_re, len(ms)))
    return squeeze(strip_comments(block_at(src, src.index('{', ms[0].end() - 1))[0]))

def check_sig(tag, n, entry, want_params, want_ret):
    params, after, _ = entry
    if [t for _, t in params] != [t for _, t in want_params]:
        raise Broken('parameter types are %s, the serde signature has %s' % ([t for _, t in params], [t for _, t in want_params]))
    m = re.match(r'-> Result<([^>]*(?:<[^>]*>)?)>', after)
    if not m or m.group(1) not in (want_ret, 'Self::Ok' if want_ret == 'Value' else want_ret):
        raise Broken('return type `%s`, expected Result<%s>' % (after[:60], want_ret))
    return [(name, (role, t)) for (name, t), (role, _) in zip(params, want_params)]

def translate(repo):
    broken, out = [], {}
    try:
        src = read(repo, 'value', 'ser.rs')
        ser_block = find_block(src, r"\bimpl serde::Serializer for Serializer\s*\{")
        impls = {'ser': methods_sig(ser_block)}
        blocks = {'ser': ser_block}
        impl_type = {}
        for tag, trait, _, _ in COMPOUND:
            ms = re.findall(r'\bimpl serde::ser::%s for (\w+)\s*\{' % trait, src)
            if len(ms) != 1: raise Broken('expected exactly one `impl serde::ser::%s for ..`, found %d' % (trait, len(ms)))
            if ms[0] not in BTYPE: raise Broken('serde::ser::%s is implemented for the unknown type %s' % (trait, ms[0]))
            impl_type[tag] = ms[0]
            blocks[tag] = find_block(src, r'\bimpl serde::ser::%s for %s\s*\{' % (trait, ms[0]))
            impls[tag] = methods_sig(blocks[tag])
        number = methods_sig(find_block(src, r'\bimpl serde::ser::Serializer for NumberValueEmitter\s*\{'))
        raw = methods_sig(find_block(src, r'\bimpl serde::ser::Serializer for RawValueEmitter\s*\{'))
    except (Broken, ValueError, IndexError, OSError) as e:
        return None, [('vser:blocks', str(e))]
    # ---- error constructors ----
    errs = {}
    for f in ERRFNS:
        try:
            body = fn_body(src, r'^fn %s\(\) -> Error\s*\{' % f)
            em = re.fullmatch(r'\{ Error::syntax\(ErrorCode::(\w+), 0, 0\) \}', body)
            if not em or em.group(1) not in ECODES: raise Broken('body is `%s`' % body)
            errs[f] = em.group(1)
        except (Broken, ValueError, IndexError) as e:
            broken.append(('vser:pinned:' + f, str(e)))
    # ---- method sets and signatures ----
    want = {'ser': [(('serialize_' + m if m != 'collect_str' else m), SER_SIG[m], SER_RET[m]) for m in SER_METHODS]}
    for tag, _, _, fns in COMPOUND:
        want[tag] = [(f, roles, '()' if f != 'end' else 'Value') for f, _, roles in fns]
    params_of = {}
    for tag, rows in want.items():
        for n, roles, ret in rows:
            try:
                if n not in impls[tag]:
                    raise Broken('method missing (a provided method of serde would apply)')
                params_of[(tag, n)] = check_sig(tag, n, impls[tag][n], roles, ret)
            except Broken as e:
                broken.append(('vser:%s:%s' % (tag, n), str(e)))
        extra = sorted(set(impls[tag]) - set(n for n, _, _ in rows))
        if extra:
            broken.append(('vser:%s:extra' % tag, 'methods outside the table (a provided method of serde is overridden, or a new helper): ' + ', '.join(extra)))
    if broken:
        return None, broken
    # ---- bodies ----
    sigs = {'impl_type': impl_type}
    for tag, rows in want.items():
        for n, _, _ in rows:
            try:
                out[(tag, n)] = parse_method(impls[tag][n][2], 'ser' if tag == 'ser' else 'comp', impl_type.get(tag), params_of[(tag, n)], sigs, errs)
            except (Broken, ValueError, IndexError, KeyError) as e:
                broken.append(('vser:%s:%s' % (tag, n), str(e)))
    out['impl_type'] = impl_type
    # ---- emitters ----
    for which, ms, errfn in (('number', number, 'invalid_number'), ('raw', raw, 'invalid_raw_value')):
        for m in SER_METHODS:
            name = m if m == 'collect_str' else 'serialize_' + m
            try:
                c = classify_emitter(which, m, ms.get(name))
                out[(which + '_emitter', m)] = c % errs[errfn] if '%s' in c else c
            except (Broken, KeyError) as e:
                broken.append(('vser:%s_emitter:%s' % (which, m), str(e)))
        extra = sorted(set(ms) - set((m if m == 'collect_str' else 'serialize_' + m) for m in SER_METHODS))
        if extra:
            broken.append(('vser:%s_emitter:extra' % which, 'methods outside the table: ' + ', '.join(extra)))
    # ---- pinned text ----
    flat = squeeze(strip_comments(src))
    def pin(tag, cond, why):
        if not cond: broken.append(('vser:pinned:' + tag, why))
    for tag, text in PIN_FLAT:
        pin(tag, flat.count(text) == 1, 'expected exactly one `%s`' % text)
    for rx in UNIQUE_DEFS:
        pin(rx, len(re.findall(rx, flat)) == 1, 'expected exactly one definition matching `%s`' % rx)
    sq = squeeze(ser_block)
    for t in ['type Ok = Value;', 'type Error = Error;'] + ['type %s = %s;' % (tr, impl_type[tag]) for tag, tr, _, _ in COMPOUND]:
        pin('Serializer:' + t.split(' ')[1], sq.count(t) == 1 and len(re.findall(r'\btype %s\b' % t.split(' ')[1], sq)) == 1,
            'expected `%s` in the Serializer impl (the type the trait is implemented for)' % t)
    for tag, tr, _, _ in COMPOUND:
        b = squeeze(blocks[tag])
        pin('%s:types' % tr, b.count('type Ok = Value;') == 1 and b.count('type Error = Error;') == 1 and len(re.findall(r'\btype \w+', b)) == 2,
            'expected `type Ok = Value; type Error = Error;` in the impl of %s' % tr)
    def pin_body(tag, getter, want_body):
        try:
            got = getter()
        except (Broken, ValueError, IndexError, OSError) as e:
            broken.append(('vser:pinned:' + tag, str(e))); return
        pin(tag, got == want_body, 'body is `%s`, the interpreter assumes `%s`' % (got, want_body))
    try:
        vmod, vfrom, num, de, mp, lib = (read(repo, 'value', 'mod.rs'), read(repo, 'value', 'from.rs'), read(repo, 'number.rs'),
                                         read(repo, 'de.rs'), read(repo, 'map.rs'), read(repo, 'lib.rs'))
        pin_body('to_value', lambda: fn_body(vmod, r'^pub fn to_value<T>\(value: T\) -> Result<Value, Error>\s*where\s*T: Serialize,\s*\{'),
                 '{ value.serialize(Serializer) }')
        for t in ('f32', 'f64'):
            pin_body('From<%s> for Value' % t, (lambda t=t: methods_of(find_block(vfrom, r'\bimpl From<%s> for Value\s*\{' % t)).get('from')),
                     '{ Number::from_%s(f).map_or(Value::Null, Value::Number) }' % t)
        pin_body('Number::from_f64', lambda: fn_body(num, r'^\s*pub fn from_f64\(f: f64\) -> Option<Number>\s*\{'), CFG_BLOCKS('N::Float(f)', RYU))
        pin_body('Number::from_f32', lambda: fn_body(num, r'^\s*pub\(crate\) fn from_f32\(f: f32\) -> Option<Number>\s*\{'), CFG_BLOCKS('N::Float(f as f64)', RYU))
        nflat = squeeze(strip_comments(num))
        for tag, text in (('impl_from_unsigned!', PIN_FROM_UNSIGNED), ('impl_from_signed!', PIN_FROM_SIGNED), ('From<int> for Number', PIN_FROM_CALLS)):
            pin(tag, nflat.count(text) == 1, 'expected exactly one `%s` in number.rs' % text)
        pin('From<int> for Number:only', len(re.findall(r'\bimpl_from_(?:un)?signed!\(', nflat)) == 4 and
            not re.search(r'\bimpl From<[iu](?:\d+|size)> for Number\b', nflat), 'another From<integer> for Number')
        pin_body('FromStr for Number', lambda: methods_of(find_block(de, r'\bimpl FromStr for Number\s*\{')).get('from_str'),
                 '{ Deserializer::from_str(s) .parse_any_signed_number() .map(Into::into) }')
        mapimpl = methods_of(find_block(mp, r'\bimpl Map<String, Value>\s*\{'))
        pin_body('Map::new', lambda: mapimpl.get('new'), '{ Map { map: MapImpl::new(), } }')
        pin_body('Map::with_capacity', lambda: mapimpl.get('with_capacity'), PIN_MAP_WITH_CAPACITY)
        pin_body('Map::insert', lambda: mapimpl.get('insert'), '{ self.map.insert(k, v) }')
        m = re.search(r'^macro_rules! tri\s*\{', lib, re.M)
        got = squeeze('macro_rules! tri ' + block_at(lib, m.end() - 1)[0]) if m else None
        pin('tri!', got == ts.TRI, 'macro is `%s`, the interpreter assumes `%s`' % (got, ts.TRI))
    except (Broken, ValueError, IndexError, OSError) as e:
        broken.append(('vser:pinned', str(e)))
    # ---- tokens ----
    try:
        out['number_token'] = ts.str_const(os.path.join(repo, 'src', 'number.rs'), r'\bpub\(crate\) const TOKEN: &str')
        out['raw_token'] = ts.str_const(os.path.join(repo, 'src', 'raw.rs'), r'\bpub const TOKEN: &str')
    except (Broken, OSError) as e:
        broken.append(('vser:tokens', str(e)))
    return out, broken

def emit(out):
    L = ['(* Gen/VserTables.v — GENERATED by tools/translate_vser.py from /repo/src/value/ser.rs (tokens: number.rs, raw.rs) on every run. Do not edit.',
         '   `to_value`, statement by statement (AST: Model/VserAst.v): the 31 methods of `impl serde::Serializer for Serializer`, the 15 methods of',
         '   the seven `impl serde::ser::Serialize.. for SerializeVec / SerializeTupleVariant / SerializeMap / SerializeStructVariant`, the type each',
         '   trait is implemented for, and the classification of the methods of NumberValueEmitter / RawValueEmitter. *)',
         'From Coq Require Import List NArith.', 'From SJ Require Import Base.Bytes Model.Sval Model.Ser Model.KeyAst Model.SerAst Model.VserAst.',
         'Import ListNotations.', 'Open Scope N_scope.', '']
    L.append('Definition VSER_METHODS : list (smeth * list vstmt) := [')
    rows = []
    for m in SER_METHODS:
        n = m if m == 'collect_str' else 'serialize_' + m
        rows.append('  (* Serializer::%s *)\n  (MSer m_%s,\n    %s)' % (n, m, lst(out[('ser', n)])))
    for tag, trait, ctrait, fns in COMPOUND:
        for f, cfn, _ in fns:
            rows.append('  (* <%s as %s>::%s *)\n  (MComp %s %s,\n    %s)' % (out['impl_type'][tag], trait, f, ctrait, cfn, lst(out[(tag, f)])))
    L.append(';\n'.join(rows))
    L.append('].')
    L.append('')
    L.append('(* impl serde::ser::Serialize.. for <type>  (= the associated types of the Serializer impl) *)')
    L.append('Definition VSER_IMPL_TYPES : list (ctrait * btype) :=\n  [%s].' % '; '.join('(%s, %s)' % (ctrait, BTYPE[out['impl_type'][tag]]) for tag, _, ctrait, _ in COMPOUND))
    L.append('')
    for which, nm in (('number', 'VSER_NUMBER_EMITTER'), ('raw', 'VSER_RAW_EMITTER')):
        L.append('Definition %s : list (kmethod * veclass) :=\n  [%s].' % (nm, ';\n   '.join('(m_%s, %s)' % (m, out[(which + '_emitter', m)]) for m in SER_METHODS)))
        L.append('')
    L.append('(* number::TOKEN = "%s" *)' % ''.join(map(chr, out['number_token'])))
    L.append('Definition VSER_NUMBER_TOKEN : bytes := %s.' % tf.nl(out['number_token']))
    L.append('(* raw::TOKEN = "%s" *)' % ''.join(map(chr, out['raw_token'])))
    L.append('Definition VSER_RAW_TOKEN : bytes := %s.' % tf.nl(out['raw_token']))
    L.append('')
    L.append('Definition VSER_SOURCE : vser_source :=\n  mkVSrc VSER_METHODS VSER_IMPL_TYPES VSER_NUMBER_TOKEN VSER_RAW_TOKEN VSER_NUMBER_EMITTER VSER_RAW_EMITTER.')
    L.append('')
    return '\n'.join(L)

def main():
    ap = argparse.ArgumentParser()
    ap.add_argument('--repo', default='/repo')
    ap.add_argument('--out', default=os.path.join(os.path.dirname(os.path.abspath(__file__)), '..', 'coq', 'theories', 'Gen', 'VserTables.v'))
    a = ap.parse_args()
    out, broken = translate(a.repo)
    for name, why in broken:
        print('BROKEN %s: %s' % (name, why))
    if broken:
        return 3
    text = emit(out)
    old = open(a.out).read() if os.path.exists(a.out) else None
    if old != text:
        with open(a.out, 'w') as f:
            f.write(text)
        print('UPDATED ' + os.path.relpath(a.out))
    return 0

if __name__ == '__main__':
    sys.exit(main())
