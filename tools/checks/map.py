"""C17 — objects behave as dictionaries; equality and hashing ignore order.

Implementation side: harness binary sjh_map (a real serde_json::Map<String, Value>, Value ==, a recording Hasher, sort_all_objects).
Model side: sjdriver_map (extracted Model/MapM.v, the model the C17 theorems are about).
Case kinds (protocol: coq/theories/Extract/Driver_map.v):
  x  depth-first enumeration of ALL histories over an alphabet below a prefix; the two sides return a checksum over every
     node's "<returned value> <forward iteration>" line; on a mismatch the subtree is re-run history by history (h lines).
  h  one history, one observation per operation + final forward/backward iteration.
  eq ==, and the exact Hasher call sequences of both values.
  sa sort_all_objects.
Everything after ' ! ' on an implementation line is a direct check evaluated by the harness on the implementation's own results."""
import itertools, random, collections, os
from concurrent.futures import ThreadPoolExecutor
import engine, gen
from checks import register, Ctx, log

IMPL, MODEL = 'sjh_map', 'sjdriver_map'
_seq = itertools.count()

# ------------------------------------------------------------------ running both sides (own sharding: x lines are heavy)
def both(ctx, cfg, lines, nchunks=1):
    if not lines:
        return [], []
    nchunks = max(1, min(nchunks, len(lines)))
    size = (len(lines) + nchunks - 1) // nchunks
    parts = [lines[i:i + size] for i in range(0, len(lines), size)]
    model_ok = os.path.exists(os.path.join(engine.VERIF, 'ocaml', MODEL))
    def one(part):
        tag = '%s-%d' % (ctx.pid, next(_seq))
        with ThreadPoolExecutor(max_workers=2) as ex:
            fi = ex.submit(engine.run_impl, cfg, part, tag + 'i', IMPL)
            fm = ex.submit(engine.run_model, part, tag + 'm', MODEL) if model_ok else None
            return fi.result(), (fm.result() if fm else ['NOMODEL'] * len(part))
    with ThreadPoolExecutor(max_workers=len(parts)) as ex:
        res = list(ex.map(one, parts))
    io, mo = [], []
    for a, b in res:
        io += a
        mo += b
    if not ctx.quiet:
        ctx.evaluations += len(lines)
    return io, mo

def split_extra(line):
    """implementation line -> (comparable part, {direct-check fields})"""
    if ' ! ' in line:
        a, b = line.split(' ! ', 1)
        return a, dict(x.split('=', 1) for x in b.split(' ') if '=' in x)
    return line, {}

def enc(line):
    return line.encode().hex()

def letters(cfg):
    return 'p' if 'preserve_order' in engine.CONFIGS[cfg][0] else '-'

# ------------------------------------------------------------------ alphabets
K3 = ['61', '6162', '62']            # "a" < "ab" < "b"
K4 = ['-', '61', '6162', '62']       # plus the empty string
K2 = ['6162', '61']

PO_ONLY = ('sins/', 'swr/', 'swre/', 'shr/', 'shre/')
def po_only(tok):
    return tok.startswith(PO_ONLY) or (tok.startswith('em/') and tok.rsplit('/', 1)[1] in ('SW', 'SH', 'SWE', 'SHE'))

def alphabet(keys, po):
    """(mutators, observers): every public method of Map / every way through the entry API, for every key of the universe"""
    mut, obs = [], []
    n = len(keys)
    for k in keys:
        mut += ['ins/%s/#' % k, 'rm/%s' % k, 'rme/%s' % k, 'swr/%s' % k, 'swre/%s' % k, 'shr/%s' % k, 'shre/%s' % k]
        mut += ['sins/%d/%s/#' % (i, k) for i in range(n + 1)]
        mut += ['gm/%s/W' % k, 'eoi/%s/#' % k, 'eow/%s/#' % k, 'eam/%s/W' % k, 'eamoi/%s/W/#' % k, 'ixm/%s/#' % k]
        mut += ['em/%s/I#/%s' % (k, o) for o in ['MW', 'I#', 'R', 'SW', 'SH', 'RE', 'SWE', 'SHE']] + ['em/%s/K/TN' % k]
        obs += ['get/%s' % k, 'has/%s' % k, 'gkv/%s' % k, 'ek/%s' % k, 'ix/%s' % k, 'em/%s/K/G' % k]
    a, b = keys[0], keys[-1]
    mid = keys[1] if n > 2 else keys[0]
    mut += ['clr', 'sort', 'ret/L%s' % b, 'ret/I%s+%s' % (a, b), 'ret/U', 'ext/o(%s:#,%s:n)' % (b, a),
            'app/o(%s:#,%s:#)' % (mid, a), 'app/o(%s:#,%s:n,%s:#)' % (b, a, b), 'fri/o(%s:#,%s:#,%s:n)' % (b, a, b),
            'itm/K', 'itm/W', 'vm/N']
    obs += ['len', 'emp', 'it', 'itr', 'ks', 'ksr', 'vs', 'vsr', 'ii', 'iv']
    if not po:
        mut = [t for t in mut if not po_only(t)]
    return mut, obs

# ------------------------------------------------------------------ x: exhaustive enumeration
LINES_MAX = 20000

def inner_alphabet(keys, po):
    """one representative per class of operations whose STATE transformer in the model (Model/MapM.v, step_do) is literally the
    same function: e.g. remove / remove_entry / OccupiedEntry::remove(_entry) are all `m_remove po k`; or_insert / or_insert_with;
    get_mut / and_modify / OccupiedEntry::get_mut; insert / OccupiedEntry::insert + VacantEntry::insert.  Used for the NON-final
    positions of the reduced enumeration; the final position always draws from the full set, so every operation is still
    executed in every state reachable by a shorter history (a first divergence between implementation and model is found
    at the final position of some enumerated history)."""
    mut = []
    n = len(keys)
    for k in keys:
        mut += ['ins/%s/#' % k, 'rm/%s' % k, 'shr/%s' % k]
        mut += ['sins/%d/%s/#' % (i, k) for i in range(n + 1)]
        mut += ['gm/%s/W' % k, 'eoi/%s/#' % k, 'eamoi/%s/W/#' % k, 'ixm/%s/#' % k]
    full, _ = alphabet(keys, True)
    mut += [t for t in full if '/' not in t or t.split('/')[0] in ('ret', 'ext', 'app', 'fri', 'itm', 'vm')]
    if not po:
        mut = [t for t in mut if not po_only(t)]
    assert all(t in full for t in mut)
    return mut

def x_lines(cfg, keys, depth, reduced=False):
    """all histories of 1..depth operations: for every length d, every prefix of p operations (p as large as keeps the number of
    lines below LINES_MAX), the remaining d-p operations expanded depth-first inside the harness / the model.
    Non-final positions draw from `inner` (= all mutators, or their representatives when reduced), the final one from everything."""
    L = letters(cfg)
    mut, obs = alphabet(keys, L == 'p')
    inner = inner_alphabet(keys, L == 'p') if reduced else mut
    last = [t for t in mut if t not in inner] + obs
    tail = ' | %s | %s' % (' '.join(inner), ' '.join(last))
    lines = []
    for d in range(1, depth + 1):
        plen = 0
        while plen + 1 <= d - 1 and len(inner) ** (plen + 1) <= LINES_MAX:
            plen += 1
        for pre in itertools.product(inner, repeat=plen):
            lines.append('x %s %d %s%s' % (L, d - plen, ' '.join(pre), tail))
    return lines, inner, last

def expand_x(line):
    """the h lines of every history an x line stands for"""
    f = line.split(' ')
    L, depth = f[1], int(f[2])
    rest = f[3:]
    i = rest.index('|')
    pre, rest = rest[:i], rest[i + 1:]
    j = rest.index('|')
    mut, obs = rest[:j], rest[j + 1:]
    out = []
    for d in range(1, depth + 1):
        for body in itertools.product(mut, repeat=d - 1):
            for lastop in (mut + obs if d == depth else mut):
                out.append('h %s %s' % (L, ' '.join(list(pre) + list(body) + [lastop])))
    return out

def judge_lines(ctx, cfg, inputs, aux=None):
    """inputs: case lines as bytes; returns violations (used by run, replay and shrinking)"""
    lines = [d.decode() for d in inputs]
    io, mo = both(ctx, cfg, lines, nchunks=16 if len(lines) > 64 else 1)
    v = []
    for line, a_full, m in zip(lines, io, mo):
        a, extra = split_extra(a_full)
        kind = line.split(' ', 1)[0]
        base = {'cfg': cfg, 'input': enc(line), 'case': line[:2000], 'shrinkable': False}
        if a == 'PANIC' or a.startswith('CRASH') or a == 'BADCASE':
            v.append(dict(base, what='harness-' + a.split(' ')[0].lower(), expected=m, actual=a_full))
            continue
        if kind in ('h', 'x'):
            if extra.get('bad', '0') != '0':
                v.append(dict(base, what='map-state-invariant', actual=a_full,
                              expected='after every operation: iteration count = len(), no duplicate key, every key found by get(), backward iteration mirrors forward, '
                                       'keys strictly ascending in the default configuration'))
            if a != m:
                if kind == 'x':
                    v += drill(ctx, cfg, line, a, m)
                else:
                    v.append(dict(base, what='map-history-disagrees', expected='model (proved to refine the reference dictionary): ' + m[:3000], actual=a[:3000],
                                  first_difference=first_diff(a, m)))
            elif kind == 'h':
                v += direct_history(cfg, line, a, base)
        elif kind == 'eq':
            fa = a.split(' ')
            if not ctx.quiet:
                ctx.count('%s:eq-%s' % (cfg, 'equal' if fa[0] == 't' else 'different'))
            if a != m:
                what = 'value-eq-disagrees' if a[:1] != m[:1] else 'hash-feed-disagrees'
                v.append(dict(base, what=what, expected='model: ' + m[:3000], actual=a[:3000]))
            if len(fa) == 3 and fa[0] == 't' and (fa[1] != fa[2] or extra.get('dh') != '1'):
                v.append(dict(base, what='equal-values-hash-differently', expected='a == b implies the same Hasher calls and the same DefaultHasher result', actual=a_full[:3000]))
            if extra.get('sym') != '1' or extra.get('refl') != '1':
                v.append(dict(base, what='eq-not-symmetric-or-reflexive', expected='sym=1 refl=1', actual=a_full[:3000]))
        elif kind == 'sa':
            if a != m:
                v.append(dict(base, what='sort-all-objects-disagrees', expected='model: ' + m[:3000], actual=a[:3000]))
            if extra.get('same') != '1':
                v.append(dict(base, what='sort-all-objects-changes-equality', expected='value == value before sorting', actual=a_full[:3000]))
            if not all_sorted(a):
                v.append(dict(base, what='sort-all-objects-not-ascending', expected='every object at every depth iterates in ascending key order', actual=a[:3000]))
    return v

def first_diff(a, m):
    fa, fm = a.split(' '), m.split(' ')
    for i, (x, y) in enumerate(zip(fa, fm)):
        if x != y:
            return {'operation_index': i, 'impl': x[:500], 'model': y[:500]}
    return {'operation_index': min(len(fa), len(fm)), 'impl': 'length %d' % len(fa), 'model': 'length %d' % len(fm)}

def drill(ctx, cfg, xline, a, m):
    """a checksum differs: find the shortest history below this prefix on which the two sides differ"""
    hl = expand_x(xline)
    hl.sort(key=lambda l: l.count(' '))
    quiet, ctx.quiet = ctx.quiet, True
    try:
        for i in range(0, len(hl), 200000):
            vs = [x for x in judge_lines(ctx, cfg, [l.encode() for l in hl[i:i + 200000]]) if x['what'] in ('map-history-disagrees', 'map-state-invariant') or x['what'].startswith('harness-')]
            if vs:
                return [shrink_history(ctx, cfg, vs[0])]
    finally:
        ctx.quiet = quiet
    return [{'what': 'map-enumeration-checksum-disagrees', 'cfg': cfg, 'input': enc(xline), 'case': xline[:300], 'shrinkable': False,
             'expected': 'model: ' + m, 'actual': a}]

def shrink_history(ctx, cfg, v):
    """drop operations (replacing '#' by the original position first) while the same class of violation remains"""
    line = bytes.fromhex(v['input']).decode()
    f = line.split(' ')
    ops = [t.replace('#', 'u%d' % i) for i, t in enumerate(f[2:])]
    quiet, ctx.quiet = ctx.quiet, True
    try:
        changed = True
        while changed and len(ops) > 1:
            changed = False
            cands = [ops[:i] + ops[i + 1:] for i in range(len(ops))]
            vs = judge_lines(ctx, cfg, [(' '.join(f[:2] + c)).encode() for c in cands])
            bad = {x['case'] for x in vs if x['what'] == v['what']}
            for c in cands:
                l = ' '.join(f[:2] + c)
                if l[:2000] in bad:
                    ops = c
                    changed = True
                    break
        vs = [x for x in judge_lines(ctx, cfg, [(' '.join(f[:2] + ops)).encode()]) if x['what'] == v['what']]
        if vs:
            vs[0]['shrunk_from'] = v['case']
            return vs[0]
    finally:
        ctx.quiet = quiet
    return v

# ---- tiny reader of the canonical value syntax (for the direct checks)
def parse_value(s, i=0):
    c = s[i]
    if c in 'ntf':
        return (c,), i + 1
    if c in 'uid':
        j = i + 1
        while j < len(s) and s[j] not in ',):':
            j += 1
        return ('num', s[i:j]), j
    if c == 's':
        j = i + 1
        while j < len(s) and s[j] not in ',):':
            j += 1
        return ('s', s[i + 1:j]), j
    if c == 'a':
        items, i = [], i + 2
        if s[i] == ')':
            return ('a', items), i + 1
        while True:
            v, i = parse_value(s, i)
            items.append(v)
            if s[i] == ')':
                return ('a', items), i + 1
            i += 1
    if c == 'o':
        items, i = [], i + 2
        if s[i] == ')':
            return ('o', items), i + 1
        while True:
            j = s.index(':', i)
            k = s[i:j]
            v, i = parse_value(s, j + 1)
            items.append((k, v))
            if s[i] == ')':
                return ('o', items), i + 1
            i += 1
    raise ValueError('bad value syntax at %d: %r' % (i, s[i:i + 20]))

def key_bytes(h):
    return b'' if h == '-' else bytes.fromhex(h)

def sorted_everywhere(v):
    if v[0] == 'a':
        return all(sorted_everywhere(x) for x in v[1])
    if v[0] == 'o':
        ks = [key_bytes(k) for k, _ in v[1]]
        return all(ks[i] < ks[i + 1] for i in range(len(ks) - 1)) and all(sorted_everywhere(x) for _, x in v[1])
    return True

def all_sorted(s):
    try:
        v, i = parse_value(s)
        return i == len(s) and sorted_everywhere(v)
    except Exception:
        return False

def direct_history(cfg, line, a, base):
    """checks on the implementation's own final iteration: backward = reverse of forward; ascending without preserve_order"""
    v = []
    f = a.split(' ')
    try:
        fw, _ = parse_value(f[-2][2:])
        bw, _ = parse_value(f[-1][2:])
        if list(reversed(bw[1])) != fw[1]:
            v.append(dict(base, what='backward-iteration-not-mirror', expected='iter().rev() is the reverse of iter()', actual=' '.join(f[-2:])[:2000]))
        ks = [key_bytes(k) for k, _ in fw[1]]
        if letters(cfg) != 'p' and not all(ks[i] < ks[i + 1] for i in range(len(ks) - 1)):
            v.append(dict(base, what='default-iteration-not-ascending', expected='strictly ascending keys', actual=f[-2][:2000]))
        if len(set(ks)) != len(ks):
            v.append(dict(base, what='duplicate-key', expected='no key twice', actual=f[-2][:2000]))
    except Exception as e:
        v.append(dict(base, what='unreadable-answer', expected='F=o(..) B=o(..)', actual=a[:500] + ' (%r)' % e))
    return v

# ------------------------------------------------------------------ random long histories with nested values
RKEYS = ['-', '61', '6162', '62', '6100', 'c3a9', '7a', '41', 'e282ac', '6161', '2f', '7e30', 'f09f9880', '7f', '20',
         'efbd9e', 'ee8080', 'efbfbd', 'f0908080', 'ed9fbf', '78f0908080', '78ee8080']     # astral vs high-BMP keys: UTF-8 byte order (= str order) differs from UTF-16 order there

def rand_value(rng, depth):
    r = rng.random()
    if depth <= 0 or r < 0.45:
        k = rng.randrange(9)
        if k == 0:
            return 'n'
        if k == 1:
            return rng.choice('tf')
        if k == 2:
            return 'u%d' % rng.choice([0, 1, 2, 7, 2**53, 2**63, 2**64 - 1, rng.randrange(1000)])
        if k == 3:
            return 'i-%d' % rng.choice([1, 2, 2**63, rng.randrange(1, 1000)])
        if k == 4:
            return 'd' + rng.choice(['0000000000000000', '8000000000000000', '3ff0000000000000', 'bff0000000000000', '0000000000000001',
                                     '8000000000000001', '7fefffffffffffff', '4000000000000000', '3ff8000000000000', '%016x' % (rng.getrandbits(63) % 0x7ff0000000000000)])
        if k == 5:
            return 's' + rng.choice(RKEYS)
        return '#'
    if r < 0.7:
        return 'a(%s)' % ','.join(rand_value(rng, depth - 1) for _ in range(rng.choice([0, 1, 2, 3])))
    return rand_entries(rng, depth - 1, rng.choice([0, 1, 2, 3, 4]))

def rand_entries(rng, depth, n, keys=RKEYS):
    return 'o(%s)' % ','.join('%s:%s' % (rng.choice(keys), rand_value(rng, depth)) for _ in range(n))

def rand_vfun(rng):
    return rng.choice(['W', 'N', 'S' + rand_value(rng, 1)])

def rand_op(rng, keys, po):
    k = rng.choice(keys)
    kinds = ['ins'] * 6 + ['rm', 'rme', 'gm', 'eoi', 'eow', 'eam', 'eamoi', 'em', 'em', 'ixm', 'ix', 'get', 'has', 'gkv', 'ek', 'clr', 'sort', 'ret', 'ext', 'app', 'fri',
                           'itm', 'vm', 'len', 'emp', 'it', 'itr', 'ks', 'ksr', 'vs', 'vsr', 'ii', 'iv']
    if po:
        kinds += ['sins', 'sins', 'swr', 'swre', 'shr', 'shre', 'rm', 'em']
    kind = rng.choice(kinds)
    if kind in ('rm', 'rme', 'swr', 'swre', 'shr', 'shre', 'get', 'has', 'gkv', 'ek', 'ix'):
        return '%s/%s' % (kind, k)
    if kind in ('ins', 'eoi', 'eow', 'ixm'):
        return '%s/%s/%s' % (kind, k, rand_value(rng, 2))
    if kind == 'sins':
        return 'sins/%d/%s/%s' % (rng.randrange(0, len(keys) + 2), k, rand_value(rng, 1))
    if kind in ('gm', 'eam'):
        return '%s/%s/%s' % (kind, k, rand_vfun(rng))
    if kind == 'eamoi':
        return 'eamoi/%s/%s/%s' % (k, rand_vfun(rng), rand_value(rng, 1))
    if kind == 'em':
        oas = ['G', 'M' + rand_vfun(rng), 'T' + rand_vfun(rng), 'I' + rand_value(rng, 1), 'R', 'RE'] + (['SW', 'SH', 'SWE', 'SHE'] if po else [])
        return 'em/%s/%s/%s' % (k, rng.choice(['K', 'I' + rand_value(rng, 1)]), rng.choice(oas))
    if kind == 'ret':
        return 'ret/' + rng.choice(['A', 'Z', 'U', 'L' + k, 'G' + k, 'I' + '+'.join(rng.sample(keys, min(len(keys), rng.choice([1, 2, 3]))))])
    if kind in ('ext', 'app', 'fri'):
        return '%s/%s' % (kind, rand_entries(rng, 1, rng.choice([0, 1, 2, 3, 5]), keys))
    if kind == 'itm':
        return 'itm/' + rng.choice(['K', 'W', 'N', 'S' + rand_value(rng, 1)])
    if kind == 'vm':
        return 'vm/' + rand_vfun(rng)
    return kind

def rand_history(rng, cfg):
    po = letters(cfg) == 'p'
    keys = rng.sample(RKEYS, rng.choice([3, 4, 6, 8, 12]))
    n = rng.choice([8, 15, 30, 60])
    return 'h %s %s' % (letters(cfg), ' '.join(rand_op(rng, keys, po) for _ in range(n)))

# ------------------------------------------------------------------ equality / hashing / sort_all_objects cases
def shuffle_deep(rng, v):
    """the same value written with every object's entries in another order"""
    if v[0] == 'a':
        return ('a', [shuffle_deep(rng, x) for x in v[1]])
    if v[0] == 'o':
        items = [(k, shuffle_deep(rng, x)) for k, x in v[1]]
        rng.shuffle(items)
        return ('o', items)
    return v

def unparse(v):
    if v[0] in 'ntf':
        return v[0]
    if v[0] == 'num':
        return v[1]
    if v[0] == 's':
        return 's' + v[1]
    if v[0] == 'a':
        return 'a(%s)' % ','.join(unparse(x) for x in v[1])
    return 'o(%s)' % ','.join('%s:%s' % (k, unparse(x)) for k, x in v[1])

def dedup(v):
    """make keys distinct (keep the last binding at the first position is configuration dependent, so simply drop repeats)"""
    if v[0] == 'a':
        return ('a', [dedup(x) for x in v[1]])
    if v[0] == 'o':
        seen, items = set(), []
        for k, x in v[1]:
            if k not in seen:
                seen.add(k)
                items.append((k, dedup(x)))
        return ('o', items)
    return v

ZERO_P, ZERO_N = 'd0000000000000000', 'd8000000000000000'
NEAR = {'u1': ['d3ff0000000000000', 'i-1', 'u2', 's31', 't'], 'u0': [ZERO_P, ZERO_N, 'n', 'f'], 'd3ff0000000000000': ['u1', 'd3ff0000000000001', 'dbff0000000000000'],
        ZERO_P: [ZERO_N, 'u0', 'd0000000000000001'], ZERO_N: [ZERO_P, 'u0', 'd8000000000000001'], 'n': ['f', 'u0', 's-', 'a()', 'o()'], 'a()': ['o()', 'n'], 'o()': ['a()', 'n']}

def mutate_leaf(rng, v):
    """one small change somewhere: sign of a zero, int <-> float, a renamed / dropped / added key, a changed leaf"""
    if v[0] == 'a' and v[1] and rng.random() < 0.8:
        i = rng.randrange(len(v[1]))
        return ('a', v[1][:i] + [mutate_leaf(rng, v[1][i])] + v[1][i + 1:])
    if v[0] == 'o' and v[1] and rng.random() < 0.8:
        i = rng.randrange(len(v[1]))
        k, x = v[1][i]
        r = rng.random()
        if r < 0.15:
            return ('o', v[1][:i] + v[1][i + 1:])
        if r < 0.3:
            nk = rng.choice(RKEYS)
            return ('o', v[1][:i] + [(nk, x)] + v[1][i + 1:]) if nk not in [a for a, _ in v[1]] else v
        return ('o', v[1][:i] + [(k, mutate_leaf(rng, x))] + v[1][i + 1:])
    if v[0] == 'a':
        return ('a', v[1] + [('n',)])
    if v[0] == 'o':
        return ('o', v[1] + [(rng.choice(RKEYS), ('n',))]) if not v[1] else ('o', v[1][:-1])
    txt = unparse(v)
    if txt in NEAR:
        t = rng.choice(NEAR[txt])
        return parse_value(t)[0]
    if v[0] == 'num' and txt[0] == 'd':
        return ('num', ZERO_N if txt == ZERO_P else ZERO_P if txt == ZERO_N else 'd%016x' % (int(txt[1:], 16) ^ 1))
    return ('num', 'u1') if txt != 'u1' else ('num', 'd3ff0000000000000')

def zero_flip(v):
    if v[0] == 'a':
        return ('a', [zero_flip(x) for x in v[1]])
    if v[0] == 'o':
        return ('o', [(k, zero_flip(x)) for k, x in v[1]])
    if v[0] == 'num' and v[1] == ZERO_P:
        return ('num', ZERO_N)
    if v[0] == 'num' and v[1] == ZERO_N:
        return ('num', ZERO_P)
    return v

def eq_cases(rng, cfg, n):
    L = letters(cfg)
    out = []
    fixed = [('o(61:u1,62:u2)', 'o(62:u2,61:u1)'), ('o(61:%s)' % ZERO_P, 'o(61:%s)' % ZERO_N), (ZERO_P, ZERO_N), ('u0', ZERO_P), ('u1', 'd3ff0000000000000'),
             ('i-1', 'dbff0000000000000'), ('a(o(61:n,62:o(7a:t,41:f)))', 'a(o(62:o(41:f,7a:t),61:n))'), ('o()', 'a()'), ('o(61:n)', 'o(61:n,62:n)'),
             ('o(61:u1,61:u2)', 'o(61:u2)'), ('o(61:u1,62:u2,61:u3)', 'o(62:u2,61:u3)'), ('s-', 'o()'), ('u18446744073709551615', 'd43f0000000000000'),
             ('o(-:n,61:n)', 'o(61:n,-:n)'), ('a(%s,%s)' % (ZERO_P, ZERO_N), 'a(%s,%s)' % (ZERO_N, ZERO_P))]
    for a, b in fixed:
        out.append('eq %s %s %s' % (L, a, b))
        out.append('eq %s %s %s' % (L, b, a))
    for _ in range(n):
        a = dedup(parse_value(rand_value(rng, rng.choice([1, 2, 3, 4])).replace('#', 'u7'))[0])
        kind = rng.randrange(6)
        if kind == 0:
            b = shuffle_deep(rng, a)
        elif kind == 1:
            b = zero_flip(shuffle_deep(rng, a))
        elif kind == 2:
            b = mutate_leaf(rng, shuffle_deep(rng, a))
        elif kind == 3:
            b = mutate_leaf(rng, a)
        elif kind == 4:
            b = dedup(parse_value(rand_value(rng, 2).replace('#', 'u7'))[0])
        else:
            b = a
        out.append('eq %s %s %s' % (L, unparse(a), unparse(b)))
    return out

def sa_cases(rng, cfg, n):
    L = letters(cfg)
    out = ['sa %s o(62:o(7a:n,61:n),61:a(o(63:n,62:t)))' % L, 'sa %s n' % L, 'sa %s a(o(62:n,61:n,62:t))' % L]
    for _ in range(n):
        out.append('sa %s %s' % (L, rand_value(rng, rng.choice([2, 3, 4, 5])).replace('#', 'u7')))
    return out

# ------------------------------------------------------------------ the check
def tally_x(ctx, lines, io):
    nodes = 0
    for a in io:
        f = a.split(' ')
        if f and f[0] == 'D':
            nodes += int(f[1])
    ctx.evaluations += nodes
    ctx.distinct_nontrivial += nodes
    ctx.count('enumerated-history-nodes', nodes)
    return nodes

def run_x(ctx, cfg, keys, depth, label, reduced=False):
    lines, mut, obs = x_lines(cfg, keys, depth, reduced)
    ctx.count('%s:%s:alphabet-inner-positions' % (label, cfg), len(mut))
    ctx.count('%s:%s:alphabet-final-position' % (label, cfg), len(mut) + len(obs))
    ctx.count('%s:%s:x-lines' % (label, cfg), len(lines))
    io, mo = both(ctx, cfg, lines, nchunks=16)
    nodes = tally_x(ctx, lines, io)
    ctx.sample({'op': 'x', 'cfg': cfg, 'keys': keys, 'depth': depth, 'inner_alphabet': len(mut), 'final_alphabet': len(mut) + len(obs), 'reduced': reduced, 'nodes': nodes, 'example': lines[-1][:160]})
    bad = [l for l, a, m in zip(lines, io, mo) if split_extra(a)[0] != m or split_extra(a)[1].get('bad', '0') != '0']
    for l in bad[:3]:
        ctx.violations += judge_lines(ctx, cfg, [l.encode()])
    return nodes

def run_c17(ctx):
    rng = ctx.rng
    quick = ctx.tier == 'quick'
    ctx.rule = ('(1) ALL operation histories up to length 4 (thorough: 5) over the 3-key universe {"a","ab","b"} (thorough: also 4 keys incl. the empty string) '
                'and the full operation set of serde_json::Map (every public method and every path through the entry API, per key; removal flavours, '
                'shift_insert at every index incl. out of bounds, append/extend/collect with duplicate keys, retain, sort_keys, iter_mut ..., and the pure observers), '
                'enumerated depth-first in the harness and in the extracted model and compared by a position-sensitive checksum of every node\'s returned value and '
                'forward iteration; in the reduced enumerations the non-final positions draw one representative per class of operations with literally the same state '
                'transformer in the model (remove/remove_entry/OccupiedEntry::remove.., or_insert/or_insert_with, ...) while the final position draws from the full set; '
                'the unreduced enumeration (full set at every position) is run for 3 keys up to length 3 (thorough: 4); '
                '(2) random histories of 8-60 operations over 3-12 keys (empty, multi-byte, prefix-related) with nested values, compared operation by operation, '
                'plus final forward and backward iteration; (3) pairs of values: deep permutations, +0.0/-0.0, int-vs-float and other one-leaf near-misses, compared on ==, '
                'on the exact Hasher call sequence and on DefaultHasher; (4) sort_all_objects on random nested values. '
                'Direct checks on the implementation alone: state invariants after every operation (ascending keys by default, no duplicate, len = count, backward = reverse), '
                'equal values hash equally, sort_all_objects sorts every depth and preserves ==. non-trivial = every enumerated node / every compared line')
    for cfg in ctx.cfgs:
        if quick:
            run_x(ctx, cfg, K3, 3, '3keys-len3-full')
            run_x(ctx, cfg, K3, 4, '3keys-len4-reduced', reduced=True)
        else:
            run_x(ctx, cfg, K3, 4, '3keys-len4-full')
            run_x(ctx, cfg, K3, 5, '3keys-len5-reduced', reduced=True)
            run_x(ctx, cfg, K4, 4, '4keys-len4-reduced', reduced=True)
    for cfg in ctx.cfgs:
        L = letters(cfg)
        # methods that do not exist without preserve_order: one line each, both sides must say NA
        mut, obs = alphabet(K3, True)
        na = ['h %s ins/61/u1 %s' % (L, t) for t in mut if po_only(t)]
        hist = na + [rand_history(rng, cfg) for _ in range(20000 if quick else 250000)]
        for t in hist[len(na):len(na) + 4000]:
            for o in t.split(' ')[2:]:
                ctx.count('random-op:' + o.split('/')[0])
        eqs = eq_cases(rng, cfg, 20000 if quick else 200000)
        sas = sa_cases(rng, cfg, 5000 if quick else 50000)
        for group in (hist, eqs, sas):
            vs = judge_lines(ctx, cfg, [l.encode() for l in group])
            ctx.violations += [shrink_history(ctx, cfg, x) if x['what'] in ('map-history-disagrees', 'map-state-invariant') and x['case'].startswith('h ') else x for x in vs[:3]] + vs[3:]
            ctx.distinct_nontrivial += len(group)
            ctx.count('%s:%s-lines' % (cfg, group[0].split(' ')[0] if group else '-'), len(group))
            for l in group[:2]:
                ctx.sample({'cfg': cfg, 'case': l[:300]})

def extended_c17(ctx):
    """a tie broke (theorem / model build): widen the search"""
    ctx.tier = 'thorough'
    run_c17(ctx)

MAP_TB = ['modelled, not verified: alloc::collections::BTreeMap and indexmap::IndexMap (insert, remove, swap_remove, shift_remove, shift_insert, extend, append, retain, '
          'sort_unstable_keys, entry API, iteration, ==) as association lists in iteration order — tied to the real crates by the exhaustive/random history comparison',
          'modelled, not verified: the call sequence of the std-derived Hash (enum discriminant through write_isize, length prefixes through write_usize, str as write + 0xff) '
          'and of BTreeMap / slice / tuple Hash — tied by comparing the recorded Hasher calls exactly',
          'f64 == modelled by Flocq Beqb on finite floats; Number is assumed finite (Number::from_f64 rejects NaN/inf)',
          'closures passed to retain / and_modify / or_insert_with / iter_mut are drawn from a small family (by key set, key bound, value kind; replace, wrap, null, key-as-string)',
          'extraction driver Extract/Driver_map.v (case decoding, printing, checksum) and ocaml/driver_map.ml; harness binary harness/src/bin/sjh_map.rs']

register('C17', cfgs={'quick': ['def', 'po'], 'thorough': ['def', 'po']}, run=run_c17, judge=judge_lines, extended=extended_c17, trusted_base=MAP_TB)
