"""Typed text deserialization (area `typed`): C06 (integers) and the typed clauses of C10 / C09 / C14 / C04.

Implementation side: harness binary sjh_typed (the universal DeserializeSeed of DESIGN.md A.7 on the real crate);
model side: sjdriver_typed (Model/DeTyped.v extracted).  Encodings of <ty> and <dval>: Extract/Driver_typed.v.
Registered here: C06.  Exported for the coordinator: run_c10_typed, run_c09_typed, run_c14_typed, run_c04_typed
(each takes the ctx of the property it is wired into and appends to ctx.violations / ctx.disagreements)."""
import itertools, struct, collections, os, re
import engine, gen
from gen import hx
from checks import register, log

IMPL, MODEL = 'sjh_typed', 'sjdriver_typed'

# ------------------------------------------------------------------ small helpers
def pos_of(data, idx):
    idx = min(idx, len(data))
    pre = data[:idx]
    nl = pre.count(b'\n')
    last = pre.rfind(b'\n')
    return 1 + nl, idx - (last + 1)

def idx_of(data, line, col):
    if line < 1:
        return None
    start = 0
    for _ in range(line - 1):
        j = data.find(b'\n', start)
        if j < 0:
            return None
        start = j + 1
    return start + col

def is_ok(o):
    return o.startswith('ok')

def err_fields(o):
    f = o.split(' ')
    if f[0] != 'err':
        return None
    if f[1] == 'Io':
        return {'code': 'Io', 'cat': 'io', 'kind': f[3]}
    return {'code': f[1], 'cat': f[2], 'line': int(f[3]), 'col': int(f[4]), 'cls': f[5] if len(f) > 5 else '-'}

def chunks(it, n):
    buf = []
    for x in it:
        buf.append(x)
        if len(buf) >= n:
            yield buf
            buf = []
    if buf:
        yield buf

def unz(o):
    """forget which strings were borrowed (tag z -> s); z occurs nowhere else in an answer line"""
    return o.replace('z', 's') if o.startswith('ok') else o

def f64bits(x):
    return struct.unpack('<Q', struct.pack('<d', x))[0]

def f32_as_f64bits(x):
    return f64bits(struct.unpack('<f', struct.pack('<f', x))[0])

# ------------------------------------------------------------------ the universe (python side)
INTS = collections.OrderedDict([
    ('i0', (-2**7, 2**7 - 1)), ('i1', (-2**15, 2**15 - 1)), ('i2', (-2**31, 2**31 - 1)), ('i3', (-2**63, 2**63 - 1)),
    ('i4', (-2**127, 2**127 - 1)), ('n0', (0, 2**8 - 1)), ('n1', (0, 2**16 - 1)), ('n2', (0, 2**32 - 1)), ('n3', (0, 2**64 - 1)),
    ('n4', (0, 2**128 - 1))])
INT_NAMES = {'i0': 'i8', 'i1': 'i16', 'i2': 'i32', 'i3': 'i64', 'i4': 'i128', 'n0': 'u8', 'n1': 'u16', 'n2': 'u32', 'n3': 'u64', 'n4': 'u128'}

def hexname(n):
    return hx(n.encode('utf-8'))

def enc_fields(fs):
    return ','.join(hexname(n) + ':' + enc_ty(t) for n, t in fs)

def enc_kty(k):
    c = k[0]
    if c == 'int':
        return k[1]
    if c in 'ow':
        return c + enc_kty(k[1])
    if c == 'e':
        return 'e(' + ','.join(hexname(n) for n in k[1]) + ')'
    return c

def enc_variant(v):
    c = v[0]
    if c == 'u':
        return 'u'
    if c == 'w':
        return 'w' + enc_ty(v[1])
    if c == 't':
        return 't(' + ','.join(enc_ty(x) for x in v[1]) + ')'
    return 'S(' + enc_fields(v[1]) + ')'

def enc_ty(t):
    c = t[0]
    if c == 'int':
        return t[1]
    if c in 'owa':
        return c + enc_ty(t[1])
    if c in 'tT':
        return c + '(' + ','.join(enc_ty(x) for x in t[1]) + ')'
    if c == 'm':
        return 'm' + enc_kty(t[1]) + enc_ty(t[2])
    if c == 'S':
        return 'S(' + enc_fields(t[1]) + ')'
    if c == 'E':
        return 'E(' + ','.join(hexname(n) + ':' + enc_variant(v) for n, v in t[1]) + ')'
    return c

def enc_dval(d):
    c = d[0]
    if c == 'v':
        return 'v' + d[1]
    if c == 'g':
        return 'g'
    if c == 'r':
        return 'r' + hx(d[1])
    if c == 'B':
        return 'T' if d[1] else 'F'
    if c == 'i':
        return 'i%d' % d[1]
    if c == 'd':
        return 'd%016x' % d[1]
    if c == 'c':
        return 'c%d' % d[1]
    if c == 's':
        return 's' + hx(d[1])
    if c == 'y':
        return 'y' + hx(d[1])
    if c in 'un':
        return c
    if c in 'ow':
        return c + enc_dval(d[1])
    if c in 'aS':
        return c + '(' + ','.join(enc_dval(x) for x in d[1]) + ')'
    if c == 'm':
        return 'm(' + ','.join(enc_dval(k) + ':' + enc_dval(v) for k, v in d[1]) + ')'
    if c == 'e':
        return 'e' + hx(d[1]) + ':' + enc_dval(d[2])
    raise ValueError(d)

def ty_has(t, pred):
    if pred(t):
        return True
    c = t[0]
    if c in 'owa':
        return ty_has(t[1], pred)
    if c in 'tT':
        return any(ty_has(x, pred) for x in t[1])
    if c == 'm':
        return kty_has(t[1], pred) or ty_has(t[2], pred)
    if c == 'S':
        return any(ty_has(x, pred) for _, x in t[1])
    if c == 'E':
        for _, v in t[1]:
            if v[0] == 'w' and ty_has(v[1], pred):
                return True
            if v[0] == 't' and any(ty_has(x, pred) for x in v[1]):
                return True
            if v[0] == 'S' and any(ty_has(x, pred) for _, x in v[1]):
                return True
    return False

def kty_has(k, pred):
    if pred(k):
        return True
    if k[0] in 'ow':
        return kty_has(k[1], pred)
    return False

NAMES = ['a', 'b', 'c', 'ab', 'A', 'B', 'Var', 'é', 'k\n', '', 'x y', 'true', '1', 'q"q', 'null']

def rand_names(rng, n):
    return rng.sample(NAMES, n)

SCALARS = ['b', 'int', 'int', 'int', 'd', 'f', 'c', 's', 's', 'y', 'u', 'U', 'v', 'g', 'z', 'r']

def rand_kty(rng, depth=2):
    r = rng.random()
    if depth > 0 and r < 0.12:
        return ('o', rand_kty(rng, depth - 1))
    if depth > 0 and r < 0.24:
        return ('w', rand_kty(rng, depth - 1))
    c = rng.choice(['s', 's', 'int', 'int', 'int', 'b', 'c', 'd', 'f', 'e'])
    if c == 'int':
        return ('int', rng.choice(list(INTS)))
    if c == 'e':
        return ('e', rand_names(rng, rng.randrange(1, 4)))
    return (c,)

def rand_fields(rng, depth, opts):
    n = rng.choice([0, 1, 2, 2, 3, 4])
    return [(nm, rand_ty(rng, depth, opts)) for nm in rand_names(rng, n)]

def rand_ty(rng, depth, opts=()):
    """opts: subset of {'raw','nof32','noz','nov','nog'}"""
    if depth <= 0 or rng.random() < 0.3:
        while True:
            c = rng.choice(SCALARS)
            if (c == 'r' and 'raw' not in opts) or (c == 'f' and 'nof32' in opts) or (c == 'z' and 'noz' in opts) \
               or (c == 'v' and 'nov' in opts) or (c == 'g' and 'nog' in opts):
                continue
            break
        if c == 'int':
            return ('int', rng.choice(list(INTS)))
        return (c,)
    c = rng.choice(['o', 'o', 'w', 'a', 'a', 't', 'T', 'm', 'm', 'S', 'S', 'S', 'E', 'E'])
    if c in 'owa':
        return (c, rand_ty(rng, depth - 1, opts))
    if c in 'tT':
        return (c, [rand_ty(rng, depth - 1, opts) for _ in range(rng.choice([0, 1, 2, 2, 3]))])
    if c == 'm':
        k = rand_kty(rng)
        if 'nof32' in opts and kty_has(k, lambda x: x[0] == 'f'):
            k = ('s',)
        return ('m', k, rand_ty(rng, depth - 1, opts))
    if c == 'S':
        return ('S', rand_fields(rng, depth - 1, opts))
    vs = []
    for nm in rand_names(rng, rng.choice([1, 2, 3, 4])):
        k = rng.choice('uwtS')
        if k == 'u':
            vs.append((nm, ('u',)))
        elif k == 'w':
            vs.append((nm, ('w', rand_ty(rng, depth - 1, opts))))
        elif k == 't':
            vs.append((nm, ('t', [rand_ty(rng, depth - 1, opts) for _ in range(rng.choice([0, 1, 2, 3]))])))
        else:
            vs.append((nm, ('S', rand_fields(rng, depth - 1, opts))))
    return ('E', vs)

# ---- python-side JSON values with their canonical text (for the Value target)
def rand_jvalue(rng, depth):
    r = rng.random()
    if depth <= 0 or r < 0.4:
        k = rng.randrange(5)
        if k == 0:
            return rng.choice([('n',), ('t',), ('f',)])
        if k in (1, 2):
            return ('num', rng.choice([0, 1, -1, 255, 2**63 - 1, 2**64 - 1, -2**63, rng.randrange(-10**6, 10**6)]))
        return ('s', gen.rand_string_content(rng, 6))
    if r < 0.7:
        return ('a', [rand_jvalue(rng, depth - 1) for _ in range(rng.choice([0, 1, 2, 3]))])
    return ('o', [(rng.choice(['a', 'b', 'a', 'é', '', 'zz']), rand_jvalue(rng, depth - 1)) for _ in range(rng.choice([0, 1, 2, 3]))])

def render_jvalue(rng, v, ws=True):
    w = (lambda: gen.rand_ws(rng)) if ws else (lambda: b'')
    c = v[0]
    if c == 'n':
        return b'null'
    if c == 't':
        return b'true'
    if c == 'f':
        return b'false'
    if c == 'num':
        return str(v[1]).encode()
    if c == 's':
        return gen.render_string(rng, v[1])
    if c == 'a':
        if not v[1]:
            return b'[' + w() + b']'
        return b'[' + b','.join(w() + render_jvalue(rng, x, ws) + w() for x in v[1]) + b']'
    if not v[1]:
        return b'{' + w() + b'}'
    return b'{' + b','.join(w() + gen.render_string(rng, k) + w() + b':' + w() + render_jvalue(rng, x, ws) + w() for k, x in v[1]) + b'}'

def canon_jvalue(v, letters):
    """canonical text of the parsed Value (canon.rs show_value) under the feature letters of the configuration"""
    c = v[0]
    if c in 'ntf':
        return c
    if c == 'num':
        if 'a' in letters:
            return 'l' + hx(str(v[1]).encode())
        return ('u%d' if v[1] >= 0 else 'i%d') % v[1]
    if c == 's':
        return 's' + hx(v[1].encode('utf-8'))
    if c == 'a':
        return 'a(' + ','.join(canon_jvalue(x, letters) for x in v[1]) + ')'
    m = collections.OrderedDict()
    for k, x in v[1]:
        m[k.encode('utf-8')] = x          # a repeated key keeps its first slot and takes the last value
    items = list(m.items())
    if 'p' not in letters:
        items.sort(key=lambda kv: kv[0])
    return 'o(' + ','.join(hx(k) + ':' + canon_jvalue(x, letters) for k, x in items) + ')'

# ---- random data of a type.  A generated datum carries what is needed to print it (literal spellings)
FLOAT_LITS = ['0.0', '1.0', '1.5', '0.1', '0.25', '100.0', '1e5', '1.25e-3', '3.0e10', '123456.789', '2.5E+3', '0.000001', '9.75', '12e-2']

FLOAT_FILTER = [False]     # run_c04_typed outside float_roundtrip: only f64 data that prints as a short literal

def rand_float_lit(rng, single):
    if rng.random() < 0.4:
        s = rng.choice(FLOAT_LITS)
    else:
        digits = rng.randrange(1, 7 if single else 16)
        mant = rng.randrange(0, 10**digits)
        fd = rng.randrange(1, 6)
        s = str(mant).rjust(fd + 1, '0')
        s = s[:-fd] + '.' + s[-fd:]
        if rng.random() < 0.4:
            s += rng.choice('eE') + rng.choice(['', '+', '-']) + str(rng.randrange(0, 9 if single else 16))
    if rng.random() < 0.3:
        s = '-' + s
    return s

def prints_short(x):
    """does the f64 x print (ryu, as serde_json writes it) as a literal the default parser reads exactly: at most 15 digits
    in the printed mantissa (the integer form d...d000.0 counts its zeros) and a decimal exponent within +-22?"""
    if x == 0.0:
        return True
    r = repr(abs(x))
    if 'e' in r:
        m, e = r.split('e')
        e = int(e)
    else:
        m, e = r, 0
    ip, _, fp = m.partition('.')
    digits = (ip + fp).lstrip('0')
    point = len(ip) + e                       # value = 0.<ip fp> * 10^point
    lead = len(ip + fp) - len((ip + fp).lstrip('0'))
    digits = digits.rstrip('0') or '0'
    kk = point - lead + 0                      # position of the decimal point relative to the first significant digit
    olen = len(digits)
    exp10 = kk - olen                          # value = digits * 10^exp10
    if exp10 >= 0 and kk <= 16:
        return kk + 1 <= 15                    # printed as an integer followed by ".0"
    return olen <= 15 and abs(exp10) <= 22

def rand_int(rng, code):
    lo, hi = INTS[code]
    r = rng.random()
    if r < 0.35:
        return rng.choice([lo, hi, 0, 1, min(hi, 127), lo + 1, hi - 1, -1 if lo < 0 else 2])
    if r < 0.6:
        return rng.randrange(max(lo, -1000), min(hi, 1000) + 1)
    return rng.randrange(lo, hi + 1)

def rand_kdval(rng, k):
    c = k[0]
    if c == 's':
        return ('s', gen.rand_string_content(rng, 5).encode('utf-8'))
    if c == 'int':
        return ('i', rand_int(rng, k[1]))
    if c == 'b':
        return ('B', rng.random() < 0.5)
    if c == 'c':
        return ('c', ord(rand_char(rng)))
    if c in 'df':
        lit = rand_float_lit(rng, c == 'f')
        while c == 'd' and FLOAT_FILTER[0] and not prints_short(float(lit)):
            lit = rand_float_lit(rng, False)
        return ('d', f32_as_f64bits(float(lit)) if c == 'f' else f64bits(float(lit)), lit)
    if c in 'ow':
        return (c, rand_kdval(rng, k[1]))
    return ('e', rng.choice(k[1]).encode('utf-8'), ('u',))

def rand_char(rng):
    while True:
        s = gen.rand_string_content(rng, 3)
        if s:
            return s[0]

def rand_dval(rng, t, letters='-', maxlen=4):
    c = t[0]
    if c == 'v':
        v = rand_jvalue(rng, 2)
        return ('v', canon_jvalue(v, letters), v)
    if c in 'gr':
        while True:
            text = gen.rand_doc(rng, depth=2)
            if gen.is_utf8(text):
                return (c, text)
    if c == 'b':
        return ('B', rng.random() < 0.5)
    if c == 'int':
        return ('i', rand_int(rng, t[1]))
    if c in 'df':
        lit = rand_float_lit(rng, c == 'f')
        while c == 'd' and FLOAT_FILTER[0] and not prints_short(float(lit)):
            lit = rand_float_lit(rng, False)
        return ('d', f32_as_f64bits(float(lit)) if c == 'f' else f64bits(float(lit)), lit)
    if c == 'c':
        return ('c', ord(rand_char(rng)))
    if c == 's':
        return ('s', gen.rand_string_content(rng, 8).encode('utf-8'))
    if c == 'z':
        return ('s', ''.join(rng.choice('abc xyzé€😀09_') for _ in range(rng.randrange(0, 6))).encode('utf-8'), 'plain')
    if c == 'y':
        if rng.random() < 0.5:
            return ('y', bytes(rng.randrange(256) for _ in range(rng.randrange(0, 6))), 'arr')
        return ('y', gen.rand_string_content(rng, 5).encode('utf-8'), 'str')
    if c in 'uU':
        return ('u',)
    if c == 'o':
        return ('n',) if rng.random() < 0.35 else ('o', rand_dval(rng, t[1], letters, maxlen))
    if c == 'w':
        return ('w', rand_dval(rng, t[1], letters, maxlen))
    if c == 'a':
        return ('a', [rand_dval(rng, t[1], letters, maxlen) for _ in range(rng.choice([0, 0, 1, 2, 3, maxlen]))])
    if c in 'tT':
        return ('a', [rand_dval(rng, x, letters, maxlen) for x in t[1]])
    if c == 'm':
        return ('m', [(rand_kdval(rng, t[1]), rand_dval(rng, t[2], letters, maxlen)) for _ in range(rng.choice([0, 0, 1, 2, 3]))])
    if c == 'S':
        return ('S', [rand_dval(rng, x, letters, maxlen) for _, x in t[1]])
    nm, v = rng.choice(t[1])
    if v[0] == 'u':
        p = ('u',)
    elif v[0] == 'w':
        p = rand_dval(rng, v[1], letters, maxlen)
    elif v[0] == 't':
        p = ('a', [rand_dval(rng, x, letters, maxlen) for x in v[1]])
    else:
        p = ('S', [rand_dval(rng, x, letters, maxlen) for _, x in v[1]])
    return ('e', nm.encode('utf-8'), p)

def nullish(t, d):
    """does the datum print as the JSON text null (so that Some(datum) reads back as None)?"""
    c = t[0]
    if c in 'uU':
        return True
    if c == 'o':
        return d[0] == 'n' or nullish(t[1], d[1])
    if c == 'w':
        return nullish(t[1], d[1])
    if c == 'v':
        return d[1] == 'n'
    if c in 'gr':
        return d[1] == b'null'
    return False

def expected(t, d):
    """the datum as it reads back (Some of a null-printing datum is None; ignored content is not kept)"""
    c = t[0]
    if c == 'g':
        return ('g',)
    if c == 'v':
        return ('v', d[1])
    if c == 'o':
        if d[0] == 'n' or nullish(t[1], d[1]):
            return ('n',)
        return ('o', expected(t[1], d[1]))
    if c == 'w':
        return ('w', expected(t[1], d[1]))
    if c == 'a':
        return ('a', [expected(t[1], x) for x in d[1]])
    if c in 'tT':
        return ('a', [expected(x, y) for x, y in zip(t[1], d[1])])
    if c == 'm':
        return ('m', [(k, expected(t[2], v)) for k, v in d[1]])
    if c == 'S':
        return ('S', [expected(x, y) for (_, x), y in zip(t[1], d[1])])
    if c == 'E':
        v = dict(t[1])[d[1].decode('utf-8')]
        p = d[2]
        if v[0] == 'w':
            p = expected(v[1], p)
        elif v[0] == 't':
            p = ('a', [expected(x, y) for x, y in zip(v[1], p[1])])
        elif v[0] == 'S':
            p = ('S', [expected(x, y) for (_, x), y in zip(v[1], p[1])])
        return ('e', d[1], p)
    return d[:2] if c in ('d', 'f', 'z', 'y', 's') else d

def key_text(rng, k, d):
    c = k[0]
    if c == 's':
        return gen.render_string(rng, d[1].decode('utf-8'))
    if c == 'int':
        return b'"%d"' % d[1]
    if c == 'b':
        return b'"true"' if d[1] else b'"false"'
    if c == 'c':
        return gen.render_string(rng, chr(d[1]))
    if c in 'df':
        return b'"' + d[2].encode() + b'"'
    if c in 'ow':
        return key_text(rng, k[1], d[1])
    return gen.render_string(rng, d[1].decode('utf-8'))

def render_fields(rng, fs, ds, w, sab):
    if rng.random() < 0.12:
        return b'[' + b','.join(w() + render(rng, t, d, w, sab) + w() for (_, t), d in zip(fs, ds)) + (w() if not fs else b'') + b']'
    names = set(n for n, _ in fs)
    members = []
    for (n, t), d in zip(fs, ds):
        if t[0] == 'o' and d[0] == 'n' and rng.random() < 0.5:
            continue
        members.append(gen.render_string(rng, n) + w() + b':' + w() + render(rng, t, d, w, sab))
    for _ in range(rng.choice([0, 0, 0, 1, 1, 2])):
        while True:
            n = rng.choice(NAMES + ['zz', 'unknown', 'aa'])
            if n not in names:
                break
        members.append(gen.render_string(rng, n) + w() + b':' + w() + gen.rand_doc(rng, depth=2))
    rng.shuffle(members)
    return b'{' + b','.join(w() + m + w() for m in members) + (w() if not members else b'') + b'}'

def render(rng, t, d, w=None, sab=None):
    """JSON text that deserializes into datum d of type t (random whitespace, escapes, field order, unknown fields)"""
    w = w or (lambda: gen.rand_ws(rng))
    c = t[0]
    if c == 'v':
        return render_jvalue(rng, d[2])
    if c in 'gr':
        return d[1]
    if c == 'b':
        return b'true' if d[1] else b'false'
    if c == 'int':
        return b'%d' % d[1]
    if c in 'df':
        return d[2].encode()
    if c == 'c':
        return gen.render_string(rng, chr(d[1]))
    if c == 's':
        return gen.render_string(rng, d[1].decode('utf-8'))
    if c == 'z':
        return b'"' + d[1] + b'"'
    if c == 'y':
        if d[2] == 'arr':
            return b'[' + b','.join(w() + b'%d' % x + w() for x in d[1]) + (w() if not d[1] else b'') + b']'
        return gen.render_string(rng, d[1].decode('utf-8'))
    if c in 'uU':
        return b'null'
    if c == 'o':
        return b'null' if d[0] == 'n' else render(rng, t[1], d[1], w, sab)
    if c == 'w':
        return render(rng, t[1], d[1], w, sab)
    if c == 'a':
        return b'[' + b','.join(w() + render(rng, t[1], x, w, sab) + w() for x in d[1]) + (w() if not d[1] else b'') + b']'
    if c in 'tT':
        return b'[' + b','.join(w() + render(rng, x, y, w, sab) + w() for x, y in zip(t[1], d[1])) + (w() if not d[1] else b'') + b']'
    if c == 'm':
        return b'{' + b','.join(w() + key_text(rng, t[1], k) + w() + b':' + w() + render(rng, t[2], v, w, sab) + w() for k, v in d[1]) \
               + (w() if not d[1] else b'') + b'}'
    if c == 'S':
        return render_fields(rng, t[1], d[1], w, sab)
    v = dict(t[1])[d[1].decode('utf-8')]
    name = gen.render_string(rng, d[1].decode('utf-8'))
    if v[0] == 'u':
        if rng.random() < 0.6:
            return name
        body = b'null'
    elif v[0] == 'w':
        body = render(rng, v[1], d[2], w, sab)
    elif v[0] == 't':
        body = b'[' + b','.join(w() + render(rng, x, y, w, sab) + w() for x, y in zip(v[1], d[2][1])) + (w() if not v[1] else b'') + b']'
    else:
        body = render_fields(rng, v[1], d[2][1], w, sab)
    return b'{' + w() + name + w() + b':' + w() + body + w() + b'}'

# fixed types that exercise every constructor of ty / kty at least once (used with the exhaustive token space)
FIXED_TYS = [
    'b', 'i0', 'i3', 'n0', 'n3', 'i4', 'n4', 'd', 'f', 'c', 's', 'z', 'y', 'u', 'U', 'v', 'g', 'ob', 'oob', 'wi0', 'ai0', 'aob', 't()', 't(i0)', 't(bs)', 'T(i0b)',
    'msb', 'mi0b', 'mn3u', 'mi4u', 'mn4u', 'mbu', 'mcu', 'mdu', 'mfu', 'moi0u', 'mwsu', 'me(61,62)u', 'S()', 'S(61:b)', 'S(61:ob,62:i0)', 'S(61:S(61:u))',
    'E(61:u)', 'E(61:u,62:wi0)', 'E(61:t(i0b),62:S(61:b))', 'E(61:wE(61:u))', 'au', 'amsai0', 'oS(61:ai0)',
]

def typed_docs(ctx, n, opts, depth=None):
    """(ty text, ty, datum, document) for random types and random data"""
    rng = ctx.rng
    for _ in range(n):
        t = rand_ty(rng, depth if depth is not None else rng.choice([1, 2, 2, 3, 3, 4]), opts)
        d = rand_dval(rng, t, ctx.letters_now)
        doc = gen.rand_ws(rng) + render(rng, t, d) + gen.rand_ws(rng)
        yield enc_ty(t), t, d, doc

def model_gap(tyt, L):
    """f32 targets under float_roundtrip use lexical's single-precision path, which the model does not cover"""
    return False

def compare(ctx, cfg, lines, what_prefix='typed-'):
    """run implementation and model on the same lines; returns (impl outputs, model outputs)"""
    io, mo = ctx.both(cfg, lines, impl_name=IMPL, model_name=MODEL)
    return io, mo

def judge_lines(ctx, cfg, lines, v, classify=None):
    """model == implementation on every line (the model is the proved specification): ok value, code, category, position, class"""
    io, mo = compare(ctx, cfg, lines)
    for ln, a, m in zip(lines, io, mo):
        if a == 'SKIP' or m in ('UNMODELLED', 'NOMODEL'):
            continue
        if a in ('PANIC',) or a.startswith('CRASH'):
            v.append({'what': 'typed-crash', 'cfg': cfg, 'line': ln, 'expected': m, 'actual': a, 'shrinkable': False})
        elif a != m:
            what = 'typed-model-mismatch'
            if is_ok(a) != is_ok(m):
                what = 'typed-accept-mismatch'
            elif is_ok(a):
                what = 'typed-value-mismatch'
            v.append({'what': what, 'cfg': cfg, 'line': ln, 'expected': 'proved model: ' + m, 'actual': a, 'shrinkable': False})
    return io, mo

def mutate_typed(rng, doc, maxn=25):
    res = gen.mutations(rng, doc, maxn=maxn)
    # a few targeted edits: numbers out of range, quotes removed around keys, duplicated members
    for pat, rep in [(b'"', b''), (b':', b','), (b'null', b'nul'), (b'true', b'1'), (b'[', b'{'), (b'}', b']'), (b',', b',,'), (b'1', b'999999999999999999999'),
                     (b'"', b'"\\u0031'), (b'0', b'-0'), (b'2', b'2.0'), (b'3', b'3e0')]:
        i = doc.find(pat, rng.randrange(len(doc) + 1))
        if i >= 0:
            res.append(doc[:i] + rep + doc[i + len(pat):])
    return res

# ================================================================== C06
def c06_literals(ctx):
    rng = ctx.rng
    quick = ctx.tier == 'quick'
    vals = set()
    bounds = set()
    for lo, hi in INTS.values():
        bounds.update([lo, hi])
    bounds.update([2**63, 2**64, -2**64, 2**127, 2**128, -2**128, 0])
    for b in bounds:
        for dlt in range(-300, 301):
            vals.add(b + dlt)
    for k in range(0, 129):
        for dlt in (range(-3, 4) if quick else range(-300, 301)):
            vals.add(2**k + dlt)
            vals.add(-(2**k) + dlt)
    if quick:
        vals.update(range(-128, 256))
        vals.update(range(-32768, 65536, 7))
    else:
        vals.update(range(-32768, 65536))
    lits = set(str(v) for v in vals)
    lits.add('-0')
    for _ in range(3000 if quick else 40000):
        nd = rng.randrange(1, 46)
        s = str(rng.randrange(10**(nd - 1), 10**nd))
        lits.add(s)
        lits.add('-' + s)
    sample = rng.sample(sorted(lits), 400 if quick else 4000)
    extra = set()
    for s in sample + ['0', '-0', '1', '-1', '127', '128', '255', '256', '9223372036854775807', '18446744073709551615', '18446744073709551616',
                       '340282366920938463463374607431768211455', '-170141183460469231731687303715884105728']:
        neg = s.startswith('-')
        body = s.lstrip('-')
        sg = '-' if neg else ''
        extra.update([sg + '0' + body, sg + '00' + body, s + '.0', s + 'e0', s + 'E+0', s + '.000', s + '0e-1', s + '.5', s + 'e1', '+' + body, s + ' ', ' ' + s])
    return sorted(lits), sorted(extra)

def lit_value(s):
    """(is a plain integer literal, its value) — optional '-', then 0 or a digit string without leading zero; nothing else"""
    body = s[1:] if s.startswith('-') else s
    if not body.isdigit() or not body.isascii() or (len(body) > 1 and body[0] == '0'):
        return False, None
    return True, int(s)

def c06_expect(lit, code, route, letters):
    """python big-int oracle: ('ok', value) or ('err',)   route: text | key | value | vkey"""
    s = lit.strip(' ') if route in ('text', 'value') else lit
    plain, v = lit_value(s)
    if not plain:
        return ('err',)
    lo, hi = INTS[code]
    wide = code in ('i4', 'n4')
    if s == '-0':
        # the float negative zero: never an integer for the 8..64-bit targets; i128 reads the digits itself (text routes)
        if code == 'i4' and (route in ('text', 'key', 'vkey') or 'a' in letters):
            return ('ok', 0)          # (128-bit targets are outside the -0 clause; under arbitrary_precision the Value keeps the digits)
        return ('err',)
    if route == 'value' and 'a' not in letters and not (-2**63 <= v <= 2**64 - 1):
        return ('err',)          # beyond [i64::MIN, u64::MAX] an untyped Value holds a float
    if lo <= v <= hi:
        return ('ok', v)
    return ('err',)

def judge_c06(ctx, cfg, inputs, aux=None):
    """inputs: literals (bytes); all ten targets x {text, key, Value, key-in-Value}"""
    L = ctx.letters(cfg)
    v = []
    cases = []
    for lit in inputs:
        s = lit.decode('latin-1')
        for code in INTS:
            cases.append((s, code, 'text', 'pt %s b %s %s' % (L, code, hx(lit))))
            cases.append((s, code, 'key', 'pt %s b m%su %s' % (L, code, hx(b'{"' + lit + b'":null}'))))
    lines = [c[3] for c in cases]
    io, mo = ctx.both(cfg, lines, impl_name=IMPL, model_name=MODEL)
    for (s, code, route, ln), a, m in zip(cases, io, mo):
        exp = c06_expect(s, code, route, L)
        got = None
        if is_ok(a):
            txt = a[3:]
            if route == 'key':
                got = ('ok', int(txt[3:-3])) if txt.startswith('m(i') and txt.endswith(':u)') else ('ok?', txt)
            else:
                got = ('ok', int(txt[1:])) if txt.startswith('i') else ('ok?', txt)
        elif a.startswith('err'):
            got = ('err',)
        if a == 'PANIC' or a.startswith('CRASH') or got is None:
            v.append({'what': 'c06-crash', 'cfg': cfg, 'input': hx(s.encode('latin-1')), 'target': INT_NAMES[code], 'route': route, 'expected': str(exp), 'actual': a, 'aux': {'code': code}})
        elif got != exp:
            what = 'integer-wrong-value' if got[0] == 'ok' and exp[0] == 'ok' else ('integer-accepted-out-of-range-or-non-integer' if got[0] != 'err' else 'integer-in-range-rejected')
            v.append({'what': what, 'cfg': cfg, 'input': hx(s.encode('latin-1')), 'target': INT_NAMES[code], 'route': route,
                      'expected': 'big-integer arithmetic: ' + str(exp), 'actual': a, 'aux': {'code': code}})
        elif m not in ('NOMODEL',) and a != m:
            # exact-or-error agrees with arithmetic but the proved model predicts another error/position
            v.append({'what': 'integer-model-mismatch', 'cfg': cfg, 'input': hx(s.encode('latin-1')), 'target': INT_NAMES[code], 'route': route,
                      'expected': 'proved model: ' + m, 'actual': a, 'aux': {'code': code}})
        elif not ctx.quiet and exp[0] == 'ok':
            ctx.distinct_nontrivial += 1
    # through a Value (implementation against arithmetic; Model/ValueDe is not part of this area)
    cases = []
    for lit in inputs:
        s = lit.decode('latin-1')
        if not gen.is_utf8(lit):
            continue
        for code in INTS:
            cases.append((s, code, 'value', 'fv %s %s %s' % (L, code, hx(lit))))
            cases.append((s, code, 'vkey', 'fv %s m%su %s' % (L, code, hx(b'{"' + lit + b'":null}'))))
    outs = ctx.impl(cfg, [c[3] for c in cases], name=IMPL)
    for (s, code, route, ln), a in zip(cases, outs):
        exp = c06_expect(s, code, route, L)
        if a.startswith('parse-err'):
            got = ('err',)
        elif is_ok(a):
            txt = a[3:]
            if route == 'vkey':
                got = ('ok', int(txt[3:-3])) if txt.startswith('m(i') and txt.endswith(':u)') else ('ok?', txt)
            else:
                got = ('ok', int(txt[1:])) if txt.startswith('i') else ('ok?', txt)
        elif a.startswith('err'):
            got = ('err',)
        else:
            got = ('??', a)
        if got != exp:
            what = 'integer-via-value'
            if s.strip(' ') == '-0' and got == ('ok', 0) and 'a' in L and route == 'value' and code in ('i0', 'i1', 'i2', 'i3'):
                what = 'neg-zero-integer-via-value'      # known finding (arbitrary_precision only)
            elif got[0] == 'ok' and exp[0] == 'ok':
                what = 'integer-wrong-value-via-value'
            v.append({'what': what, 'cfg': cfg, 'input': hx(s.encode('latin-1')), 'target': INT_NAMES[code], 'route': route,
                      'expected': 'big-integer arithmetic: ' + str(exp), 'actual': a, 'aux': {'code': code}, 'shrinkable': False})
    return v

def judge_c06_accessors(ctx, cfg, lits):
    """to_string(n) = decimal digits; as_i64/as_u64/as_i128/as_u128/is_* of a parsed Value against arithmetic"""
    L = ctx.letters(cfg)
    v = []
    # serialisation: every in-range value of every type prints as its decimal digits
    cases = []
    for s in lits:
        plain, n = lit_value(s)
        if not plain or s == '-0':
            continue
        for code, (lo, hi) in INTS.items():
            if lo <= n <= hi:
                cases.append((s, code))
    cases = cases if ctx.tier != 'quick' else cases[::3]
    outs = ctx.impl(cfg, ['ts %s %s %s' % (L, code, s) for s, code in cases], name=IMPL)
    for (s, code), a in zip(cases, outs):
        want = hx(s.encode())
        f = a.split(' ')
        n = int(s)
        # inside a Value: same digits when the Value can hold the integer exactly (always under arbitrary_precision)
        # ... and an ERROR otherwise (to_value must never hand back a different number: wrapped, truncated or saturated)
        val_ok = len(f) == 3 and (f[2] == want if ('a' in L or -2**63 <= n <= 2**64 - 1) else f[2] == 'valerr')
        if f[0] != 'ok' or f[1] != want or not val_ok:
            v.append({'what': 'integer-serialisation', 'cfg': cfg, 'input': hx(s.encode()), 'target': INT_NAMES[code], 'expected': 'ok %s (the decimal digits)' % want, 'actual': a, 'shrinkable': False})
    # accessors
    lits2 = [s for s in lits if gen.is_utf8(s.encode('latin-1'))]
    outs = ctx.impl(cfg, ['na %s %s' % (L, hx(s.encode())) for s in lits2], name=IMPL)
    if 'a' not in L and ctx.model_ok:
        # the accessor MODEL (Model/Pointer.v, Proofs/NumberAcc.v: theorems C06_as_* / C06_is_*) against the crate, line for line
        mouts = ctx.model(['na %s %s' % (L, hx(s.encode())) for s in lits2], 'sjdriver_numacc')
        for s, a, m in zip(lits2, outs, mouts):
            if a.split(' ')[0] in ('num', 'notnum') and a != m:
                v.append({'what': 'number-accessors-differ-from-model', 'cfg': cfg, 'input': hx(s.encode()), 'expected': 'model: ' + m, 'actual': a, 'shrinkable': False})
    for s, a in zip(lits2, outs):
        plain, n = lit_value(s)
        if not plain:
            continue
        f = a.split(' ')
        if f[0] != 'num':
            v.append({'what': 'number-accessors', 'cfg': cfg, 'input': hx(s.encode()), 'expected': 'a Number', 'actual': a, 'shrinkable': False})
            continue
        as_i64, as_u64, as_i128, as_u128, is_i64, is_u64, is_f64 = f[1:8]
        def want(lo, hi):
            return str(n) if lo <= n <= hi else '-'
        isint = True
        if s == '-0':
            isint = False                       # the float negative zero
        in_value = -2**63 <= n <= 2**64 - 1      # what an untyped Value keeps as an integer (default build)
        if 'a' in L:
            exp = [want(-2**63, 2**63 - 1), want(0, 2**64 - 1), want(-2**127, 2**127 - 1), want(0, 2**128 - 1)]
        else:
            exp = [want(-2**63, 2**63 - 1), want(0, 2**64 - 1), want(-2**63, 2**64 - 1), want(0, 2**64 - 1)]
        if not isint:
            exp = ['-', '-', '-', '-']
        got = [as_i64, as_u64, as_i128, as_u128]
        bad = got != exp
        bad = bad or (is_i64 == '1') != (as_i64 != '-') or (is_u64 == '1') != (as_u64 != '-')
        if 'a' not in L:
            # only literals beyond [i64::MIN, u64::MAX] (and -0) turn into floats
            bad = bad or (is_f64 == '1') != (not in_value or not isint)
        bad = bad or f[9:10] != ['agree']
        if bad:
            what = 'number-accessors'
            if s == '-0' and 'a' in L and got == ['0', '-', '0', '-'] and is_i64 == '1' and is_u64 == '0':
                what = 'neg-zero-integer-via-value'      # the accessor side of the same known finding (arbitrary_precision only)
            v.append({'what': what, 'cfg': cfg, 'input': hx(s.encode()), 'expected': 'as_i64 as_u64 as_i128 as_u128 = %s; is_* true exactly when as_* is Some; float only beyond [i64::MIN,u64::MAX]' % ' '.join(exp),
                      'actual': a, 'shrinkable': False})
    return v

def judge_c06_retry(ctx, cfg):
    """ONE Deserializer, a refused integer request swallowed, then another integer request on the same Deserializer (the try-u128-then-i128 idiom): whatever
    the second request yields, an Ok is the EXACT value of the literal (a refusal may or may not have consumed the literal; it never leaves a different number
    behind, e.g. the literal without its sign).  Evaluated on the implementation against big-integer arithmetic."""
    rng = ctx.rng
    lits = []
    for base in (0, 1, 5, 127, 128, 255, 256, 2**15, 2**16, 2**31, 2**32, 2**63 - 1, 2**63, 2**64 - 1, 2**64, 2**127 - 1, 2**127, 2**128 - 1, 2**128, 10**38, 170141183460469231731687303715884105728):
        lits += [str(base), '-' + str(base)]
    for _ in range(200 if ctx.tier == 'quick' else 2000):
        lits.append(rng.choice(['', '-']) + str(rng.randrange(0, 10 ** rng.randrange(1, 42))))
    lits = [l for l in dict.fromkeys(lits) if l != '-0']
    rng_ty = {'l': (-2**63, 2**63 - 1), 'L': (0, 2**64 - 1), 'I': (-2**127, 2**127 - 1), 'U': (0, 2**128 - 1), 'h': (-2**15, 2**15 - 1), 'B': (0, 255)}
    lines, meta = [], []
    for l in lits:
        for a in 'lLIUhB':
            for b in 'lLIU':
                for src in ('b', 'r'):
                    lines.append('dq %s %s %s' % (src, a + b + b, hx(l.encode())))
                    meta.append((l, a + b + b))
    outs = ctx.impl(cfg, lines)
    v = []
    for (l, t), o in zip(meta, outs):
        x = int(l)
        steps = o.split(',')
        bad = len(steps) != 3
        seen_ok = False
        for ty, st in zip(t, steps):
            if st.startswith('ok:z'):
                lo, hi = rng_ty[ty]
                if int(st[4:]) != x or not (lo <= x <= hi) or seen_ok:
                    bad = True
                seen_ok = True
            elif not st.startswith('err:'):
                bad = True
        # a request the literal fits is refused only if an earlier step consumed it
        if not bad and not seen_ok and rng_ty[t[0]][0] <= x <= rng_ty[t[0]][1]:
            bad = True
        if bad:
            v.append({'what': 'integer-after-refused-request', 'cfg': cfg, 'input': hx(l.encode()), 'types': t, 'expected': 'every Ok is exactly %s, at most once' % l, 'actual': o[:200], 'shrinkable': False})
        elif seen_ok:
            ctx.distinct_nontrivial += 1
    ctx.count('retry-after-refusal', len(lines))
    return v

def run_c06(ctx):
    ctx.rule = ('integer literals: every value within 300 of each integer type bound and (thorough: of each power of two up to 2^128; quick: within 3), all 8-bit and (thorough: all; quick: every 7th) '
                '16-bit values, random 1-45 digit literals with and without sign, -0, and leading-zero / fraction / exponent / whitespace spellings; each x ten targets i8..u128 x '
                '{text, quoted map key, via Value, key via Value}; outcome compared with the extracted Coq model (theorems C06_text/C06_key: exact-or-error) AND with Python big-integer '
                'arithmetic; to_string/to_vec/to_writer/pretty/to_value of every in-range value = its decimal digits; Number/Value accessors against arithmetic; non-trivial = accepted in-range cases')
    for cfg in ctx.cfgs:
        lits, extra = c06_literals(ctx)
        ctx.count('plain-literals', len(lits))
        ctx.count('non-integer-spellings', len(extra))
        allb = [s.encode('latin-1') for s in lits + extra]
        for batch in chunks(allb, 20000):
            ctx.violations += judge_c06(ctx, cfg, batch)
        for s in (lits[:2] + extra[:2]):
            ctx.sample({'literal': s, 'cfg': cfg, 'targets': 'i8..u128', 'routes': 'text, key, Value, key in Value'})
        ctx.violations += judge_c06_accessors(ctx, cfg, lits + ['-0'])
        ctx.violations += judge_c06_retry(ctx, cfg)
    for cfg in [c for c in getattr(ctx, 'side_cfgs', []) if c == 'ap' and c not in ctx.cfgs]:
        # arbitrary_precision side configuration: which visit_* an integer literal reaches through deserialize_any (what an untagged enum with a u64 / i64
        # variant depends on) must be the same on the text route and on the Value routes: visit_u64 / visit_i64 inside [i64::MIN, u64::MAX]
        from checks import fv
        ints = []
        for base in (0, 1, 2**31, 2**32, 2**53, 2**63, 2**64):
            for dlt in range(-2, 3):
                ints += [str(base + dlt).encode(), b'-' + str(abs(base + dlt)).encode(), b'[' + str(base + dlt).encode() + b']', b'{"k":' + str(base + dlt).encode() + b'}']
        ctx.violations += fv.judge_any_probe(ctx, cfg, 400, report_known=False, extra_docs=ints)
        ctx.violations += judge_c06_retry(ctx, cfg)

def judge_c06_single(ctx, cfg, inputs, aux=None):
    return judge_c06(ctx, cfg, inputs, aux)

# ================================================================== typed clause of C10: truncation => Eof at the cut
def run_c10_typed(ctx, ndocs=None):
    """every proper prefix of a generated (type, document) pair that deserializes must be ok or Eof-at-end, on slice and 1-byte reader,
    and must equal the model's answer"""
    for cfg in ctx.cfgs:
        L = ctx.letters(cfg)
        ctx.letters_now = L
        feats = engine.CONFIGS[cfg][0]
        opts = cfg_opts(cfg)
        n = ndocs or (400 if ctx.tier == 'quick' else 4000)
        docs = list(typed_docs(ctx, n, opts))
        docs += fixed_typed_docs(ctx, cfg)
        v = []
        for src in ('b', 'r1'):
            lines = ['pt %s %s %s %s' % (L, src, tyt, hx(doc)) for tyt, _, _, doc in docs]
            io, mo = judge_lines(ctx, cfg, lines, v)
            pre, meta = [], []
            seen = set()
            for (tyt, t, d, doc), a in zip(docs, io):
                if not is_ok(a):
                    continue
                if src == 'b' and t is not None:
                    want = 'ok ' + enc_dval(expected(t, d))
                    if unz(a) != want:
                        v.append({'what': 'typed-generated-datum-mismatch', 'cfg': cfg, 'line': 'pt %s %s %s %s' % (L, src, tyt, hx(doc)),
                                  'expected': 'the datum the document was printed from: ' + want, 'actual': a, 'shrinkable': False})
                cuts = range(len(doc))
                if len(doc) > 400:     # the extracted model is quadratic in the input length: sample the cut points of long documents
                    cuts = sorted(set(ctx.rng.sample(range(len(doc)), 150)) | set(range(len(doc) - 40, len(doc))) | set(range(40)))
                for k in cuts:
                    key = (tyt, doc[:k])
                    if key not in seen:
                        seen.add(key)
                        pre.append('pt %s %s %s %s' % (L, src, tyt, hx(doc[:k])))
                        meta.append((tyt, doc[:k]))
            pio, pmo = judge_lines(ctx, cfg, pre, v)
            ctx.distinct_nontrivial += len(pre)
            for (tyt, p), ln, a in zip(meta, pre, pio):
                if is_ok(a) or a == 'SKIP':
                    continue
                e = err_fields(a)
                endpos = pos_of(p, len(p))
                if e is None or e['cat'] != 'eof' or (e['line'], e['col']) != endpos:
                    v.append({'what': 'typed-truncation-not-eof', 'cfg': cfg, 'line': ln, 'ty': tyt, 'input': hx(p), 'src': src,
                              'expected': 'ok, or an Eof error at end of input %r (proper prefix of a document accepted for this type)' % (endpos,),
                              'actual': a, 'shrinkable': False})
        for tyt, _, _, doc in docs[:3]:
            ctx.sample({'ty': tyt, 'doc_hex': hx(doc), 'cfg': cfg, 'checked': 'every proper prefix, slice and 1-byte reader, against the model and Eof-at-end'})
        ctx.violations += v
    run_c10_typed_stream(ctx)
    run_c10_typed_space(ctx)

def fixed_typed_docs(ctx, cfg):
    """hand-written (type, document) pairs covering ignored/unknown fields, raw members, 128-bit integers, quoted keys, nested enums"""
    feats = engine.CONFIGS[cfg][0]
    out = [
        ('S(61:i0)', b'{"x":[1.5e3,{"y":-0.25E-2,"z":"\\u00e9"},null,true], "a": 5, "w": 1e5}'),
        ('S(61:oi0,62:g)', b'{"b":{"q":[1,2.5e-3,"\\ud83d\\ude00"]}, "unknown": -12.5E+3}'),
        ('ai4', b'[-170141183460469231731687303715884105728, 170141183460469231731687303715884105727, 0, -0]'),
        ('an4', b'[340282366920938463463374607431768211455,0 ]'),
        ('mi4n4', b'{"-170141183460469231731687303715884105728":340282366920938463463374607431768211455}'),
        ('mn3b', b'{"18446744073709551615":true, "0" : false}'),
        ('mi0mbmcu', b'{"-128":{"true":{"\\u00e9":null},"false":{}}}'),
        ('mdu', b'{"1.5e3":null,"-0.25":null}'),
        ('moi1wn0', b'{"-32768":255}'),
        ('me(41,42)u', b'{"A":null,"\\u0042":null}'),
        ('E(41:wE(41:wE(41:u,42:t(i0b))))', b'{"A":{"A":{"B":[1,true]}}}'),
        ('E(41:u,42:S(61:ob))', b' {"B" : {"zz":[{}], "a":null} } '),
        ('aE(41:u,42:wi0)', b'["A",{"A":null},{"B":-7}]'),
        ('t(sczy)', b'["a\\n\\u00e9","\\ud83d\\ude00","plain","\\ud800x"]'),
        ('T(dfd)', b'[1.5e300, 2.5, 12345678901234567890123]'),
        ('ooS(61:u)', b'[null]'),
        ('S(61:v,62:g)', b'{"a":{"k":[1,2,{"k":"v"}]},"b":[1e5,-2,"x"]}'),
    ]
    if 'raw_value' in feats:
        out += [('S(61:r,62:i0)', b'{"a": {"k":[1, 2.5e3,"\\u00e9"]} ,"b":7}'), ('ar', b'[ 1e5, "x" ,[ ] , {"a" : null}]'), ('msr', b'{"k":  -12.5E-3  }'), ('or', b' null')]
    res = []
    for tyt, doc in out:
        res.append((tyt, None, None, doc))
    return res


# ================================================================== the typed input space shared by C09 / C10 / model comparison
TYPED_TOKENS = [b'[', b']', b'{', b'}', b',', b':', b' ', b'"a"', b'"b"', b'"1"', b'"-1"', b'"true"', b'1', b'-1', b'256', b'1.5',
                b'true', b'null', b'"', b'-', b'0', b'\\u0061', b'"\xc3\xa9"', b'1e2']

CORE_TYS = ['i0', 'mi0b', 'S(61:ob,62:i0)', 'E(61:t(i0b),62:S(61:b))', 'ai0', 't(bs)', 'mbu', 'E(61:u,62:wi0)']

def typed_space(ctx, small=False):
    """(ty text, input) pairs: fixed types x exhaustive token sequences (general alphabet and a typed one)"""
    quick = ctx.tier == 'quick'
    n_gen = 2 if quick or small else 3
    general = list(gen.enum_tokens(n_gen))
    typed3 = list(gen.enum_tokens(3, TYPED_TOKENS))
    typed4 = None
    for tyt in FIXED_TYS:
        for d in general:
            yield tyt, d
        if not (quick or small) and tyt in CORE_TYS:
            if typed4 is None:
                typed4 = list(gen.enum_tokens(4, TYPED_TOKENS))
            for d in typed4:
                yield tyt, d
        else:
            for d in typed3:
                yield tyt, d
    # float targets over the number-literal families (f32 has its own parsing path under float_roundtrip)
    lits = gen.number_literals(ctx.rng, 300 if quick or small else 3000)
    if quick or small:
        lits = lits[::9]
    for d in lits:
        yield 'f', d
        yield 'd', d
        yield 'mfu', b'{"' + d + b'":null}'

def cfg_opts(cfg):
    feats = engine.CONFIGS[cfg][0]
    return (('raw',) if 'raw_value' in feats else ())

def typed_mutants(ctx, cfg, ndocs, per_doc=25):
    rng = ctx.rng
    for tyt, t, d, doc in typed_docs(ctx, ndocs, cfg_opts(cfg)):
        yield tyt, doc
        for m in mutate_typed(rng, doc, per_doc):
            yield tyt, m

# ================================================================== typed clause of C09: the three sources agree
def same_modulo_peek(data, a, b):
    """a: slice outcome, b: other source; equal values; equal code, category, message; positions at most one byte apart"""
    if is_ok(a) or is_ok(b):
        return unz(a) == unz(b)
    fa, fb = a.split(' '), b.split(' ')
    if fa[:3] != fb[:3] or fa[5:] != fb[5:]:
        return False
    if fa[1] == 'Io':
        return fa == fb
    if fa[3:5] == fb[3:5]:
        return True
    ia, ib = idx_of(data, int(fa[3]), int(fa[4])), idx_of(data, int(fb[3]), int(fb[4]))
    return ia is not None and ib is not None and abs(ia - ib) <= 1

def judge_c09_typed(ctx, cfg, pairs, srcs):
    L = ctx.letters(cfg)
    v = []
    base = ctx.impl(cfg, ['pm %s b %s %s' % (L, tyt, hx(d)) for tyt, d in pairs], name=IMPL)
    for a in base[:50000:13]:
        f = a.split(' ')
        ctx.count('typed-outcome:' + (f[0] if f[0] != 'err' else 'err-' + f[2]))
    ctx.distinct_nontrivial += sum(1 for a in base if is_ok(a) or (a.startswith('err') and a.split(' ')[2] == 'data'))
    for src in srcs:
        idxs = [i for i, (tyt, d) in enumerate(pairs) if src != 's' or gen.is_utf8(d)]
        outs = ctx.impl(cfg, ['pm %s %s %s %s' % (L, src, pairs[i][0], hx(pairs[i][1])) for i in idxs], name=IMPL)
        for i, o in zip(idxs, outs):
            a = base[i]
            tyt, d = pairs[i]
            if 'z' in tyt and src.startswith('r'):
                continue      # &str targets cannot borrow from a reader (always invalid_type there): a property of the type, not of the source
            exact = (unz(a) == unz(o)) if src == 's' else same_modulo_peek(d, a, o)
            if not exact:
                what = 'typed-source-mismatch'
                if src == 's' and o == 'PANIC' and 'mb' in tyt.replace('mbu', 'mb') and 'InvUnicode' in a:
                    what = 'bool-key-str-invalid-utf8'      # MapKey::deserialize_bool splits a multi-byte char, StrRead does not validate
                v.append({'what': what, 'cfg': cfg, 'ty': tyt, 'input': hx(d), 'expected': 'from_slice: ' + a,
                          'actual': 'source %s: %s' % (src, o), 'shrinkable': False})
            elif a != o and not is_ok(a):
                ctx.count('typed-position-differs-by-one(%s)' % src)
    return v

def run_c09_typed(ctx):
    """generated typed documents, their mutations and the typed token space through str / slice / readers: equal values, equal code,
    category and message, positions at most one byte apart (a reader counts a byte it has peeked); every source also against the model"""
    for cfg in ctx.cfgs:
        L = ctx.letters(cfg)
        ctx.letters_now = L
        quick = ctx.tier == 'quick'
        srcs_all = ['s', 'r1', 'r3', 'rx5'] if quick else ['s', 'r1', 'r2', 'r3', 'r7', 'rx3', 'rx11']
        nmut = 300 if quick else 3000
        space = itertools.chain((('M', p) for p in typed_mutants(ctx, cfg, nmut)), (('S', p) for p in typed_space(ctx, small=quick)))
        for tagged in chunks(space, 200000):
            batch = [p for _, p in tagged]
            # every chunking schedule on the documents and their mutations; the exhaustive space through four sources
            srcs = srcs_all if tagged[0][0] == 'M' else ['s', 'r1', 'r3', 'rx5']
            ctx.violations += judge_c09_typed(ctx, cfg, batch, srcs)
            # the model is the specification of each source separately (value, code, category, exact position, message class)
            v = []
            for src in ('b', 'r1') + (('s',) if not quick else ()):
                sub = [(tyt, d) for tyt, d in batch if src != 's' or gen.is_utf8(d)]
                judge_lines(ctx, cfg, ['pt %s %s %s %s' % (L, src, tyt, hx(d)) for tyt, d in sub], v)
            ctx.violations += v
            for tyt, d in batch[:2]:
                ctx.sample({'op': 'pt x sources', 'cfg': cfg, 'ty': tyt, 'input_hex': hx(d)})
        ctx.violations += judge_seed_vs_derive(ctx, cfg)

# ================================================================== the universal seed against serde_derive (supporting evidence)
SHAPES = ["S(61:oi0,62:s)", "E(41:u,42:wi0,43:t(i0b),44:S(61:b))", "mi2b", "t(n0s)", "aob", "wn1", "U", "T(i0ob)",
          "S(78:E(41:u,42:wi0,43:t(i0b),44:S(61:b)),79:aS(61:oi0,62:s),7a:own1)"]

def parse_ty_text(s):
    """inverse of enc_ty (python side), for the fixed shapes"""
    pos = [0]
    def peek():
        return s[pos[0]] if pos[0] < len(s) else ''
    def eat(c):
        assert s[pos[0]] == c, (s, pos[0], c)
        pos[0] += 1
    def name():
        j = pos[0]
        while s[pos[0]] in '0123456789abcdef-':
            pos[0] += 1
        h = s[j:pos[0]]
        return '' if h == '-' else bytes.fromhex(h).decode('utf-8')
    def tys():
        out = []
        while peek() != ')':
            if peek() == ',':
                pos[0] += 1
                continue
            out.append(ty())
        eat(')')
        return out
    def fields():
        out = []
        while peek() != ')':
            if peek() == ',':
                pos[0] += 1
                continue
            n = name()
            eat(':')
            out.append((n, ty()))
        eat(')')
        return out
    def kty():
        c = peek()
        pos[0] += 1
        if c in 'in':
            pos[0] += 1
            return ('int', s[pos[0] - 2:pos[0]])
        if c in 'ow':
            return (c, kty())
        if c == 'e':
            eat('(')
            out = []
            while peek() != ')':
                if peek() == ',':
                    pos[0] += 1
                    continue
                out.append(name())
            eat(')')
            return ('e', out)
        return (c,)
    def ty():
        c = peek()
        pos[0] += 1
        if c in 'in':
            pos[0] += 1
            return ('int', s[pos[0] - 2:pos[0]])
        if c in 'owa':
            return (c, ty())
        if c in 'tT':
            eat('(')
            return (c, tys())
        if c == 'm':
            k = kty()
            return ('m', k, ty())
        if c == 'S':
            eat('(')
            return ('S', fields())
        if c == 'E':
            eat('(')
            out = []
            while peek() != ')':
                if peek() == ',':
                    pos[0] += 1
                    continue
                n = name()
                eat(':')
                k = peek()
                pos[0] += 1
                if k == 'u':
                    out.append((n, ('u',)))
                elif k == 'w':
                    out.append((n, ('w', ty())))
                elif k == 't':
                    eat('(')
                    out.append((n, ('t', tys())))
                else:
                    eat('(')
                    out.append((n, ('S', fields())))
            eat(')')
            return ('E', out)
        return (c,)
    t = ty()
    assert pos[0] == len(s), s
    return t

def btree_norm(o):
    """m(i<k>:<v>,...) in arrival order -> BTreeMap order, last value of a repeated key"""
    if not o.startswith('ok m('):
        return o
    body = o[5:-1]
    m = {}
    for e in (body.split(',') if body else []):
        k, x = e.split(':')
        m[int(k[1:])] = x
    return 'ok m(' + ','.join('i%d:%s' % (k, m[k]) for k in sorted(m)) + ')'

def judge_seed_vs_derive(ctx, cfg):
    """fixed shapes: the universal seed and the #[derive(Deserialize)] type must give the same value / error class / position"""
    rng = ctx.rng
    L = ctx.letters(cfg)
    v = []
    n = 150 if ctx.tier == 'quick' else 1500
    toks = list(gen.enum_tokens(2)) + list(gen.enum_tokens(3, TYPED_TOKENS + [b'"A"', b'"B"', b'"C"', b'"D"', b'"x"', b'"y"', b'"z"']))
    for i, tyt in enumerate(SHAPES):
        t = parse_ty_text(tyt)
        tyt = enc_ty(t)
        inputs = []
        for _ in range(n):
            d = rand_dval(rng, t, L)
            doc = gen.rand_ws(rng) + render(rng, t, d) + gen.rand_ws(rng)
            inputs.append(doc)
            inputs += mutate_typed(rng, doc, 12)
        inputs += toks if ctx.tier != 'quick' else toks[::5]
        for src in ('b', 'r1'):
            a = ctx.impl(cfg, ['pt %s %s %s %s' % (L, src, tyt, hx(d)) for d in inputs], name=IMPL)
            b = ctx.impl(cfg, ['dv %s %s %d %s' % (L, src, i, hx(d)) for d in inputs], name=IMPL)
            for d, x, y in zip(inputs, a, b):
                x = unz(x)
                if i == 2:
                    x = btree_norm(x)
                if x != y:
                    v.append({'what': 'seed-vs-derive', 'cfg': cfg, 'ty': tyt, 'input': hx(d), 'src': src, 'expected': 'derive: ' + y, 'actual': 'universal seed: ' + x, 'shrinkable': False})
                elif is_ok(x):
                    ctx.count('seed==derive ok')
                else:
                    ctx.count('seed==derive err')
    return v

# ================================================================== typed clause of C10 on the exhaustive space
def run_c10_typed_space(ctx):
    """an input that is a proper prefix of an accepted member of the typed token space (same type) must be ok or Eof at its end"""
    for cfg in ctx.cfgs:
        L = ctx.letters(cfg)
        v = []
        for src in ('b', 'r1'):
            for batch in chunks(typed_space(ctx), 400000):
                outs = ctx.impl(cfg, ['pt %s %s %s %s' % (L, src, tyt, hx(d)) for tyt, d in batch], name=IMPL)
                viable = set()
                for (tyt, d), o in zip(batch, outs):
                    if is_ok(o):
                        for k in range(len(d)):
                            viable.add((tyt, d[:k]))
                for (tyt, d), o in zip(batch, outs):
                    if (tyt, d) in viable and not is_ok(o):
                        e = err_fields(o)
                        if e is None or e['cat'] != 'eof' or (e['line'], e['col']) != pos_of(d, len(d)):
                            v.append({'what': 'typed-truncation-not-eof', 'cfg': cfg, 'ty': tyt, 'input': hx(d), 'src': src,
                                      'expected': 'ok or Eof at end of input (proper prefix of an accepted input of the space)', 'actual': o, 'shrinkable': False})
                ctx.distinct_nontrivial += len(viable)
        ctx.violations += v

# ================================================================== typed clause of C10 / C12 through StreamDeserializer
def cut_at_error(hist):
    out = []
    for it in hist.split(' '):
        out.append(it)
        if it.startswith('E'):
            break
    return out

def run_c10_typed_stream(ctx, nstreams=None):
    """streams of typed items (values of one type separated by whitespace), cut at every byte: items before the cut are values,
    the item containing the cut is a value, None, or an Eof-category error at end of input; histories equal the model's up to the first error,
    then None forever"""
    rng = ctx.rng
    for cfg in ctx.cfgs:
        L = ctx.letters(cfg)
        ctx.letters_now = L
        v = []
        n = nstreams or (150 if ctx.tier == 'quick' else 1500)
        streams = []
        for _ in range(n):
            t = rand_ty(rng, rng.choice([0, 1, 1, 2, 2, 3]), cfg_opts(cfg) + ('noz',))
            parts = []
            for _ in range(rng.randrange(1, 4)):
                d = rand_dval(rng, t, L, maxlen=3)
                parts.append(render(rng, t, d))
            s = gen.rand_ws(rng) + rng.choice([b' ', b'\n', b' \n', b'\t']).join(parts) + gen.rand_ws(rng)
            if len(s) <= 300:
                streams.append((enc_ty(t), s, len(parts)))
        for src in ('b', 'r1'):
            lines, meta = [], []
            for tyt, s, k in streams:
                lines.append('ptk %s %s %s %d %s' % (L, src, tyt, k + 2, hx(s)))
                meta.append((tyt, s, k, True))
                for cut in range(len(s)):
                    lines.append('ptk %s %s %s %d %s' % (L, src, tyt, k + 2, hx(s[:cut])))
                    meta.append((tyt, s[:cut], k, False))
            io, mo = ctx.both(cfg, lines, impl_name=IMPL, model_name=MODEL)
            ctx.distinct_nontrivial += len(lines)
            for (tyt, data, k, whole), ln, a, m in zip(meta, lines, io, mo):
                if a == 'SKIP':
                    continue
                if a == 'PANIC' or a.startswith('CRASH'):
                    v.append({'what': 'typed-stream-crash', 'cfg': cfg, 'line': ln, 'expected': m, 'actual': a, 'shrinkable': False})
                    continue
                ca = cut_at_error(a)
                if m != 'NOMODEL' and ca != cut_at_error(m):
                    v.append({'what': 'typed-stream-history', 'cfg': cfg, 'line': ln, 'expected': 'proved model: ' + m, 'actual': a, 'shrinkable': False})
                    continue
                items = a.split(' ')
                if whole and not (all(x.startswith('V') for x in items[:k]) and items[k].startswith('N')):
                    v.append({'what': 'typed-stream-items', 'cfg': cfg, 'line': ln, 'expected': '%d values then None' % k, 'actual': a, 'shrinkable': False})
                errs = [x for x in items if x.startswith('E')]
                if errs:
                    e = errs[0].split('@')[0].split('/')
                    endpos = pos_of(data, len(data))
                    if e[1] != 'eof' or (int(e[2]), int(e[3])) != endpos:
                        v.append({'what': 'typed-stream-truncation-not-eof', 'cfg': cfg, 'line': ln, 'expected': 'values, then None or an Eof error at end of input %r' % (endpos,), 'actual': a, 'shrinkable': False})
                    after = items[items.index(errs[0]) + 1:]
                    if any(not x.startswith('N') for x in after):
                        v.append({'what': 'typed-stream-not-fused', 'cfg': cfg, 'line': ln, 'expected': 'None forever after a terminal error', 'actual': a, 'shrinkable': False})
        ctx.violations += v
        for tyt, s, k in streams[:2]:
            ctx.sample({'op': 'ptk', 'ty': tyt, 'stream_hex': hx(s), 'items': k, 'cfg': cfg, 'checked': 'every cut point'})

# ================================================================== typed clause of C12: long typed streams (history-dependent state)
def judge_typed_stream_errors(ctx, cfg):
    """a typed stream meeting an item of the WRONG SHAPE (a data error raised without consuming the item: `[` for a scalar target, `{` for a sequence ...), a
    syntax error or a cut item: the error is yielded ONCE, every later call is None (the iterator of a finite input terminates), as the model says"""
    L = ctx.letters(cfg)
    cases = [('n2', b'1 2 [3] 4'), ('n2', b'['), ('n2', b'{'), ('b', b'true {"a":1} false'), ('s', b'"x" [1] "y"'), ('d', b'1.5 {} 2'), ('u', b'null [] null'),
             ('on0', b'1 [2] 3'), ('an0', b'[1] {"a":1} [2]'), ('msn0', b'{"k":1} [1] {"k":2}'), ('S(61:n0)', b'{"a":1} "s" {"a":2}'), ('t(n0,n0)', b'[1,2] {"a":1} [3,4]'),
             ('E(41:wn0,43:u)', b'"C" [1] "C"'), ('n0', b'1 300 2'), ('n0', b'1 -1 2'), ('n2', b'1 2 tru'), ('n2', b'1 2 "x'), ('wn2', b'7 [8] 9'), ('c', b'"a" "bc" "d"')]
    lines = ['ptk %s %s %s %d %s' % (L, src, ty, 8, hx(doc)) for ty, doc in cases for src in ('b', 'r1', 's')]
    io, mo = ctx.both(cfg, lines, impl_name=IMPL, model_name=MODEL)
    v = []
    for ln, a, m in zip(lines, io, mo):
        if a == 'SKIP':
            continue
        items = a.split(' ')
        k = next((i for i, x in enumerate(items) if not x.startswith('V')), len(items))
        tail = items[k + 1:] if k < len(items) and not items[k].startswith('N') else items[k:]
        if len(items) != 8 or not all(x.startswith('N') for x in tail):
            v.append({'what': 'typed-stream-does-not-end-after-error', 'cfg': cfg, 'line': ln, 'expected': 'values, at most one error, then None for ever', 'actual': a[:300], 'shrinkable': False})
        elif m not in ('NOMODEL', 'SKIP') and m.split(' ')[:k + 1] != items[:k + 1]:
            # (compared up to and including the error item: byte_offset() after a terminal error is outside the property's claim, see DESIGN.md C12)
            v.append({'what': 'typed-stream-history', 'cfg': cfg, 'line': ln, 'expected': 'proved model: ' + m[:300], 'actual': a[:300], 'shrinkable': False})
        else:
            ctx.distinct_nontrivial += 1
    ctx.count('typed-stream-error-histories', len(lines))
    return v

def run_c12_typed(ctx):
    """StreamDeserializer over TYPED items: long histories (up to 300 items) of every container / variant kind — each item is yielded once, as a value,
    with byte_offset() at its end, then None; nothing carried from item to item (recursion budget, scratch) may leak. Histories equal the model's."""
    fams = [
        ('E(41:wn0,42:S(78:n0),43:u,44:t(n0,n0))', lambda i: b'{"A":%d}' % (i % 200)),
        ('E(41:wn0,42:S(78:n0),43:u,44:t(n0,n0))', lambda i: b'{"B":{"x":%d}}' % (i % 200)),
        ('E(41:wn0,42:S(78:n0),43:u,44:t(n0,n0))', lambda i: b'{"D":[%d,1]}' % (i % 200)),
        ('E(41:wn0,42:S(78:n0),43:u,44:t(n0,n0))', lambda i: b'"C"'),
        ('an0', lambda i: b'[%d]' % (i % 200)),
        ('msn0', lambda i: b'{"k":%d}' % (i % 200)),
        ('S(61:n0)', lambda i: b'{"a":%d}' % (i % 200)),
        ('S(61:n0)', lambda i: b'[%d]' % (i % 200)),
        ('t(n0,n0)', lambda i: b'[%d,2]' % (i % 200)),
        ('oan0', lambda i: b'[%d]' % (i % 200)),
        ('wan0', lambda i: b'[%d]' % (i % 200)),
        ('s', lambda i: b'"a\\n%d"' % i),                                   # strings with escapes (scratch)
        ('d', lambda i: b'0.1234567890123456789012%d' % (i % 10)),
        ('f', lambda i: b'0.1234567890123456789012%d' % (i % 10)),           # long literals (scratch under float_roundtrip)
        ('ad', lambda i: b'[2.718281828459045235360287471352,0.1234567890123456789012,0.3333333333333333333333333]'),
    ]
    for cfg in ctx.cfgs:
        L = ctx.letters(cfg)
        v = []
        lines, meta = [], []
        for ty, f in fams:
            for n in ((127, 128, 300) if ctx.tier == 'quick' else (1, 2, 126, 127, 128, 129, 300, 1000)):
                for sep in (b' ', b'\n'):
                    parts = [f(i) for i in range(n)]
                    doc = sep.join(parts)
                    ends, o = [], 0
                    for q in parts:
                        o += len(q)
                        ends.append(o)
                        o += len(sep)
                    for src in ('b', 'r1', 's'):
                        lines.append('ptk %s %s %s %d %s' % (L, src, ty, n + 2, hx(doc)))
                        meta.append((ty, n, ends, len(doc)))
        io, mo = ctx.both(cfg, lines, impl_name=IMPL, model_name=MODEL)
        for (ty, n, ends, total), ln, a, m in zip(meta, lines, io, mo):
            if a == 'SKIP':
                continue
            short = ln if len(ln) < 400 else ln[:200] + '...(%d items)' % n
            items = a.split(' ')
            okshape = len(items) == n + 2 and all(x.startswith('V') for x in items[:n]) and all(x.startswith('N') for x in items[n:])
            if okshape:
                offs = [int(x.rsplit('@', 1)[1]) for x in items]
                okshape = offs[:n] == ends and all(o == total for o in offs[n:])
            if not okshape:
                v.append({'what': 'typed-stream-long-history', 'cfg': cfg, 'line': short, 'type': ty, 'expected': '%d values with byte_offset at the end of each item, then None' % n,
                          'actual': a[:300] + (' ...' + a[-200:] if len(a) > 500 else ''), 'shrinkable': False})
            elif m not in ('NOMODEL', 'SKIP') and m != a:
                v.append({'what': 'typed-stream-history', 'cfg': cfg, 'line': short, 'expected': 'proved model: ' + m[:300], 'actual': a[:300], 'shrinkable': False})
            else:
                ctx.distinct_nontrivial += 1
        ctx.violations += v
        ctx.violations += judge_typed_stream_errors(ctx, cfg)
        ctx.sample({'op': 'ptk long histories', 'cfg': cfg, 'families': len(fams), 'lines': len(lines)})

# ================================================================== typed clause of C14: depth limit for every typed entry point
LEVELS = {  # kind -> (levels consumed, ty wrapper, document wrapper)
    'a': (1, lambda t: 'a' + t, lambda d: b'[' + d + b']'),
    'm': (1, lambda t: 'ms' + t, lambda d: b'{"k":' + d + b'}'),
    'mi': (1, lambda t: 'mi0' + t, lambda d: b'{"1":' + d + b'}'),
    'S': (1, lambda t: 'S(61:' + t + ')', lambda d: b'{"a":' + d + b'}'),
    'Sx': (1, lambda t: 'S(61:' + t + ')', lambda d: b'{"zz":[[[{"q":[]}]]],"a":' + d + b'}'),
    'Sp': (1, lambda t: 'S(61:' + t + ')', lambda d: b'[' + d + b']'),
    't': (1, lambda t: 't(' + t + ')', lambda d: b'[' + d + b']'),
    'T': (1, lambda t: 'T(b' + t + ')', lambda d: b'[true,' + d + b']'),
    'E': (1, lambda t: 'E(56:w' + t + ')', lambda d: b'{"V":' + d + b'}'),
    'Et': (2, lambda t: 'E(56:t(' + t + '))', lambda d: b'{"V":[' + d + b']}'),
    'ES': (2, lambda t: 'E(56:S(61:' + t + '))', lambda d: b'{"V":{"a":' + d + b'}}'),
    'o': (0, lambda t: 'o' + t, lambda d: d),
    'w': (0, lambda t: 'w' + t, lambda d: d),
}

def build_nest(kinds, leaf_ty='i0', leaf_doc=b'1'):
    t, d, n = leaf_ty, leaf_doc, 0
    for k in reversed(kinds):
        lv, wt, wd = LEVELS[k]
        t, d, n = wt(t), wd(d), n + lv
    return t, d, n

def depth_profiles(ctx):
    rng = ctx.rng
    out = []
    pure = ['a', 'm', 'mi', 'S', 'Sp', 't', 'T', 'E', 'Sx']
    for total in (126, 127, 128, 129):
        for k in pure:
            out.append(build_nest([k] * total))
        for k in ('Et', 'ES'):
            out.append(build_nest([k] * (total // 2) + (['a'] if total % 2 else [])))
        for pat in (['a', 'm'], ['E', 'a'], ['S', 'E', 't'], ['o', 'a', 'w', 'E']):
            kinds = []
            n = 0
            i = 0
            while n < total:
                kinds.append(pat[i % len(pat)])
                n += LEVELS[pat[i % len(pat)]][0]
                i += 1
            out.append(build_nest(kinds))
        for _ in range(4 if ctx.tier == 'quick' else 20):
            kinds = []
            n = 0
            while n < total:
                k = rng.choice(list(LEVELS))
                if n + LEVELS[k][0] > total:
                    continue
                kinds.append(k)
                n += LEVELS[k][0]
            out.append(build_nest(kinds))
        # the innermost levels untyped (Value) / the typed part on top of an untyped remainder
        for k in (1, 60, 120):
            rest = total - k
            seq = ''.join(rng.choice('[{') for _ in range(rest))
            t, d, n = build_nest([rng.choice(pure) for _ in range(k)], 'v', gen.nested(seq, b'1'))
            out.append((t, d, n + rest))
    return out

def run_c14_typed(ctx):
    """typed containers / enum wrappers nested 126..129 deep: accepted up to 127, RecursionLimitExceeded beyond; skipped content at any depth"""
    for cfg in ctx.cfgs:
        ctx.violations += judge_typed_stream_errors(ctx, cfg)
        L = ctx.letters(cfg)
        profs = depth_profiles(ctx)
        v = []
        for src in ('b', 'r1'):
            lines = ['pt %s %s %s %s' % (L, src, t, hx(d)) for t, d, n in profs]
            io, mo = judge_lines(ctx, cfg, lines, v)
            for (t, d, n), a in zip(profs, io):
                want_ok = n <= 127
                if is_ok(a) != want_ok or (not want_ok and 'RecLimit' not in a):
                    v.append({'what': 'typed-depth-limit', 'cfg': cfg, 'ty': t[:80], 'input': hx(d), 'src': src,
                              'expected': 'accepted iff nesting <= 127 (here %d), otherwise a recursion-limit error' % n, 'actual': a, 'shrinkable': False})
                else:
                    ctx.distinct_nontrivial += 1
        if cfg == 'ud':
            # unbounded_depth with the limit disabled: the same profiles are all accepted (and equal the model)
            LU = ctx.letters(cfg, unlimited=True)
            lines = ['pt %s b %s %s' % (LU, t, hx(d)) for t, d, n in profs]
            io, mo = judge_lines(ctx, cfg, lines, v)
            for (t, d, n), a in zip(profs, io):
                if not is_ok(a):
                    v.append({'what': 'typed-unbounded-depth-rejected', 'cfg': cfg, 'ty': t[:80], 'input': hx(d), 'expected': 'ok with the limit disabled (nesting %d)' % n, 'actual': a, 'shrinkable': False})
        # skipped content (unknown field, IgnoredAny member) is scanned iteratively: any depth
        deep = [('S(61:i0)', b'{"zz":' + b'[' * 5000 + b']' * 5000 + b',"a":1}'), ('t(gi0)', b'[' + b'{"k":' * 3000 + b'1' + b'}' * 3000 + b',2]'),
                ('ag', b'[' + b'[' * 100000 + b']' * 100000 + b']')]
        outs = ctx.impl(cfg, ['pt %s b %s %s' % (L, t, hx(d)) for t, d in deep], name=IMPL)
        for (t, d), a in zip(deep, outs):
            if not is_ok(a):
                v.append({'what': 'typed-skip-not-iterative', 'cfg': cfg, 'ty': t, 'input': 'len=%d' % len(d), 'expected': 'ok', 'actual': a, 'shrinkable': False})
        # hostile input to typed targets: no panic
        rng = ctx.rng
        junk = [(rng.choice(FIXED_TYS), bytes(rng.randrange(256) for _ in range(rng.randrange(1, 30)))) for _ in range(20000 if ctx.tier == 'quick' else 200000)]
        junk += [(t, d.decode('latin-1').encode('utf-8')) for t, d in junk[:len(junk) // 2]]
        for src in ('b', 'r1', 's'):
            outs = ctx.impl(cfg, ['pt %s %s %s %s' % (L, src, t, hx(d)) for t, d in junk], name=IMPL)
            for (t, d), a in zip(junk, outs):
                if a == 'PANIC' or a.startswith('CRASH') or a == '':
                    v.append({'what': 'typed-panic-or-crash', 'cfg': cfg, 'ty': t, 'input': hx(d), 'src': src, 'expected': 'a value or an error', 'actual': a, 'shrinkable': False})
        ctx.violations += v
        for t, d, n in profs[:2]:
            ctx.sample({'ty': t[:60] + '...', 'nesting': n, 'cfg': cfg})

# ================================================================== typed clause of C04: serialise then deserialise is the identity
def run_c04_typed(ctx):
    """random data of random types: universal Serialize -> text through to_string/to_vec/to_writer and the pretty printers,
    read back through the universal seed from str/slice/readers; all 24 paths must give the original datum
    (Some of a null-printing datum reads back as None)"""
    for cfg in ctx.cfgs:
        L = ctx.letters(cfg)
        ctx.letters_now = L
        feats = engine.CONFIGS[cfg][0]
        rng = ctx.rng
        opts = ('nog', 'noz') + (('raw',) if 'raw_value' in feats else ())
        n = 6000 if ctx.tier == 'quick' else 60000
        cases = []
        FLOAT_FILTER[0] = 'float_roundtrip' not in feats
        try:
            for _ in range(n):
                t = rand_ty(rng, rng.choice([0, 1, 2, 2, 3, 3, 4]), opts)
                d = rand_dval(rng, t, L)
                cases.append((t, d))
        finally:
            FLOAT_FILTER[0] = False
        lines = ['rt %s %s %s' % (L, enc_ty(t), enc_dval(d)) for t, d in cases]
        outs = ctx.impl(cfg, lines, name=IMPL)
        v = []
        for (t, d), ln, a in zip(cases, lines, outs):
            want = enc_dval(expected(t, d))
            f = a.split(' ')
            if f[0] != 'ok' or f[1] != want:
                v.append({'what': 'typed-roundtrip', 'cfg': cfg, 'line': ln, 'expected': 'ok ' + want, 'actual': a[:600], 'shrinkable': False})
            else:
                ctx.distinct_nontrivial += 1
                ctx.count('roundtrip-top:' + t[0])
        ctx.violations += v
        # tie of Model/SerTyped.v (sval_of_dval: what the C04_typed theorems call "the serialised datum") to the harness's universal Serialize:
        # the model re-reads the implementation's own compact text at the type, maps the datum to its tree of Serializer calls and prints it —
        # it must reproduce that text (float-free types: no ryu text needed on the model side)
        if ctx.model_ok and os.path.exists(os.path.join(engine.VERIF, 'ocaml', 'sjdriver_rt')):
            sel = []
            for (t, d), a in zip(cases, outs):
                f = a.split(' ')
                if f[0] == 'ok' and len(f) == 3:
                    bare = re.sub(r'[syzer][0-9a-f]*', '', f[1])          # drop hex payloads (strings, bytes, names, raw text)
                    if not any(ch in bare for ch in 'dvg') and 'r' not in re.sub(r'[syze][0-9a-f]*', '', f[1]):
                        sel.append((t, f[2]))
            mouts = ctx.model(['rtm %s %s %s' % (L, enc_ty(t), h) for t, h in sel], 'sjdriver_rt')
            for (t, h), m in zip(sel, mouts):
                if m != 'ok ' + h:
                    ctx.violations.append({'what': 'universal-serialize-differs-from-SerTyped-model', 'cfg': cfg, 'type': enc_ty(t), 'input': h,
                                           'expected': 'the model reproduces the text the harness printed: ok ' + h[:200], 'actual': m[:300], 'shrinkable': False})
            ctx.count('sertyped-model-lines', len(sel))
        for ln in lines[:3]:
            ctx.sample({'case': ln[:300], 'cfg': cfg})

TYPED_TB = ['the universal DeserializeSeed / Serialize of harness/src/bin/sjh_typed.rs stand for "every type T" (DESIGN.md A.7); compared with #[derive(Deserialize)] types on nine shapes',
            'modelled, not verified: str::parse::<i128/u128> (digits, optional sign, value must fit), `as f32` / `as f64` casts (round to nearest even, Flocq binary_normalize)',
            'f32 targets under float_roundtrip (lexical single-precision path) are outside the model: implementation-only checks there',
            'deserialisation through a Value (from_value) is checked directly against big-integer arithmetic, not against a Coq model']

register('C06', cfgs={'quick': ['def'], 'thorough': ['def', 'ap']}, side_cfgs=['ap'], run=run_c06, judge=judge_c06_single, extended=run_c06, trusted_base=TYPED_TB)
