"""Parser-family properties: C01 C02 C09 C10 C11 C12 C13 C14 C19 (Value / IgnoredAny / RawValue / streams)."""
import itertools, random, collections, re
import engine, gen
from gen import hx
from checks import register, Ctx, log

# ------------------------------------------------------------------ helpers
def pos_of(data, idx):
    idx = min(idx, len(data))
    pre = data[:idx]
    nl = pre.count(b'\n')
    last = pre.rfind(b'\n')
    return 1 + nl, idx - (last + 1)

def idx_of(data, line, col):
    """byte index denoted by (line, col); None if no such position"""
    start = 0
    for _ in range(line - 1):
        j = data.find(b'\n', start)
        if j < 0:
            return None
        start = j + 1
    return start + col

def is_ok(o):
    return o.startswith('ok')

def err_fields(o):
    f = o.split(' ')
    if f[0] != 'err':
        return None
    if f[1] == 'Io':
        return {'code': 'Io', 'cat': 'io', 'kind': f[3]}
    return {'code': f[1], 'cat': f[2], 'line': int(f[3]), 'col': int(f[4])}

def chunks(it, n):
    buf = []
    for x in it:
        buf.append(x)
        if len(buf) >= n:
            yield buf
            buf = []
    if buf:
        yield buf

def space_inputs(ctx, quick_extra=200000):
    """the exhaustive token space + random longer sequences + documents and their mutations"""
    rng = ctx.rng
    if ctx.tier == 'quick':
        for x in gen.enum_tokens(4):
            yield x
    else:
        for x in gen.enum_tokens(4):
            yield x
        for x in gen.enum_tokens(5, gen.MID_TOKENS, 5):
            yield x
        for x in gen.enum_tokens(6, gen.STRUCT_TOKENS, 6):
            yield x
    n_rand = 100000 if ctx.tier == 'quick' else 600000
    for _ in range(n_rand):
        yield gen.rand_token_seq(rng, rng.randrange(5, 12))
    for x in doc_inputs(ctx):
        yield x
    for x in gen.number_literals(rng, 2000 if ctx.tier == 'quick' else 20000):
        yield x
        if rng.random() < 0.1:
            yield b'[' + x + b', ' + x + b']'

def doc_inputs(ctx, ndocs=None, mut_per_doc=40):
    rng = ctx.rng
    ndocs = ndocs or (1500 if ctx.tier == 'quick' else 12000)
    for i in range(ndocs):
        d = gen.rand_top(rng, depth=rng.choice([1, 2, 3, 4]))
        yield d
        if i % 3 == 0:
            for m in gen.mutations(rng, d, maxn=mut_per_doc):
                yield m

def note_dist(ctx, data_list):
    for d in data_list[:20000:7]:
        ctx.count('len<=4' if len(d) <= 4 else 'len<=16' if len(d) <= 16 else 'len<=64' if len(d) <= 64 else 'len>64')

def nontrivial(out):
    """outcome reached beyond the first two bytes: accepted, or error at column/line beyond the start"""
    if out.startswith('ok'):
        return True
    e = err_fields(out)
    return bool(e) and (e.get('cat') == 'io' or e['line'] > 1 or e['col'] > 2)

def tally(ctx, inputs, outs):
    ctx.distinct_nontrivial += sum(1 for o in outs if nontrivial(o))
    for o in outs[:50000:11]:
        f = o.split(' ')
        ctx.count('outcome:' + (f[0] if f[0] != 'err' else 'err-' + f[2]))

SRC_QUICK = ['b', 'r1']
SRC_ALL = ['b', 'r1', 'r2', 'r3', 'r7', 'rx3', 'rx11']

# ================================================================== C01 / C02 / C11: model is the spec's verdict
def judge_c01(ctx, cfg, inputs, aux=None):
    L = ctx.letters(cfg, unlimited=False)
    lines = ['pv %s b %s' % (L, hx(d)) for d in inputs]
    io, mo = ctx.both(cfg, lines)
    if not ctx.quiet:
        tally(ctx, inputs, io)
    v = []
    for d, a, m in zip(inputs, io, mo):
        if a in ('PANIC',) or a.startswith('CRASH'):
            v.append({'what': 'crash', 'cfg': cfg, 'input': hx(d), 'expected': m, 'actual': a})
        elif is_ok(a) != is_ok(m):
            v.append({'what': 'accepts-non-json' if is_ok(a) else 'rejects-json', 'cfg': cfg, 'input': hx(d),
                      'expected': 'spec (proved model): ' + m, 'actual': a, 'op': 'from_slice::<Value>'})
        elif a != m:
            ctx.disagreements.append({'input': hx(d), 'impl': a, 'model': m, 'cfg': cfg})
    return v

def run_c01(ctx):
    ctx.rule = ('exhaustive token sequences up to 4 tokens over a 41-token structural alphabet (thorough: also 5 tokens over 24, '
                '6 over 12), random 5-11 token sequences, generated documents and their single-byte/structural mutations; '
                'each run through from_slice::<Value> and the extracted Coq model; a sample also through from_str and from_reader; '
                'non-trivial = accepted, or rejected beyond column 2')
    for cfg in ctx.cfgs:
        for batch in chunks(space_inputs(ctx), 400000):
            note_dist(ctx, batch)
            ctx.violations += judge_c01(ctx, cfg, batch)
            for d in batch[:3]:
                ctx.sample({'op': 'pv', 'cfg': cfg, 'input_hex': hx(d)})
        # entry points: the same verdict from &str and reader input on a sample
        sample = [d for d in itertools.islice(space_inputs(ctx), 0, 3000000, 23)] + gen.escape_docs() + gen.hex_position_docs()
        ctx.violations += judge_c01(ctx, cfg, gen.escape_docs() + gen.hex_position_docs())
        ctx.violations += judge_sources(ctx, cfg, sample, ops=('pv',), srcs=['s', 'b', 'r1', 'rx5'], what_prefix='c01-')
        # depth clause: 127 levels accepted, 128 rejected, for every bracket mix
        ctx.violations += judge_depth(ctx, cfg)
    for cfg in [c for c in getattr(ctx, 'side_cfgs', []) if c == 'fr' and c not in ctx.cfgs]:
        # float_roundtrip as a side configuration of the quick tier: the long-mantissa / long-exponent number paths exist only there
        lits = gen.number_literals(ctx.rng, 1500)
        docs = lits + [b'[' + x + b']' for x in lits[::7]]
        ctx.violations += judge_c01(ctx, cfg, docs)
        ctx.violations += judge_state_isolation(ctx, cfg, 800)
    for cfg in [c for c in getattr(ctx, 'side_cfgs', []) if c == 'fr' and c not in ctx.cfgs]:
        # float_roundtrip: long literals after other work of the same Deserializer (shared scratch buffer): valid JSON must stay accepted
        ctx.violations += judge_c01(ctx, cfg, list(long_literal_docs(ctx.rng)))
    ctx.violations += judge_private_tokens(ctx, acceptance_only=True)

# ---- the private token keys (finding F23): with arbitrary_precision / raw_value an object whose FIRST key is the crate's private token is not read as an object
NUM_TOKEN = b'$serde_json::private::Number'
RAW_TOKEN = b'$serde_json::private::RawValue'

def private_token_docs():
    out = []
    for tok in (NUM_TOKEN, RAW_TOKEN):
        k = b'"' + tok + b'"'
        for val in (b'"12"', b'"-0.50e1"', b'"abc"', b'12', b'null', b'"[1, 2]"', b'"nonsense"', b'[1]', b'{}', b'""'):
            out.append(b'{' + k + b':' + val + b'}')
            out.append(b'[{' + k + b':' + val + b'}]')
            out.append(b'{"a":{' + k + b':' + val + b'}}')
            out.append(b'{' + k + b':' + val + b',"x":1}')          # token first, more keys
            out.append(b'{"x":1,' + k + b':' + val + b'}')          # token not first: an ordinary key everywhere
            out.append(b' {\n' + k + b' : ' + val + b' } ')
        out.append(b'{"' + tok + b'x":"12"}')                       # near misses: ordinary keys
        out.append(b'{"' + tok[1:] + b'":"12"}')
        out.append(b'"' + tok + b'"')
        out.append(b'["' + tok + b'","12"]')
    return out

def judge_private_tokens(ctx, acceptance_only):
    """C01 (acceptance_only) / C02: documents whose objects carry the private token keys, in every configuration of the check and in the ap / raw builds.
    Where the feature is off, and wherever the token is not an object's first key, they are ordinary objects (equal to the model); where it is on, the
    reinterpretation is the KNOWN finding F23 (the model has no such branch: Value parsing is modelled without the in-band tokens)."""
    v = []
    docs = private_token_docs()
    for cfg in list(ctx.cfgs) + list(getattr(ctx, 'side_cfgs', [])):
        feats = engine.CONFIGS[cfg][0]
        L = ctx.letters(cfg)
        for src in ('b', 'r1', 's'):
            lines = ['pv %s %s %s' % (L, src, hx(d)) for d in docs]
            io, mo = ctx.both(cfg, lines)
            for d, a, m in zip(docs, io, mo):
                if m == 'NOMODEL' or a == m:
                    ctx.distinct_nontrivial += 1
                    continue
                first_key = lambda tok: (b'{"' + tok + b'"') in d.replace(b' ', b'').replace(b'\n', b'')
                active = ('arbitrary_precision' in feats and first_key(NUM_TOKEN)) or ('raw_value' in feats and first_key(RAW_TOKEN))
                if acceptance_only and is_ok(a) == is_ok(m):
                    continue
                if active:
                    what = 'private-token-key-rejected' if acceptance_only else 'private-token-key-reinterpreted'
                else:
                    what = 'private-token-docs-acceptance' if acceptance_only else 'private-token-docs-value'
                v.append({'what': what, 'cfg': cfg, 'input': hx(d), 'src': src, 'expected': 'as an ordinary JSON object (model / RFC 8259): ' + m, 'actual': a, 'shrinkable': False})
    ctx.count('private-token documents', len(docs))
    # the token-aware model (Model/DeTok.v, proved conservative over Model/De.v on token-free texts: C02_detok_conservative): in EVERY configuration the real
    # crate must do exactly what it predicts on token documents (nested, escaped spellings of the key, bad payloads, members before / after, truncations)
    import detok_gen as G
    tdocs = [d for _, d in G.gen_docs(ctx.rng, 600 if ctx.tier == 'quick' else 6000)]
    for cfg in list(ctx.cfgs) + list(getattr(ctx, 'side_cfgs', [])):
        feats = engine.CONFIGS[cfg][0]
        if 'arbitrary_precision' in feats and 'raw_value' in feats:
            continue
        L = ctx.letters(cfg)
        rawf = 'r' if 'raw_value' in feats else '-'
        for src in ('b', 'r1'):
            io = ctx.impl(cfg, ['pv %s %s %s' % (L, src, hx(d)) for d in tdocs])
            mo = ctx.model(['pv %s %s %s %s' % (L.replace('u', '') or '-', rawf, src, hx(d)) for d in tdocs], name='sjdriver_detok')
            for d, a, m in zip(tdocs, io, mo):
                if m == 'NOMODEL':
                    continue
                if acceptance_only and is_ok(a) == is_ok(m):
                    ctx.distinct_nontrivial += 1
                elif a == m:
                    ctx.distinct_nontrivial += 1
                else:
                    v.append({'what': 'private-token-behaviour-differs-from-token-model', 'cfg': cfg, 'input': hx(d), 'src': src,
                              'expected': 'Model/DeTok.v: ' + m[:300], 'actual': a[:300], 'shrinkable': False})
    ctx.count('private-token documents vs token model', len(tdocs))
    return v

def judge_depth(ctx, cfg, aux=None):
    rng = ctx.rng
    docs = []
    for total in (126, 127, 128, 129):
        for pattern in ('[', '{', '[{', '{[', 'r'):
            if pattern == 'r':
                seq = ''.join(rng.choice('[{') for _ in range(total))
            else:
                seq = (pattern * total)[:total]
            docs.append((total, gen.nested(seq, b'1')))
            docs.append((total, gen.nested(seq, b'')) if seq.endswith('[') else (total, gen.nested(seq, b'"x"')))
    unlimited = False
    L = ctx.letters(cfg, unlimited)
    v = []
    for src in ('b', 'r1'):
        lines = ['pv %s %s %s' % (L, src, hx(d)) for _, d in docs]
        io, mo = ctx.both(cfg, lines)
        for (total, d), a, m in zip(docs, io, mo):
            want_ok = total <= 127
            if is_ok(a) != want_ok or (not want_ok and 'RecLimit' not in a):
                v.append({'what': 'depth-limit', 'cfg': cfg, 'input': hx(d), 'expected': 'accepted iff nesting <= 127 (nesting here: %d), otherwise recursion limit exceeded' % total,
                          'actual': a, 'shrinkable': False})
            elif a != m:
                v.append({'what': 'depth-position', 'cfg': cfg, 'input': hx(d), 'expected': m, 'actual': a, 'shrinkable': False})
    return v

def judge_c02(ctx, cfg, inputs, aux=None):
    L = ctx.letters(cfg)
    lines = ['pv %s b %s' % (L, hx(d)) for d in inputs]
    io, mo = ctx.both(cfg, lines)
    if not ctx.quiet:
        tally(ctx, inputs, io)
    v = []
    for d, a, m in zip(inputs, io, mo):
        if is_ok(a) and is_ok(m) and a != m:
            v.append({'what': 'wrong-value', 'cfg': cfg, 'input': hx(d), 'expected': 'denotation (proved model): ' + m, 'actual': a})
        elif a != m:
            ctx.disagreements.append({'input': hx(d), 'impl': a, 'model': m, 'cfg': cfg})
    return v

def value_docs(ctx, n):
    rng = ctx.rng
    for _ in range(n):
        yield gen.rand_top(rng, depth=rng.choice([1, 2, 3, 4, 5]), floats=True)
    # integer boundaries and number spellings
    for base in [0, 1, 2**31, 2**32, 2**53, 2**63, 2**64, 10**19, 10**20]:
        for dlt in range(-3, 4):
            n_ = base + dlt
            for s in (str(n_), '-' + str(abs(n_))):
                yield s.encode()
                yield ('[' + s + ', ' + s + '.0, ' + s + 'e0]').encode()
    for x in gen.number_literals(rng, 2000):
        yield x
    for s in [b'-0', b'-0.0', b'0e0', b'[-0]', b'{"a":1,"a":2}', b'{"b":1,"a":2,"b":3}', b'{"a":{"a":1,"a":[]},"":0}']:
        yield s
    for s in gen.escape_docs():
        yield s
    for s in gen.big_dup_objects(rng):
        yield s

LONG_LITS = [b'9007199254740993.0001', b'-9007199254740993.0005', b'18014398509481986.0001', b'1.00000000000000011103', b'1844674407370955161.6', b'0.00987654321098765432109',
             b'3.14159265358979323846264', b'0.12345678901234567890123', b'123456789012345678901234567890', b'0.000000000000000000001234567890123456789', b'1.7976931348623157e308',
             b'2.2250738585072011e-308', b'0.1000000000000000055511151231257827', b'4.35', b'1e23', b'8.41e21', b'9007199254740992.99999999999']

def long_literal_docs(rng):
    dirt = [b'"tab\\there"', b'"\\u0037\\u0037"', b'123456789012345678901234567890', b'"plain"', b'{"2024":1}', b'[[1,2],"x"]', b'0.5']
    for l in LONG_LITS:
        yield l
        yield b'[' + l + b']'
        yield b'{"k": ' + l + b'}'
        for d in dirt:
            yield b'[' + d + b', ' + l + b']'
            yield b'{"a": ' + d + b', "pi": ' + l + b'}'
    for _ in range(300):
        m = str(rng.randrange(10 ** 19, 10 ** rng.randrange(20, 30)))
        k = rng.randrange(0, len(m))
        l = ((m[:k] or '0') + '.' + ('0' * rng.choice([0, 0, 1, 3]) + m[k:])).encode() + rng.choice([b'', b'e-5', b'E+3'])
        yield b'[' + rng.choice(dirt) + b', ' + l + b']'

def run_c02(ctx):
    ctx.rule = ('generated valid documents (all value kinds, whitespace placements, escape spellings, duplicate keys, number spellings, '
                'integer boundaries) plus the exhaustive 4-token space; value printed canonically (floats as bit patterns, objects in iteration order) '
                'and compared with the denotation computed by the extracted Coq model; non-trivial = accepted documents')
    for cfg in ctx.cfgs:
        n = 20000 if ctx.tier == 'quick' else 200000
        for batch in chunks(itertools.chain(value_docs(ctx, n), gen.enum_tokens(4)), 400000):
            note_dist(ctx, batch)
            ctx.violations += judge_c02(ctx, cfg, batch)
            for d in batch[:3]:
                ctx.sample({'op': 'pv', 'cfg': cfg, 'input_hex': hx(d)})
        docs = list(value_docs(ctx, 3000))
        ctx.violations += judge_sources(ctx, cfg, docs, ops=('pv',), srcs=['s', 'b', 'r1', 'rx5'], what_prefix='c02-')
        ctx.violations += judge_entry_points(ctx, cfg, docs + list(itertools.islice(gen.enum_tokens(3), 0, None, 5)))
        ctx.violations += judge_state_isolation(ctx, cfg, 1500 if ctx.tier == 'quick' else 15000)
    for cfg in [c for c in getattr(ctx, 'side_cfgs', []) if c == 'fr' and c not in ctx.cfgs]:
        ctx.violations += judge_state_isolation(ctx, cfg, 1500)
        # float_roundtrip: long literals (the 20th / 21st significant digit decides; leading fraction zeros; > 19 digit integers) alone and AFTER other work
        # of the same Deserializer that leaves bytes in the shared scratch buffer (escaped strings, long numbers, keys on reader input)
        ctx.violations += judge_c02(ctx, cfg, list(long_literal_docs(ctx.rng)))
    for cfg in [c for c in getattr(ctx, 'side_cfgs', []) if c == 'ap' and c not in ctx.cfgs]:
        # arbitrary_precision side configuration: every number literal of a document must be held verbatim (model: NLit of exactly its text)
        lits = gen.number_literals(ctx.rng, 600)
        docs = lits[::3] + [b'[' + x + b', ' + y + b']' for x, y in zip(lits[::11], lits[5::11])] + [b'{"k":' + x + b'}' for x in lits[::13]]
        ctx.violations += judge_c02(ctx, cfg, docs)
    ctx.violations += judge_private_tokens(ctx, acceptance_only=False)

def judge_c11(ctx, cfg, inputs, aux=None):
    L = ctx.letters(cfg)
    v = []
    for op in ('pv', 'pi'):
        lines = ['%s %s b %s' % (op, L, hx(d)) for d in inputs]
        io, mo = ctx.both(cfg, lines)
        if not ctx.quiet:
            tally(ctx, inputs, io)
        for d, a, m in zip(inputs, io, mo):
            e = err_fields(a)
            if not e or e['cat'] == 'io':
                continue
            idx = idx_of(d, e['line'], e['col'])
            if idx is None or idx > len(d) or pos_of(d, idx) != (e['line'], e['col']):
                v.append({'what': 'position-outside-input', 'cfg': cfg, 'input': hx(d), 'op': op, 'expected': 'a position within the input', 'actual': a})
                continue
            if e['cat'] == 'eof' and idx != len(d):
                v.append({'what': 'eof-not-at-end', 'cfg': cfg, 'input': hx(d), 'op': op, 'expected': 'position of end of input %r' % (pos_of(d, len(d)),), 'actual': a})
                continue
            em = err_fields(m)
            if em and e['cat'] in ('syntax', 'eof') and (e['line'], e['col'], e['cat']) != (em.get('line'), em.get('col'), em.get('cat')):
                v.append({'what': 'wrong-position', 'cfg': cfg, 'input': hx(d), 'op': op, 'expected': 'first offending byte per the proved model: ' + m, 'actual': a})
            elif a != m:
                ctx.disagreements.append({'input': hx(d), 'impl': a, 'model': m, 'cfg': cfg, 'op': op})
    return v

def multiline_mutants(ctx, n):
    rng = ctx.rng
    for _ in range(n):
        d = gen.rand_top(rng, depth=rng.choice([2, 3, 4]))
        # make it multi-line
        d = d.replace(b',', b',\n', rng.randrange(0, 4))
        for m in gen.mutations(rng, d, maxn=60):
            yield m

def run_c11(ctx):
    ctx.rule = ('exhaustive 4-token space (newline in the alphabet) and every single-byte substitution/insertion/deletion of generated multi-line '
                'documents, into Value and IgnoredAny; reported line/column compared with the model (proved: first byte after which no continuation is valid), '
                'plus direct checks: position within input, Eof at end of input; non-trivial = error beyond column 2 or on a later line')
    for cfg in ctx.cfgs:
        n = 600 if ctx.tier == 'quick' else 6000
        for batch in chunks(itertools.chain(gen.enum_tokens(4), multiline_mutants(ctx, n), gen.depth_docs(ctx.rng), gen.escape_docs(), gen.number_literals(ctx.rng, 300)), 400000):
            note_dist(ctx, batch)
            ctx.violations += judge_c11(ctx, cfg, batch)
            for d in batch[:3]:
                ctx.sample({'op': 'pv/pi', 'cfg': cfg, 'input_hex': hx(d)})
        sample = list(itertools.islice(multiline_mutants(ctx, 200), 0, 20000))
        ctx.violations += judge_sources(ctx, cfg, sample, ops=('pv', 'pi'), srcs=['s', 'b', 'r1', 's+m', 'b+m', 'r1+m'], what_prefix='c11-')
        ctx.violations += judge_pos(ctx, cfg, 20000 if ctx.tier == 'quick' else 300000)
    for cfg in [c for c in getattr(ctx, 'side_cfgs', []) if c not in ctx.cfgs]:
        # feature-gated number scanners (arbitrary_precision: scan_*; float_roundtrip: parse_long_*): every error arm, positions vs the model and across sources
        docs = list(dict.fromkeys(number_side_docs(ctx.rng)))
        docs += [b'[' + d + b']' for d in docs[:200]] + [b'{"a": ' + d + b'}\n' for d in docs[:200]] + [b'[\n  ' + d + b'\n]' for d in docs[:200]]
        ctx.violations += judge_c11(ctx, cfg, docs)
        ctx.violations += judge_sources(ctx, cfg, docs, ops=('pv', 'pi'), srcs=['s', 'b', 'r1'], what_prefix='c11-')


# ------------------------------------------------------------------ position bookkeeping of the readers (Model/Pos.v, Proofs/PosRefine.v)
def pos_cases(ctx, n):
    """inputs with newlines at every kind of place x operation strings over next / peek / discard (also the two sequences outside the
    Read contract: discard without peek, discard at end of input — the model says what the real readers do there too)"""
    rng = ctx.rng
    alph = [b'\n', b'\n', b'a', b' ', b'\r', b'\xc3\xa9', b'"', b'\n\n']
    fixed = [(b'', 'pnpdn'), (b'\n', 'npdnn'), (b'a\nb', 'pndnpnpd'), (b'\n\n\n', 'nnnnn'), (b'ab', 'dd'), (b'', 'pd'), (b'a\n', 'pdpdpdp')]
    for d, o in fixed:
        yield d, o, None
    for i in range(n):
        d = b''.join(rng.choice(alph) for _ in range(rng.randrange(0, 12)))
        if i % 3 == 0:      # contract-respecting: discard only right after a peek that found a byte
            ops, left, pk = [], len(d), False
            for _ in range(rng.randrange(1, 2 * len(d) + 4)):
                c = rng.choice('nnpp' + ('d' if pk and left > 0 else 'p'))
                if c == 'p': pk = True
                elif c == 'n': left, pk = max(0, left - 1), False
                else: left, pk = left - 1, False
                ops.append(c)
            o = ''.join(ops)
        else:
            o = ''.join(rng.choice('nnppd') for _ in range(rng.randrange(1, 2 * len(d) + 4)))
        yield d, o, (rng.randrange(1, 7) if i % 5 == 0 else None)

def judge_pos(ctx, cfg, n):
    """the real IoRead / SliceRead / StrRead position(), peek_position(), byte_offset() after every operation vs the models of Model/Pos.v
    (proved equal to pos_of and to the abstract cursor's error indices); exact traces must agree"""
    cases = list(pos_cases(ctx, n))
    lines = ['pos %s %s%s' % (hx(d), o, '' if k is None else ' %d' % k) for d, o, k in cases]
    io, mo = ctx.both(cfg, lines, impl_name='sjh_pos', model_name='sjdriver_pos')
    v = []
    for (d, o, k), line, a, m in zip(cases, lines, io, mo):
        if a != m:
            v.append({'what': 'reader-position-bookkeeping', 'cfg': cfg, 'input': hx(d), 'expected': 'model (Model/Pos.v): ' + m, 'actual': a,
                      'shrinkable': False, 'case': line})
        elif 'STR-DIFFERS' in a:
            v.append({'what': 'str-reader-position-differs-from-slice', 'cfg': cfg, 'input': hx(d), 'expected': 'same trace', 'actual': a, 'shrinkable': False, 'case': line})
    ctx.count('reader-position-op-traces', len(lines))
    for l in lines[:2]:
        ctx.sample({'op': 'pos', 'case': l})
    return v

def judge_entry_points(ctx, cfg, docs):
    """entry points and accessors that must be the same thing, evaluated on the implementation: from_str / str::parse::<Value> / Map<String,Value> as
    target / IntoDeserializer for Value and Map / FromIterator for Value / Value::from(int) vs to_value / the is_* and as_* accessors of Value among each
    other and against Number's"""
    ins = [d for d in docs if gen.is_utf8(d)]
    outs = ctx.impl(cfg, ['eq %s' % hx(d) for d in ins])
    v = []
    for d, o in zip(ins, outs):
        if o.startswith('same') or o == 'SKIP':
            continue
        v.append({'what': 'entry-points-disagree', 'cfg': cfg, 'input': hx(d), 'expected': 'same result / consistent accessors', 'actual': o[:300], 'shrinkable': False})
    ctx.count('entry-point-relations', len(ins))
    return v

def judge_io_conversion(ctx, cfg, docs):
    """io::Error::from(serde_json::Error) and Error::source(): Eof -> UnexpectedEof, Syntax / Data -> InvalidData, Io -> the reader's own kind; the
    four is_* predicates agree with classify() (checked inside the harness for EVERY error every check prints)"""
    lines, meta = [], []
    for d in docs:
        for k in ['-'] + list(range(0, len(d) + 1, max(1, len(d) // 6))):
            kind = 2 + (len(d) + (0 if k == '-' else k)) % 4
            lines.append('ie %s %d %s' % (k, kind, hx(d)))
            meta.append((d, k, kind))
    outs = ctx.impl(cfg, lines)
    v = []
    want_kind = {'eof': 'UnexpectedEof', 'syntax': 'InvalidData', 'data': 'InvalidData'}
    for (d, k, kind), o in zip(meta, outs):
        for part in o.split(' '):
            if part == 'ok':
                continue
            m = re.fullmatch(r'(io|eof|syntax|data)>(\w+):(src|nosrc)', part)
            ok = bool(m) and m.group(3) == 'nosrc' and (m.group(2) == ('UnexpectedEof' if kind == 4 else 'kind%d' % kind) if m.group(1) == 'io' else m.group(2) == want_kind[m.group(1)])
            if not ok:
                v.append({'what': 'io-error-conversion', 'cfg': cfg, 'input': hx(d), 'fail_at': k, 'kind': kind,
                          'expected': 'Eof -> UnexpectedEof, Syntax/Data -> InvalidData, Io -> kind%d; is_* = classify()' % kind, 'actual': o, 'shrinkable': False})
                break
    ctx.count('io-error-conversions', len(lines))
    return v

def judge_errmsg(ctx, cfg, n):
    """custom (data) errors: de::Error::custom / ser::Error::custom -> make_error -> parse_line_col (position recovered from the END of the message text),
    and Display; Model/ErrMsg.v vs the crate on generated messages (markers, several markers, signs, leading zeros, 2^64 boundaries, non-ASCII, junk)"""
    rng = ctx.rng
    heads = [b'', b'x', b'invalid id: x', b'invalid type: string "a at line 1 column 2", expected u8', b'\xc3\xa9 \xe2\x82\xac', b'a at line 3 column 4 b', b' at line ', b'at line 1 column 1']
    nums = [b'0', b'1', b'7', b'03', b'007', b'18446744073709551615', b'18446744073709551616', b'99999999999999999999999', b'', b'+1', b'-1', b'1 ', b'1x', b'\xd9\xa1']
    msgs = []
    for h in heads:
        for a in nums[:8]:
            msgs.append(h + b' at line ' + a + b' column ' + rng.choice(nums))
    for _ in range(n):
        h = rng.choice(heads) + rng.choice([b'', b' at line 2 column 9', b' column 3', b' at line '])
        t = rng.choice([b'', b' at line ', b' at  line ', b' at line']) + rng.choice(nums) + rng.choice([b' column ', b' column', b'column ', b' col ']) + rng.choice(nums) + rng.choice([b'', b'', b'', b' ', b'.'])
        msgs.append(h + t)
    msgs = [m for m in msgs if gen.is_utf8(m)]
    lines = ['mk %s' % hx(m) for m in msgs] + ['ms %s' % hx(m) for m in msgs]
    io, mo = ctx.both(cfg, lines, impl_name='sjh', model_name='sjdriver_errmsg')
    v = []
    for line, a, m in zip(lines, io, mo):
        if a != m:
            v.append({'what': 'custom-error-position-from-text', 'cfg': cfg, 'input': line.split(' ')[1], 'expected': 'model (Model/ErrMsg.v): ' + m[:200], 'actual': a[:200], 'shrinkable': False, 'case': line[:300]})
        elif not ctx.quiet and a[:1] not in ('0', 'S'):
            ctx.distinct_nontrivial += 1
    ctx.count('custom-error-messages', len(lines))
    return v

def judge_state_isolation(ctx, cfg, n, toks=None, lasts=None, types='vsdfubin'):
    """ONE Deserializer read step by step (public API: T::deserialize(&mut de) repeatedly), failures swallowed: what the LAST step yields (a Value) must not
    depend on which TYPES were requested for the earlier tokens — every typed request on a scalar token consumes exactly that token, also when it fails.
    (A flag left set on an error path — single precision, a scratch buffer, a depth counter — shows up as a dependence.)  Implementation vs implementation."""
    rng = ctx.rng
    toks0, lasts0 = toks, lasts
    toks = [b'"n/a"', b'"x"', b'null', b'true', b'1', b'300', b'-1', b'0.1', b'1e39', b'3e38', b'16777217.5', b'1e400', b'5e-324', b'0.30000000000000004', b'123456789012345678901234567890', b'-0']
    lasts = [b'0.1', b'16777217.5', b'1e39', b'[0.1, 3e38]', b'{"a":0.30000000000000004}', b'"s"', b'[1e-50]', b'123456789.123456789']
    if toks0:
        toks = toks0
    if lasts0:
        lasts = lasts0
    lines, groups = [], []
    for _ in range(n):
        k = rng.choice([1, 2, 3])
        seq = [rng.choice(toks) for _ in range(k)] + [rng.choice(lasts)]
        text = b' '.join(seq)
        variants = ['v' * k + 'v'] + [''.join(rng.choice(types) for _ in range(k)) + 'v' for _ in range(3)]
        for src in ('b', 'r'):
            idx = []
            for t in variants:
                idx.append(len(lines))
                lines.append('dq %s %s %s' % (src, t, hx(text)))
            groups.append((text, variants, idx))
    outs = ctx.impl(cfg, lines)
    v = []
    for text, variants, idx in groups:
        last = [outs[i].split(',')[-1] for i in idx]
        # every step requested as a Value must yield the same thing in every variant that requests a Value there (variant 0 requests Values throughout)
        steps = [outs[i].split(',') for i in idx]
        bad = None
        if all(len(st) == len(variants[0]) for st in steps):
            for j, (t, st) in enumerate(zip(variants, steps)):
                if any(t[q] == 'v' and st[q] != steps[0][q] for q in range(len(t))):
                    bad = j
                    break
        if len(set(last)) != 1 or bad is not None:
            j = bad if bad is not None else next(j for j in range(len(last)) if last[j] != last[0])
            v.append({'what': 'result-depends-on-types-requested-earlier', 'cfg': cfg, 'input': hx(text), 'expected': 'types %s: %s' % (variants[0], outs[idx[0]][:200]),
                      'actual': 'types %s: %s' % (variants[j], outs[idx[j]][:200]), 'shrinkable': False})
        elif not ctx.quiet and last[0].startswith('ok'):
            ctx.distinct_nontrivial += 1
    ctx.count('state-isolation-runs', len(lines))
    return v

def judge_multi_step_sources(ctx, cfg, n):
    """ONE Deserializer read step by step with failures swallowed (T::deserialize(&mut de) repeatedly; Value, IgnoredAny, String and — raw_value builds — Box<RawValue>
    requests): the str, slice and reader sources must yield the same sequence of results (value or error code) — whatever a failed step left behind in one
    reader (a raw buffer, a peeked byte, scratch contents) must not show in the next step."""
    rng = ctx.rng
    raw = 'raw_value' in engine.CONFIGS[cfg][0]
    toks = [b'[1, tru]', b'{"k": [2]}', b'"tail"', b'[1 2]', b'{"a" 1}', b'nul', b'"a\\u00e9b"', b'12.5e3', b'[[], {"x": "y"}]', b'tru', b'"unterminated', b'-', b'[1,]', b'{"a":1,}', b'0.1234567890123456789012345']
    types = 'vis' + ('www' if raw else '')
    lines, groups = [], []
    for _ in range(n):
        k = rng.choice([2, 3, 4])
        text = b' '.join(rng.choice(toks) for _ in range(k))
        ty = ''.join(rng.choice(types) for _ in range(k + 1))
        idx = []
        for src in ('b', 's', 'r'):
            idx.append(len(lines))
            lines.append('dq %s %s %s' % (src, ty, hx(text)))
        groups.append((text, ty, idx))
    outs = ctx.impl(cfg, lines)
    v = []
    for text, ty, idx in groups:
        o = [outs[i] for i in idx]
        if len(set(o)) != 1:
            j = 1 if o[1] != o[0] else 2
            v.append({'what': 'multi-step-source-mismatch', 'cfg': cfg, 'input': hx(text), 'types': ty, 'expected': 'slice: ' + o[0][:300], 'actual': '%s: %s' % ('str' if j == 1 else 'reader', o[j][:300]), 'shrinkable': False})
        elif 'ok:' in o[0]:
            ctx.distinct_nontrivial += 1
    ctx.count('multi-step-source-runs', len(lines))
    return v

def number_side_docs(rng):
    """documents for the feature-gated number paths (arbitrary_precision: the textual scanner scan_integer / scan_decimal / scan_exponent;
    float_roundtrip: parse_long_integer / parse_long_decimal / parse_long_exponent): short and long mantissas, signed / unsigned exponents, and the
    same literals followed or interrupted by a stray byte (letter, NUL, quote) so that every error arm of those scanners is visited"""
    lits = [b'0', b'-0', b'1', b'-1', b'12', b'1.5', b'-0.25', b'1e5', b'1E+5', b'2e-7', b'-3.5e+10', b'123456789012345678901234567890', b'-123456789012345678901234567890e5',
            b'1.2345678901234567890123e-5', b'0.00000123456789012345678901234E+3', b'123456789012345678901234567890e', b'1.2345678901234567890123e-', b'18446744073709551616.5e1']
    docs = []
    for l in lits:
        docs += [l, b'[' + l + b']', b'[1, ' + l + b' ]', b'{"k":' + l + b'}', l + b' ']
        for junk in (b'x', b'\x00', b'"', b'-', b'.', b'e', b'+'):
            docs += [l + junk, l + junk + b' ', b'[' + l + junk + b']']
    for pre in (b'-', b'-x', b'-x ', b'[-x]', b'{"a": -\n}', b'1 [2] -q 3', b'+1', b'.5', b'1.e5', b'1.E', b'0e', b'0e+', b'-0e-'):
        docs.append(pre)
    for _ in range(150):
        m = str(rng.randrange(1, 10 ** rng.randrange(1, 30))).encode()
        if rng.random() < 0.5:
            k = rng.randrange(0, len(m) + 1)
            m = (m[:k] or b'0') + b'.' + (m[k:] or b'0')
        e = rng.choice([b'', b'e5', b'E-12', b'e+300', b'e-400'])
        docs.append(rng.choice([b'', b'-']) + m + e)
    return docs

# ================================================================== C09: sources agree (implementation vs implementation)
def judge_sources(ctx, cfg, inputs, aux=None, ops=('pv', 'pi'), srcs=None, what_prefix=''):
    srcs = srcs or (SRC_QUICK if ctx.tier == 'quick' else SRC_ALL)
    L = ctx.letters(cfg)
    v = []
    feats = engine.CONFIGS[cfg][0]
    for op in ops:
        if op == 'pr' and 'raw_value' not in feats:
            continue
        base = ctx.impl(cfg, ['%s %s b %s' % (op, L, hx(d)) for d in inputs])
        if not ctx.quiet and not what_prefix:
            tally(ctx, inputs, base)
        for src in srcs:
            if src == 'b':
                continue
            if src.startswith('s'):
                idxs = [i for i, d in enumerate(inputs) if gen.is_utf8(d)]
            else:
                idxs = list(range(len(inputs)))
            outs = ctx.impl(cfg, ['%s %s %s %s' % (op, L, src, hx(inputs[i])) for i in idxs])
            for i, o in zip(idxs, outs):
                if o != base[i]:
                    v.append({'what': what_prefix + 'source-mismatch', 'cfg': cfg, 'input': hx(inputs[i]), 'op': op,
                              'expected': 'from_slice: ' + base[i], 'actual': 'source %s: %s' % (src, o), 'aux': {'op': op, 'src': src}})
    return v

def judge_c09(ctx, cfg, inputs, aux=None):
    if aux:
        return judge_sources(ctx, cfg, inputs, ops=(aux['op'],), srcs=['b', aux['src']])
    v = judge_sources(ctx, cfg, inputs, ops=('pv', 'pi', 'pr'), srcs=(['s', 'b', 'r1', 'r3', 'rx5', 's+m', 'b+m', 'r3+m'] if ctx.tier == 'quick' else ['s', 's+m', 'b+m', 'r1+m'] + SRC_ALL))
    return v

def judge_stream_sources(ctx, cfg, inputs):
    L = ctx.letters(cfg)
    v = []
    for tgt in ('v', 'i'):
        base = ctx.impl(cfg, ['st %s %s b 6 %s' % (L, tgt, hx(d)) for d in inputs])
        for src in ('s', 'r1', 'rx5'):
            idxs = [i for i, d in enumerate(inputs) if src != 's' or gen.is_utf8(d)]
            outs = ctx.impl(cfg, ['st %s %s %s 6 %s' % (L, tgt, src, hx(inputs[i])) for i in idxs])
            for i, o in zip(idxs, outs):
                a, b = cut_at_error(base[i]), cut_at_error(o)
                if a != b:
                    v.append({'what': 'stream-source-mismatch', 'cfg': cfg, 'input': hx(inputs[i]), 'expected': 'slice: ' + base[i],
                              'actual': 'source %s: %s' % (src, o), 'shrinkable': False})
    return v

def cut_at_error(hist):
    """history up to and including the first error item (after a terminal error only None items must follow)"""
    out = []
    for it in hist.split(' '):
        out.append(it)
        if it.startswith('E'):
            break
    return out

def run_c09(ctx):
    ctx.rule = ('same bytes through from_str (valid UTF-8 only), from_slice and from_reader with chunk sizes 1,2,3,7 and pseudo-random schedules with '
                'interleaved Interrupted results, for Value, IgnoredAny, RawValue (raw_value builds) and stream iteration; outcome lines (value or code, '
                'category, line, column) must be identical; inputs: exhaustive 4-token space (quick: 3 tokens exhaustive + sample of 4), documents, mutations, invalid UTF-8')
    for cfg in ctx.cfgs:
        if ctx.tier == 'quick':
            space = itertools.chain(gen.enum_tokens(3), itertools.islice(gen.enum_tokens(4, minlen=4), 0, None, 17), doc_inputs(ctx, 700))
        elif cfg != ctx.cfgs[0]:
            # thorough tier: the full token space runs in the first configuration (the reader code is the same in all); the others get a 1-in-5 sample of it plus documents
            space = itertools.chain(gen.enum_tokens(3), itertools.islice(gen.enum_tokens(4, minlen=4), 0, None, 5), doc_inputs(ctx, 7000))
        else:
            space = space_inputs(ctx)
        for batch in chunks(space, 300000):
            note_dist(ctx, batch)
            ctx.violations += judge_c09(ctx, cfg, batch)
            for d in batch[:3]:
                ctx.sample({'ops': 'pv/pi/pr x sources', 'cfg': cfg, 'input_hex': hx(d)})
        ctx.violations += judge_c09(ctx, cfg, gen.depth_docs(ctx.rng) + gen.escape_docs() + gen.hex_position_docs() + gen.number_literals(ctx.rng, 300))
        streams = list(stream_inputs(ctx, 4000 if ctx.tier == 'quick' else 40000))
        ctx.violations += judge_stream_sources(ctx, cfg, streams)
        ctx.violations += judge_pos(ctx, cfg, 20000 if ctx.tier == 'quick' else 300000)
        ctx.violations += judge_errmsg(ctx, cfg, 3000 if ctx.tier == 'quick' else 60000)
    for cfg in list(ctx.cfgs) + [c for c in getattr(ctx, 'side_cfgs', []) if c not in ctx.cfgs]:
        ctx.violations += judge_multi_step_sources(ctx, cfg, 1500 if ctx.tier == 'quick' else 15000)
    for cfg in [c for c in getattr(ctx, 'side_cfgs', []) if c not in ctx.cfgs and c != 'raw']:
        docs = number_side_docs(ctx.rng)
        ctx.violations += judge_c09(ctx, cfg, docs)
        ctx.violations += judge_stream_sources(ctx, cfg, [b' '.join(docs[i:i + 3]) for i in range(0, len(docs) - 3, 3)])
    typed_part(ctx, 'run_c09_typed')

# ================================================================== C10: truncation => Eof at the cut
def c10_class(p, e, endpos):
    """class of a C10 failure; the known finding F10 is: NumberOutOfRange positioned at end of input where the input ends in a number literal"""
    import re
    if e and e.get('code') == 'NumRange' and (e['line'], e['col']) == endpos and re.search(rb'[0-9][0-9.eE+-]*$', p):
        return 'number-out-of-range-at-end-of-input'
    return 'other'

def judge_c10(ctx, cfg, inputs, aux=None):
    """inputs: documents; for each accepted one check every proper prefix"""
    L = ctx.letters(cfg)
    feats = engine.CONFIGS[cfg][0]
    v = []
    ops = ['pv', 'pi'] + (['pr'] if 'raw_value' in feats else [])
    for op in ops:
        for src in ('b', 'r1'):
            outs = ctx.impl(cfg, ['%s %s %s %s' % (op, L, src, hx(d)) for d in inputs])
            good = [d for d, o in zip(inputs, outs) if is_ok(o)]
            pre = []
            seen = set()
            for d in good:
                for k in range(len(d)):
                    p = d[:k]
                    if p not in seen:
                        seen.add(p)
                        pre.append(p)
            if not ctx.quiet:
                ctx.distinct_nontrivial += len(pre)
            pouts = ctx.impl(cfg, ['%s %s %s %s' % (op, L, src, hx(p)) for p in pre])
            for p, o in zip(pre, pouts):
                if is_ok(o):
                    continue
                e = err_fields(o)
                endpos = pos_of(p, len(p))
                if e is None or e['cat'] != 'eof' or (e['line'], e['col']) != endpos:
                    v.append({'what': 'truncation-not-eof', 'class': c10_class(p, e, endpos), 'cfg': cfg, 'input': hx(p), 'op': op, 'src': src,
                              'expected': 'ok, or an Eof error at end of input %r (a proper prefix of an accepted document)' % (endpos,),
                              'actual': o, 'aux': {'op': op, 'src': src}, 'shrinkable': False})
    return v

def judge_c10_space(ctx, cfg, space):
    """exhaustive space: an input that is a proper prefix of an accepted member of the space must be ok or Eof-at-end"""
    L = ctx.letters(cfg)
    v = []
    for op in ('pv', 'pi'):
        outs = ctx.impl(cfg, ['%s %s b %s' % (op, L, hx(d)) for d in space])
        viable = set()
        for d, o in zip(space, outs):
            if is_ok(o):
                for k in range(len(d)):
                    viable.add(d[:k])
        for d, o in zip(space, outs):
            if d in viable and not is_ok(o):
                e = err_fields(o)
                if e is None or e['cat'] != 'eof' or (e['line'], e['col']) != pos_of(d, len(d)):
                    v.append({'what': 'truncation-not-eof', 'class': c10_class(d, e, pos_of(d, len(d))), 'cfg': cfg, 'input': hx(d), 'op': op, 'src': 'b',
                              'expected': 'ok or Eof at end of input (it is a proper prefix of an accepted input)', 'actual': o, 'shrinkable': False})
        if not ctx.quiet:
            ctx.distinct_nontrivial += len(viable)
    return v

def run_c10(ctx):
    ctx.rule = ('every proper prefix of every accepted generated document (Value, IgnoredAny, RawValue; slice and 1-byte reader) and every member of the '
                'exhaustive 4-token space that is a proper prefix of an accepted member; each must be ok or an Eof-category error positioned at end of input; '
                'distinct_nontrivial = number of distinct prefixes examined')
    for cfg in ctx.cfgs:
        docs = list(value_docs(ctx, 1500 if ctx.tier == 'quick' else 15000))
        docs += [b'[1.5e3, -0.25E-2, 1e+9, 12345678901234567890123, 0.0000000000000000000001]', b'{"a\\u00e9\\ud83d\\ude00":[true,false,null],"b":{"c":"\\n"}}',
                 b' [ -1 , 2.0 ] ', b'"\\ud83d\\ude00"', b'[1e5,1E-5,0.1e+1]', b'1' * 400 + b'e-200', b'[' + b'9' * 330 + b'.5E-100]']
        note_dist(ctx, docs)
        ctx.violations += judge_c10(ctx, cfg, docs)
        for d in docs[:4]:
            ctx.sample({'doc_hex': hx(d), 'cfg': cfg, 'checked': 'every proper prefix'})
        space = list(gen.enum_tokens(4 if ctx.tier == 'thorough' else 3)) + list(gen.enum_tokens(5, gen.STRUCT_TOKENS + [b'.', b'e', b'0', b'\\u00e9', b'tru'], 4))
        ctx.violations += judge_c10_space(ctx, cfg, space)
    for cfg in [c for c in getattr(ctx, 'side_cfgs', []) if c not in ctx.cfgs]:
        ctx.violations += judge_c10(ctx, cfg, [d for d in number_side_docs(ctx.rng) if len(d) < 80])
    typed_part(ctx, 'run_c10_typed')

# ================================================================== C12: streams
def stream_inputs(ctx, n):
    rng = ctx.rng
    seps = [b'', b'', b' ', b'\n', b'\r', b'\t', b'\r\n', b'  ', b',', b':']
    # every byte after every kind of bare scalar / self-delineated value (delimiter set sweep)
    for head in (b'1', b'-2.5e3', b'true', b'false', b'null', b'"s"', b'[1]', b'{}'):
        for b in range(256):
            yield head + bytes([b])
            yield head + bytes([b]) + b'7'
    for _ in range(n):
        k = rng.randrange(0, 5)
        s = rand_ws_b(rng)
        for i in range(k):
            s += gen.rand_doc(rng, depth=rng.choice([0, 0, 1, 2]))
            s += rng.choice(seps[:8]) if rng.random() < 0.9 else rng.choice(seps)
        r = rng.random()
        if r < 0.25 and len(s) > 0:
            s = s[:rng.randrange(len(s))]
        elif r < 0.4 and len(s) > 0:
            i = rng.randrange(len(s))
            s = s[:i] + rng.choice(gen.INTERESTING) + s[i + 1:]
        yield s

def rand_ws_b(rng):
    return rng.choice([b'', b'', b' ', b'\n '])

def judge_c12(ctx, cfg, inputs, aux=None):
    L = ctx.letters(cfg)
    v = []
    # construction routes of the iterator: Deserializer::new(read).into_iter() (plain), StreamDeserializer::new(read) (+n), the reader passed
    # as `&mut R` through the forwarding impl (+m) — all must give the history of the model; the extra routes run on every third input
    routes = [('b', 1), ('r1', 1), ('b+m', 3), ('r1+m', 3), ('r1+n', 3), ('r3+m+n', 3), ('s+m', 3)]
    eofq = []
    for tgt in ('v', 'i'):
        for src, step in routes:
            ins = [d for d in inputs[::step] if not src.startswith('s') or gen.is_utf8(d)]
            lines = ['st %s %s %s 7 %s' % (L, tgt, src, hx(d)) for d in ins]
            io, mo = ctx.both(cfg, lines)
            for d, a, m in zip(ins, io, mo):
                if a == 'PANIC' or a.startswith('CRASH'):
                    v.append({'what': 'stream-panic', 'cfg': cfg, 'input': hx(d), 'expected': m, 'actual': a})
                    continue
                ca, cm = cut_at_error(a), cut_at_error(m)
                if ca != cm:
                    v.append({'what': 'stream-history', 'cfg': cfg, 'input': hx(d), 'expected': 'history per proved model (%s,%s): %s' % (tgt, src, m), 'actual': a})
                    continue
                items = a.split(' ')
                # after the first None or terminal error: None forever
                done = False
                for it in items:
                    kind = it[0]
                    if done and kind != 'N':
                        v.append({'what': 'stream-not-fused', 'cfg': cfg, 'input': hx(d), 'expected': 'None forever after the end or a terminal error', 'actual': a})
                        break
                    if kind == 'N' or (kind == 'E' and 'TrailChars' not in it):
                        done = True
                if not ctx.quiet and len(ca) > 1:
                    ctx.distinct_nontrivial += 1
                # "Eof whenever the rest of the input is a proper prefix of a value, Syntax otherwise": an Eof item must sit on a VIABLE fragment.
                # Decided by the proved oracle (Properties/C11.v C11_eof_viable_decidable / _ignored): Eof + the three side conditions => a continuation
                # is accepted.  A false side condition is either the property's own carve-out (a \u escape cut off by the end of input), or a dead
                # fragment reported as Eof (known finding F24: bytes no UTF-8 text contains inside an unterminated string; `e+` after an out-of-range mantissa)
                if step == 1:
                    for it in items:
                        if it[0] == 'E' and '/eof/' in it:
                            off = int(it.rsplit('@', 1)[1])
                            eofq.append((d, off, tgt, src, a))
                            break
    if eofq and ctx.model_ok:
        outs = ctx.model(['vb %s %s' % (L, hx(d[off:])) for d, off, tgt, src, a in eofq], 'sjdriver_viable')
        for (d, off, tgt, src, a), o in zip(eofq, outs):
            bits = dict((x[0], x[1] == '1') for x in o.split(' ')) if o.startswith('u') else {}
            if not bits:
                continue
            if tgt == 'i':
                if bits['i']:
                    ctx.count('eof-item:viable (proved, skip scanner)')
                else:
                    ctx.count('eof-item:cut \\u escape (carve-out)')
                continue
            if bits['u'] and bits['e'] and bits['n']:
                ctx.count('eof-item:viable (proved)')
            elif not bits['u']:
                v.append({'what': 'eof-on-dead-fragment', 'class': 'invalid-utf8-in-unterminated-string', 'cfg': cfg, 'input': hx(d),
                          'expected': 'a Syntax error: no continuation of %s is valid UTF-8, hence none is JSON' % hx(d[off:]), 'actual': a, 'shrinkable': False})
            elif not bits['e']:
                ctx.count('eof-item:cut \\u escape (carve-out)')
            else:
                v.append({'what': 'eof-on-dead-fragment', 'class': 'exponent-sign-after-out-of-range-mantissa', 'cfg': cfg, 'input': hx(d),
                          'expected': 'a Syntax error (number out of range whatever follows)', 'actual': a[:200], 'shrinkable': False})
    return v

def run_c12(ctx):
    ctx.rule = ('concatenations of generated values with every separator choice (none, whitespace, structural), truncated or corrupted at random positions, and '
                'the exhaustive 3/4-token space; histories of 7 next()/byte_offset() calls for Value and IgnoredAny items over slice and 1-byte reader; compared '
                'item by item (value/error class/position and offset) with the model up to the first terminal error, then None forever; non-trivial = history with >= 2 items')
    for cfg in ctx.cfgs:
        n = 6000 if ctx.tier == 'quick' else 60000
        space = itertools.chain(stream_inputs(ctx, n), gen.enum_tokens(3 if ctx.tier == 'quick' else 4))
        for batch in chunks(space, 200000):
            note_dist(ctx, batch)
            ctx.violations += judge_c12(ctx, cfg, batch)
            for d in batch[:3]:
                ctx.sample({'op': 'st', 'cfg': cfg, 'input_hex': hx(d), 'calls': 7})
    # unbounded_depth side configuration: a stream iterator made from a Deserializer whose limit was disabled keeps the flag (items deeper than 128 are yielded)
    ctx.violations += judge_unbounded(ctx)
    for cfg in [c for c in getattr(ctx, 'side_cfgs', []) if c not in ctx.cfgs and c != 'ud']:
        # float_roundtrip side configuration: long number literals (scratch-buffer paths of de.rs) as LATER items of a stream, after items that leave
        # bytes in the shared scratch buffer (escaped strings, > u64 integers, other long decimals)
        rng = ctx.rng
        dirt = [b'"a\\u0037b"', b'"\\n\\t"', b'18446744073709551616123', b'1.2345678901234567890123', b'{"k\\u0041":"v\\\\"}', b'[1]']
        longs = [b'0.00000123456789012345678901234', b'0.00123456789012345678901', b'123456789012345678901234567890.5', b'0.000000000000000000001234567890123456789',
                 b'1.00000000000000000000000001e5', b'9007199254740993.0000000000001', b'0.1000000000000000055511151231257827', b'12345678901234567890e-5']
        streams = []
        for _ in range(600 if ctx.tier == 'quick' else 6000):
            items = [rng.choice(dirt) for _ in range(rng.choice([1, 2]))] + [rng.choice(longs) for _ in range(rng.choice([1, 2]))] + [rng.choice(dirt + longs)]
            streams.append(rng.choice([b' ', b'\n']).join(items) + rng.choice([b'', b' ']))
        ctx.violations += judge_c12(ctx, cfg, streams)
        nd = number_side_docs(rng)
        ctx.violations += judge_c12(ctx, cfg, [b' '.join(nd[i:i + 3]) for i in range(0, len(nd) - 3, 2)] + [b'[1] ' + d + b' 3' for d in nd[::3]])
    typed_part(ctx, 'run_c12_typed')

# ================================================================== C13: read faults
def judge_c13(ctx, cfg, inputs, aux=None):
    L = ctx.letters(cfg)
    v = []
    lines, meta = [], []
    for d in inputs:
        for k in range(len(d) + 1):
            for kind in ((2, 3) if ctx.tier == 'quick' else (1, 2, 3, 4, 5, 6)):
                for tgt in ('v', 'i'):
                    lines.append('io %s %s %d %d %s' % (L, tgt, k, kind, hx(d)))
                    meta.append((d, k, kind, tgt))
    io, mo = ctx.both(cfg, lines)
    for (d, k, kind, tgt), a, m in zip(meta, io, mo):
        if a != m:
            what = 'io-error-swallowed' if not a.startswith('err Io') and m.startswith('err Io') else 'io-outcome'
            if a.startswith('SCHEDULE'):
                what = 'io-schedule-dependent'
            v.append({'what': what, 'cfg': cfg, 'input': hx(d), 'fail_at': k, 'kind': kind, 'target': tgt,
                      'expected': 'per proved model: ' + m, 'actual': a, 'shrinkable': False})
        elif not ctx.quiet and a.startswith('err Io'):
            ctx.distinct_nontrivial += 1
    return v

def judge_c13_stream(ctx, cfg, inputs):
    """stream iteration over a failing reader: the error is yielded once, then None forever (persistent and one-shot faults,
    several chunkings with Interrupted interleaved: all must agree, and agree with the model)"""
    L = ctx.letters(cfg)
    lines, meta = [], []
    for d in inputs:
        for k in range(len(d) + 1):
            for tgt in ('v', 'i'):
                kind = 2 + (k % 3)
                lines.append('sio %s %s %d %d 6 %s' % (L, tgt, k, kind, hx(d)))
                meta.append((d, k, kind, tgt))
    io, mo = ctx.both(cfg, lines, impl_name='sjh_io', model_name='sjdriver_io')
    v = []
    for (d, k, kind, tgt), a, m in zip(meta, io, mo):
        if a != m:
            what = 'stream-io-schedule-dependent' if a.startswith('SCHEDULE') else 'stream-io-history'
            v.append({'what': what, 'cfg': cfg, 'input': hx(d), 'fail_at': k, 'kind': kind, 'target': tgt,
                      'expected': 'per proved model (error once, then None forever): ' + m, 'actual': a, 'shrinkable': False})
        elif not ctx.quiet and 'EIo' in a:
            ctx.distinct_nontrivial += 1
    return v

def writer_faults(ctx, cfg):
    """writer half of C13 (serializer development): prefix property, per-buffer UTF-8, Io error with the writer's kind"""
    try:
        import checks.ser as ser_mod
    except Exception:
        return []
    if not hasattr(ser_mod, 'run_c13_writer'):
        return []
    before = len(ctx.violations)
    ser_mod.run_c13_writer(ctx)
    new = ctx.violations[before:]
    del ctx.violations[before:]
    return new

def typed_part(ctx, fn):
    """typed-target half of a property, from the typed development (universal DeserializeSeed); violations are appended to ctx.violations"""
    try:
        from checks import typed as T
    except ImportError:
        ctx.count('typed targets: development not integrated')
        return
    f = getattr(T, fn, None)
    if f is not None:
        f(ctx)

TIO_DOCS = {
    0: [b'[1,2,3]', b'[300,1]', b'[300 ', b'[1, 300, 2]', b'[]', b'[1,]', b'{"a":1}'],
    1: [b'{"a":1,"b":2}', b'{"a":300 }', b'{"a":300,"b":1}', b'{"a":[1]}', b'{}'],
    2: [b'[1]', b'[1,2]', b'[1,', b'[]', b'[300]'],
    3: [b'{"a":1,"b":true}', b'{"a":1,"zz":[1,{"x":"y"}],"b":null}', b'{"a":1,"a":2 }', b'{"b":false}', b'[1,true]', b'{"a":"x"}'],
    4: [b'{"A":7}', b'{"B":{"x":1}}', b'"C"', b'{"D":[1,2]}', b'{"A":300}', b'{"A":1,"B":2}', b'{"Q":1}', b'"A"'],
    5: [b'[[1,"a"],[2,"b\\n"]]', b'[[1,"a"],[300,"b"]]', b'[[1]]'],
    6: [b'{"1":[1,-170141183460469231731687303715884105728],"-2":[]}', b'{"x":[]}', b'{"1":[1e3]}'],
    7: [b'null', b'[{"A":1},"C",{"B":{"x":2}}]', b'[{"A":1},{"A":300},"C"]', b' nul'],
}

def judge_c13_typed(ctx, cfg):
    """typed targets (real derive / std types) over a failing reader: the outcome must be the injected Io error, or the error the parser had
    already found before needing the missing byte. Known finding F18: a visitor (data) error found earlier is reported even if the reader then
    fails while the parser looks for the end of the sequence / map."""
    lines, meta = [], []
    for ty, docs in TIO_DOCS.items():
        for d in docs:
            lines.append('tio %d - 1 %s' % (ty, hx(d)))
            meta.append((ty, d, None))
            for k in range(len(d) + 1):
                lines.append('tio %d %d %d %s' % (ty, k, 2 + k % 3, hx(d)))
                meta.append((ty, d, k))
    outs = ctx.impl(cfg, lines, 'sjh_io')
    free = {}
    v = []
    for (ty, d, k), o in zip(meta, outs):
        if k is None:
            free[(ty, d)] = o
            continue
        f = free[(ty, d)]
        if o.startswith('EIo/io/%d' % (2 + k % 3)):
            if not ctx.quiet:
                ctx.distinct_nontrivial += 1
            continue
        if o == f and not f.startswith('ok'):
            continue          # the parser had already failed identically before needing byte k
        what = 'typed-io-outcome'
        if o.startswith('SCHEDULE'):
            what = 'typed-io-schedule-dependent'
        elif o.startswith('EMessage/data'):
            what = 'data-error-masks-io-error'
        v.append({'what': what, 'cfg': cfg, 'input': hx(d), 'type': ty, 'fail_at': k, 'expected': 'Io error with the injected kind, or the fault-free error (%s)' % f, 'actual': o, 'shrinkable': False})
    return v

def judge_typed_budget(ctx, cfg):
    """the depth budget is restored after every successfully read value of EVERY typed container/wrapper kind: long flat documents
    (300 sibling values of each kind inside one array / one stream) must be accepted although none nests deeper than 3"""
    try:
        from checks import typed as T  # noqa: F401
    except ImportError:
        return []
    L = ctx.letters(cfg)
    E = 'E(41:wn0,42:S(78:n0),43:u,44:t(n0,n0))'
    fams = [
        ('a' + E, lambda i: b'{"A":%d}' % (i % 200)),                      # newtype variants
        ('a' + E, lambda i: b'{"B":{"x":%d}}' % (i % 200)),                # struct variants
        ('a' + E, lambda i: b'{"D":[%d,1]}' % (i % 200)),                  # tuple variants
        ('aan0', lambda i: b'[%d]' % (i % 200)),                           # sequences
        ('amsn0', lambda i: b'{"k":%d}' % (i % 200)),                      # maps
        ('aS(61:n0)', lambda i: b'{"a":%d}' % (i % 200)),                  # structs (object form)
        ('aS(61:n0)', lambda i: b'[%d]' % (i % 200)),                      # structs (array form)
        ('at(n0,n0)', lambda i: b'[%d,2]' % (i % 200)),                    # tuples
        ('aoan0', lambda i: b'[%d]' % (i % 200)),                          # option around a seq
        ('awan0', lambda i: b'[%d]' % (i % 200)),                          # newtype around a seq
    ]
    lines, meta = [], []
    for ty, f in fams:
        for n in (126, 127, 128, 300):
            doc = b'[' + b','.join(f(i) for i in range(n)) + b']'
            for src in ('b', 'r1'):
                lines.append('pt %s %s %s %s' % (L, src, ty, hx(doc)))
                meta.append((ty, n, src, doc))
    outs = ctx.impl(cfg, lines, 'sjh_typed')
    v = []
    for (ty, n, src, doc), o in zip(meta, outs):
        if not o.startswith('ok '):
            v.append({'what': 'depth-budget-not-restored-typed', 'cfg': cfg, 'input': hx(doc) if len(doc) < 600 else 'len=%d head=%s' % (len(doc), hx(doc[:60])), 'type': ty,
                      'expected': 'ok: %d sibling values, nesting depth <= 3' % n, 'actual': o[:200], 'shrinkable': False})
        elif not ctx.quiet:
            ctx.distinct_nontrivial += 1
    return v

def judge_big_raw_buffers(ctx):
    """raw_value build (side configuration): a RawValue of 1 .. 70 000 bytes of multi-byte characters reaches the writer as ONE buffer; every buffer of the
    serialiser is valid UTF-8 on its own (direct check inside sjh_raw `rbig`)"""
    v = []
    for cfg in [c for c in list(ctx.cfgs) + list(getattr(ctx, 'side_cfgs', [])) if 'raw_value' in engine.CONFIGS[c][0]]:
        lines = ['rbig %d %s' % (n, u) for n in (3, 100, 4094, 4095, 4096, 4097, 4098, 6002, 8191, 8192, 8193, 12288, 65535, 65536, 70000) for u in ('c3a9', 'e298ba', 'f09f9880', '61c3a9', '78')]
        outs = ctx.impl(cfg, lines, name='sjh_raw')
        for l, o in zip(lines, outs):
            if o != 'ok':
                v.append({'what': 'raw-value-buffers', 'cfg': cfg, 'line': l, 'expected': 'ok (one buffer for the raw text, every buffer valid UTF-8, expected output)', 'actual': o[:300], 'shrinkable': False})
            else:
                ctx.distinct_nontrivial += 1
        ctx.count('big-raw-value-buffer-checks', len(lines))
    return v

def run_c13(ctx):
    ctx.rule = ('reader side: for generated documents (valid and invalid) a reader that fails persistently with each of several ErrorKinds once k bytes were delivered, '
                'for every k in 0..=len, under chunkings 1/3/64/pseudo-random with Interrupted interleaved (all must agree), Value and IgnoredAny targets; outcome must equal '
                'the model (Io error with that kind unless the parser stops before byte k); non-trivial = cases ending in the injected Io error')
    for cfg in ctx.cfgs:
        rng = ctx.rng
        docs = [gen.rand_top(rng, depth=rng.choice([1, 2, 3])) for _ in range(150 if ctx.tier == 'quick' else 1500)]
        docs = [d for d in docs if len(d) < 200]
        docs += [b'[1, 2]', b'{"a":[true,null],"b":"x\\u00e9y"}', b'[1,]', b'{"a" 1}', b'nul', b'"abc', b'[1.5e10,-2]', b' 12 ', b'[[[[]]]]']
        docs += list(itertools.islice(gen.enum_tokens(3), 0, None, 97))
        note_dist(ctx, docs)
        ctx.violations += judge_c13(ctx, cfg, docs)
        streams = [b'[1] [2] [3]', b'1 2 3', b'"a""b" "c"', b' {"k":1}\n{"k":2}', b'true false null', b'[1] x', b'', b'  ', b'1'] + \
                  [s for s in itertools.islice(stream_inputs(ctx, 3000), 0, None, 11) if len(s) < 60][:150 if ctx.tier == 'quick' else 1500]
        ctx.violations += judge_c13_stream(ctx, cfg, streams)
        ctx.violations += judge_c13_typed(ctx, cfg)
        ctx.violations += judge_io_conversion(ctx, cfg, docs[:200] + [b'[300]', b'[1,2]', b'[1', b'[1,]', b'x'])
        ctx.violations += writer_faults(ctx, cfg)
        for d in docs[:4]:
            ctx.sample({'op': 'io', 'cfg': cfg, 'doc_hex': hx(d), 'fail_at': 'every k in 0..=len', 'kinds': 'TimedOut, BrokenPipe, ...'})
    ctx.violations += judge_big_raw_buffers(ctx)
    for cfg in [c for c in getattr(ctx, 'side_cfgs', []) if c not in ctx.cfgs and c == 'ap']:
        # arbitrary_precision side configuration: numbers of untyped targets go through the textual scanner (scan_integer / scan_decimal / scan_exponent)
        ndocs = [b'2e17 ', b'[1024, 7]', b'31e2', b'-0.5E-3', b'{"a":1.25e+10,"b":[12345678901234567890123, 0.000001]}', b'[1,2.5,3e5]', b'1.', b'1e', b'-']
        ndocs += [x for x in gen.number_literals(ctx.rng, 40)[::97] if len(x) < 40][:40]
        ctx.violations += judge_c13(ctx, cfg, ndocs)
        ctx.violations += judge_c13_stream(ctx, cfg, [b'31e2 4', b'1.5 2.5e3 3', b'[1e2] 7'])

# ================================================================== C14: hostile input
_HEXSTR = __import__('re').compile(r'(?:s|[(,])([0-9a-f]{2,})(?=[:,)]|$)')

def strings_utf8(out):
    """every string value (s<hex>) and object key (<hex>:) in a canonical value line decodes as UTF-8"""
    import re
    for m in re.finditer(r's([0-9a-f]+)', out):
        try:
            bytes.fromhex(m.group(1)).decode('utf-8')
        except (UnicodeDecodeError, ValueError):
            return False
    for m in re.finditer(r'[(,]([0-9a-f]+):', out):
        try:
            bytes.fromhex(m.group(1)).decode('utf-8')
        except (UnicodeDecodeError, ValueError):
            return False
    return True

def run_c14(ctx):
    ctx.rule = ('no PANIC / crash / non-termination / invalid-UTF-8 String on: the exhaustive 4-token space, random byte strings, mutated documents, '
                'depth profiles 126..129 over every bracket mix, 10^5..10^6-deep nesting, megabyte strings and numbers, huge exponents, histories of many values '
                'through one stream (depth budget restored); harness built with overflow-checks and debug-assertions, panics caught per case')
    rng = ctx.rng
    for cfg in ctx.cfgs:
        L = ctx.letters(cfg)
        def scan(inputs, ops=('pv', 'pi')):
            v = []
            for op in ops:
                for src in ('b', 'r1', 's'):
                    ins = [d for d in inputs if src != 's' or gen.is_utf8(d)]
                    outs = ctx.impl(cfg, ['%s %s %s %s' % (op, L, src, hx(d)) for d in ins])
                    for d, o in zip(ins, outs):
                        if o.startswith('ok ') and not strings_utf8(o):
                            v.append({'what': 'invalid-utf8-string', 'cfg': cfg, 'input': hx(d), 'op': op, 'src': src,
                                      'expected': 'every String / key in the result is valid UTF-8', 'actual': o[:300], 'aux': {'op': op, 'src': src}})
                        if o == 'PANIC' or o.startswith('CRASH') or o == '':
                            v.append({'what': 'panic-or-crash', 'cfg': cfg, 'input': hx(d) if len(d) < 4000 else 'len=%d head=%s' % (len(d), hx(d[:40])), 'op': op, 'src': src,
                                      'expected': 'a value or an error', 'actual': o, 'aux': {'op': op, 'src': src}})
                        elif o.startswith('ok'):
                            ctx.distinct_nontrivial += 1
            return v
        surr = [b'"' + p + e1 + e2 + q + b'"' for p in (b'', b'A') for q in (b'', b'z') for e1 in (b'\\ud7ff', b'\\ud800', b'\\udbff', b'\\udc00', b'\\udc01', b'\\udfff', b'\\ue000', b'')
                for e2 in (b'\\ud800', b'\\udbff', b'\\udc00', b'\\udfff', b'\\u0041', b'\\n', b'x', b'')]
        surr += [b'{' + s_ + b':0}' for s_ in surr[:200]]
        surr += gen.escape_docs()
        ctx.violations += scan(surr)
        for batch in chunks(itertools.chain(gen.enum_tokens(4 if ctx.tier == 'thorough' else 3),
                                            (bytes(rng.randrange(256) for _ in range(rng.randrange(1, 40))) for _ in range(50000)),
                                            doc_inputs(ctx, 1000)), 300000):
            note_dist(ctx, batch)
            ctx.violations += scan(batch)
        # pathological sizes
        big = [b'[' * 100000, b'{"a":' * 100000, b'[' * 1000000, b'[' * 127 + b'1' + b']' * 127,
               b'"' + b'a' * 1000000 + b'"', b'"' + b'\\u00e9' * 100000 + b'"', b'1' * 1000000, b'0.' + b'1' * 1000000,
               b'1e' + b'9' * 100000, b'1e-' + b'9' * 100000, b'-' + b'9' * 400 + b'e-400', b'[' + b'1,' * 300000 + b'1]',
               b'"' + b'\\ud83d' * 1000, b'"' + b'\xf0\x9f\x98\x80' * 100000 + b'"', b'{' + b','.join(b'"k%d":%d' % (i, i) for i in range(50000)) + b'}']
        if cfg == 'ud':
            big = [b'[' * 1000 + b']' * 1000, b'{"a":' * 1000 + b'1' + b'}' * 1000]
        ctx.violations += scan(big)
        for d in big[:3]:
            ctx.sample({'input': 'len=%d head=%s' % (len(d), hx(d[:16])), 'cfg': cfg})
        # skipped values are scanned iteratively at any depth
        deep = [b'[' * 200000 + b']' * 200000, b'{"a":' * 100000 + b'1' + b'}' * 100000]
        outs = ctx.impl(cfg, ['pi %s b %s' % (L, hx(d)) for d in deep])
        for d, o in zip(deep, outs):
            if o != 'ok':
                ctx.violations.append({'what': 'skip-not-iterative', 'cfg': cfg, 'input': 'len=%d head=%s' % (len(d), hx(d[:16])), 'expected': 'ok (ignored content is scanned without recursion at any depth)', 'actual': o, 'shrinkable': False})
        ctx.violations += judge_depth(ctx, cfg)
        # depth budget restored after each value of a stream: 127-deep values repeatedly, then a 128-deep one
        one = b'[' * 127 + b']' * 127
        stream = (one + b' ') * 5 + b'[' * 128
        lines = ['st %s v %s 7 %s' % (L, src, hx(stream)) for src in ('b', 'r1')]
        io, mo = ctx.both(cfg, lines)
        for a, m in zip(io, mo):
            items = a.split(' ')
            if cut_at_error(a) != cut_at_error(m) or not all(x.startswith('Va(') for x in items[:5]) or 'RecLimit' not in items[5]:
                ctx.violations.append({'what': 'depth-budget-not-restored', 'cfg': cfg, 'input': hx(stream), 'expected': m, 'actual': a, 'shrinkable': False})
        ctx.violations += judge_typed_budget(ctx, cfg)
        if cfg == ctx.cfgs[-1]:
            typed_part(ctx, 'run_c14_typed')
    ctx.violations += judge_unbounded(ctx)
    if 'fr' in getattr(ctx, 'side_cfgs', []) and 'fr' not in ctx.cfgs:
        # float_roundtrip side configuration: the long-literal paths hand the shared scratch buffer to lexical, which unwraps every byte as a digit —
        # a stale byte from an earlier string / number panics there: documents with long literals AFTER scratch-dirtying items, all three sources
        rng = ctx.rng
        dirt = [b'"\\n"', b'"a\\u0037b"', b'18446744073709551616123', b'1.2345678901234567890123', b'"plain"', b'{"k\\t":"v"}']
        longs = [b'0.00123456789012345678901', b'0.00000123456789012345678901234', b'123456789012345678901234567890.5', b'0.000000000000000000001234567890123456789e10',
                 b'-0.0000000000000000000000000000000000001234567890123456789012345', b'12345678901234567890e-5']
        docs = [b'[' + a + b', ' + b + b']' for a in dirt for b in longs] + [b'{"a":' + a + b',"b":' + b + b'}' for a in dirt[:3] for b in longs] + \
               [b'[' + b', '.join(rng.choice(dirt + longs) for _ in range(4)) + b']' for _ in range(300)]
        # exponents at and around i32::MAX / i32::MIN (de.rs lets the decimal exponent saturate and relies on lexical to add its table bias safely)
        for e in (2147483647, 2147483646, 2147483300, 2147483297, 2147483648, 4294967296, 99999999999, 2147483647 - 350, 2147483647 - 351):
            for m in (b'1', b'0.1', b'123456789012345678901234567890', b'1.2345678901234567890123', b'0', b'0.000'):
                docs += [m + b'e' + str(e).encode(), m + b'e-' + str(e).encode(), b'[' + m + b'E+' + str(e).encode() + b']']
        for src in ('b', 'r1', 's'):
            ctx.violations += judge_c14(ctx, 'fr', docs, {'op': 'pv', 'src': src})
        ctx.violations += [dict(v, what='wrong-value-after-scratch-reuse') for v in judge_c02(ctx, 'fr', docs)]
    # error construction itself must not panic: every data error scans its own message for a trailing " at line L column C" (parse_line_col), and the
    # message echoes input text; (i) the message-level model check, (ii) input strings carrying such tails (ASCII and non-ASCII numerics, cut inside a
    # multi-byte character's neighbourhood) read into a type that rejects them
    for cfg in ctx.cfgs:
        ctx.violations += judge_errmsg(ctx, cfg, 800)
        tails = [b' at line 3', b' at line \xd9\xa3', b' at line 3 column \xd9\xa4', b' at line 1\xd9\xa3 column 2', b' at line \xc2\xb2 column 1', b' at line \xef\xbc\x93',
                 b' at line 7 column 3', b' at line 18446744073709551616 column 1', b' at line 1 column \xc2\xbd', b' at line  column ', b' at line 0 column 0']
        docs = [b'"' + pre + t + b'"' for t in tails for pre in (b'', b'Bird', b'\xc3\xa9')] + [b'{"a":1,"b' + t + b'":2}' for t in tails]
        L = ctx.letters(cfg)
        lines = []
        for d in docs:
            for ty in ('n2', 'B', 'u', 'an0', 'S(61:n0)', 'E(%s:u)' % hx(b'Cat')):
                for src in ('s', 'b', 'r1'):
                    lines.append('pt %s %s %s %s' % (L, src, ty, hx(d)))
        outs = ctx.impl(cfg, lines, 'sjh_typed')
        for ln, o in zip(lines, outs):
            if o == 'PANIC' or o.startswith('CRASH') or o == '':
                ctx.violations.append({'what': 'panic-while-building-an-error', 'cfg': cfg, 'input': ln.split(' ')[-1], 'expected': 'an error value', 'actual': o, 'shrinkable': False, 'case': ln})
        ctx.count('error-message-tails', len(lines))

def judge_unbounded(ctx):
    """unbounded_depth build (side configuration in the quick tier): with disable_recursion_limit() deeper documents parse — through the
    deserializer directly AND through a stream iterator made from it (into_iter() must keep the flag) for every source; with the limit left
    enabled the same build still rejects the 128th level.  Model and implementation must agree."""
    cfg = 'ud'
    if cfg not in list(ctx.cfgs) + list(getattr(ctx, 'side_cfgs', [])):
        return []
    Lu, Ll = ctx.letters(cfg, True), ctx.letters(cfg)
    v = []
    docs = []
    for depth in (127, 128, 129, 300, 3000):
        for pat in ('[', '{"a":', '[{"k":'):
            unit_close = {'[': b']', '{"a":': b'}', '[{"k":': b'}]'}[pat]
            inner = b'1' if pat != '[' else b''
            n = depth if pat != '[{"k":' else depth // 2
            docs.append((depth, pat.encode() * n + inner + unit_close * n))
    lines, meta = [], []
    for depth, d in docs:
        for L in (Lu, Ll):
            for src in ('b', 'r1', 's'):
                lines.append('pv %s %s %s' % (L, src, hx(d))); meta.append((depth, d, L, 'pv ' + src))
            for src in ('b', 'r1', 's', 'r3+m'):
                lines.append('st %s v %s 3 %s' % (L, src, hx(d + b' ' + d))); meta.append((depth, d, L, 'st ' + src))
    io, mo = ctx.both(cfg, lines)
    for (depth, d, L, how), a, m in zip(meta, io, mo):
        short = 'depth=%d len=%d head=%s' % (depth, len(d), hx(d[:12]))
        if a == 'SKIP':
            continue
        am = cut_at_error(a) if how.startswith('st') else a
        mm = cut_at_error(m) if how.startswith('st') else m
        # values this deep are not printed back in full by either side beyond equality of the lines
        if am != mm:
            v.append({'what': 'unbounded-depth-model-mismatch', 'cfg': cfg, 'input': short, 'how': how, 'letters': L, 'expected': 'model: ' + m[:160], 'actual': a[:160], 'shrinkable': False})
        elif L == Lu and not (a.startswith('ok') or a.startswith('Va') or a.startswith('Vo')):
            v.append({'what': 'unbounded-depth-rejected', 'cfg': cfg, 'input': short, 'how': how, 'expected': 'accepted with the limit disabled', 'actual': a[:160], 'shrinkable': False})
        elif L == Ll and depth >= 128 and 'RecLimit' not in a:
            v.append({'what': 'depth-limit-not-enforced', 'cfg': cfg, 'input': short, 'how': how, 'expected': 'recursion limit exceeded (limit not disabled)', 'actual': a[:160], 'shrinkable': False})
        elif not ctx.quiet:
            ctx.distinct_nontrivial += 1
    return v

def judge_c14(ctx, cfg, inputs, aux=None):
    L = ctx.letters(cfg)
    op, src = (aux or {}).get('op', 'pv'), (aux or {}).get('src', 'b')
    outs = ctx.impl(cfg, ['%s %s %s %s' % (op, L, src, hx(d)) for d in inputs])
    return [{'what': 'panic-or-crash', 'cfg': cfg, 'input': hx(d), 'op': op, 'src': src, 'expected': 'a value or an error', 'actual': o, 'aux': aux}
            for d, o in zip(inputs, outs) if o == 'PANIC' or o.startswith('CRASH')]

# ================================================================== C19: raw values / the skip scanner
def judge_c19(ctx, cfg, inputs, aux=None):
    L = ctx.letters(cfg)
    v = []
    for op in ('pr', 'pi'):
        for src in ('b', 'r1'):
            lines = ['%s %s %s %s' % (op, L, src, hx(d)) for d in inputs]
            io, mo = ctx.both(cfg, lines)
            if not ctx.quiet and src == 'b':
                tally(ctx, inputs, io)
            for d, a, m in zip(inputs, io, mo):
                if is_ok(a) != is_ok(m):
                    v.append({'what': 'scanner-accepts-non-json' if is_ok(a) else 'scanner-rejects-json', 'cfg': cfg, 'input': hx(d), 'op': op,
                              'expected': 'scanner grammar (proved model): ' + m, 'actual': a})
                elif is_ok(a) and a != m:
                    v.append({'what': 'raw-span', 'cfg': cfg, 'input': hx(d), 'op': op, 'expected': 'exact source span: ' + m, 'actual': a})
                elif a != m:
                    ctx.disagreements.append({'input': hx(d), 'impl': a, 'model': m, 'cfg': cfg, 'op': op})
    return v

def judge_c19_from_string(ctx, cfg, inputs):
    """RawValue::from_string accepts exactly the strings that are one JSON text and holds exactly the value's bytes; a RawValue serialises
    back verbatim, also through to_value (direct checks on the implementation; expected span = what from_str::<Box<RawValue>> captures)"""
    L = ctx.letters(cfg)
    ins = [d for d in inputs if gen.is_utf8(d)]
    a = ctx.impl(cfg, ['rf %s' % hx(d) for d in ins])
    b = ctx.impl(cfg, ['pr %s s %s' % (L, hx(d)) for d in ins])
    v = []
    for d, x, y in zip(ins, a, b):
        fx = x.split(' ')
        if is_ok(x) != is_ok(y):
            v.append({'what': 'from_string-accepts-differently', 'cfg': cfg, 'input': hx(d), 'expected': 'same verdict as from_str::<Box<RawValue>>: ' + y, 'actual': x})
        elif is_ok(x):
            span = y.split(' ')[1]
            if fx[1] != span:
                v.append({'what': 'from_string-span', 'cfg': cfg, 'input': hx(d), 'expected': 'exactly the bytes of the value: ' + span, 'actual': x})
            elif fx[2] != span or fx[3] != 'same':
                v.append({'what': 'raw-not-verbatim', 'cfg': cfg, 'input': hx(d), 'expected': 'to_string(&raw) = %s and to_value(&raw) = the value that text denotes' % span, 'actual': x})
            elif not ctx.quiet:
                ctx.distinct_nontrivial += 1
    return v


def raw_docs(ctx, n):
    """arrays / objects whose elements are arbitrary generated values with every whitespace placement around them (the nested placements of a
    RawValue), the same documents mutated, and the element texts alone with surrounding whitespace (from_string / top level)"""
    rng = ctx.rng
    def ws():
        return rng.choice([b'', b'', b' ', b'\n', b'\t ', b' \r\n '])
    for _ in range(n):
        k = rng.choice([0, 1, 1, 2, 3, 5])
        elems = [gen.rand_doc(rng, depth=rng.choice([0, 1, 2, 3])) for _ in range(k)]
        arr = b'[' + ws() + b','.join(ws() + e + ws() for e in elems) + b']'
        keys = [rng.choice([b'a', b'b', b'k\\u0041', b'', b'\xc3\xa9', b'a']) for _ in elems]
        obj = b'{' + ws() + b','.join(ws() + b'"' + kk + b'"' + ws() + b':' + ws() + e + ws() for kk, e in zip(keys, elems)) + b'}'
        yield ws() + arr + ws()
        yield ws() + obj + ws()
        for e in elems[:2]:
            yield ws() + e + ws()
        if rng.random() < 0.3:
            for m in gen.mutations(rng, arr, maxn=6):
                yield m
            for m in gen.mutations(rng, obj, maxn=6):
                yield m

def judge_c19_raw(ctx, cfg, docs):
    """Model/RawM.v vs the real crate: from_string, top-level capture per source, Vec<Box<RawValue>>, map String -> Box<RawValue> in arrival order,
    serialising a Vec of raws compact and pretty; on the implementation side every captured value is also serialised back (to_string,
    to_string_pretty, inside an array, Display), sent through to_value and re-captured borrowed — any difference shows up as a DIFF-suffix"""
    L = ctx.letters(cfg)
    lines = []
    for d in docs:
        h = hx(d)
        if gen.is_utf8(d):
            lines.append('rfs %s %s' % (L, h))
        for src in ('s', 'b', 'r1', 'r3'):
            if src == 's' and not gen.is_utf8(d):
                continue
            lines.append('rtop %s %s %s' % (L, src, h))
            if d.lstrip()[:1] == b'[':
                lines.append('rnest %s %s %s' % (L, src, h))
            if d.lstrip()[:1] == b'{':
                lines.append('robj %s %s %s' % (L, src, h))
    rng = ctx.rng
    valid = [d.strip(b' \n\t\r') for d in docs if gen.is_utf8(d)]
    for i in range(0, len(valid) - 3, 3):
        items = valid[i:i + rng.choice([0, 1, 2, 3])]
        fmt = rng.choice(['c', 'p2020', 'p09', 'p'])
        lines.append('rser %s %s' % (fmt, ','.join(hx(x) for x in items)) if items else 'rser %s' % fmt)
    io, mo = ctx.both(cfg, lines, impl_name='sjh_raw', model_name='sjdriver_raw')
    v = []
    for line, a, m in zip(lines, io, mo):
        if a == 'SKIP':
            continue
        if a != m:
            op = line.split(' ')[0]
            what = 'raw-direct-relation' if 'DIFF-' in a else ('raw-' + op + '-differs-from-model')
            v.append({'what': what, 'cfg': cfg, 'input': line.split(' ')[-1], 'expected': 'model (Model/RawM.v): ' + m[:300], 'actual': a[:300], 'shrinkable': False, 'case': line[:400]})
        elif not ctx.quiet and a.startswith('ok'):
            ctx.distinct_nontrivial += 1
    ctx.count('raw-model-lines', len(lines))
    return v

def judge_c19_driven(ctx, cfg, docs):
    """ONE Deserializer, several Box<RawValue> reads in a row with failures swallowed (manual driving / a lenient wrapper): every source must give the
    same sequence of captured spans — a value read after a failed one holds exactly its own source text (nothing of the failed value, nothing of what
    was consumed in between).  Evaluated on the implementation: slice is the reference, &str and readers (chunk sizes 1 and 3) must equal it."""
    L = ctx.letters(cfg)
    rng = ctx.rng
    seqs = [b'nulx 42 ', b'[1, {"a": fals! [true, "x"] ', b'1 2 3', b'"a" tru 7 [1]', b'{"k":1} } [2]', b'[1,] "s" 5']
    vals = [d.strip(b' \n\t\r') for d in docs if gen.is_utf8(d) and 0 < len(d) < 60]
    junk = [b'nulx', b'tru', b'fals!', b'}', b'[1,]', b'"a\\q"', b'01', b'-', b'{"a" 1}', b'@']
    for _ in range(600 if ctx.tier == 'quick' else 6000):
        parts = [rng.choice(junk) if rng.random() < 0.4 else (rng.choice(vals) if vals else b'1') for _ in range(rng.choice([2, 3, 4]))]
        seqs.append(b' '.join(parts) + rng.choice([b'', b' ']))
    v = []
    base = ctx.impl(cfg, ['rseq %s b 5 %s' % (L, hx(d)) for d in seqs], 'sjh_raw')
    for src in ('s', 'r1', 'r3'):
        outs = ctx.impl(cfg, ['rseq %s %s 5 %s' % (L, src, hx(d)) for d in seqs], 'sjh_raw')
        for d, a, b in zip(seqs, base, outs):
            if b == 'SKIP' or a == 'SKIP':
                continue
            if a != b:
                v.append({'what': 'raw-sequence-differs-between-sources', 'cfg': cfg, 'input': hx(d), 'expected': 'slice: ' + a[:300], 'actual': 'source %s: %s' % (src, b[:300]), 'shrinkable': False})
            elif not ctx.quiet and 'ok:' in a:
                ctx.distinct_nontrivial += 1
    ctx.count('raw-driven-sequences', len(seqs) * 4)
    return v

def judge_c19_rawde(ctx, cfg):
    """`impl Deserializer for &RawValue` / IntoDeserializer / to_raw_value (raw.rs): T::deserialize(&*raw) for the universal seed on a captured text vs the model
    (Model/RawDe.v = the typed parser on a str reader WITHOUT the trailing check, literally the code), vs from_str::<T>(raw.get()) where C19_raw_de_vs_from_str says
    they agree (everything except a 128-bit integer target at the head of a fraction/exponent literal), and to_raw_value(x) re-captured verbatim"""
    import rawde_gen as G
    rng = ctx.rng
    L = ctx.letters(cfg)
    types = G.TYPES[::2] + ['i4', 'n4', 'oi4', 'wn4'] if ctx.tier == 'thorough' else G.TYPES[::3] + ['i4', 'n4', 'oi4', 'wn4']
    pairs = [(t, x) for t in types for x in G.TEXTS]
    pairs += [(t, x) for t in ['b', 'i4', 'v', 'ai0'] for x in G.NOT_JSON]
    for _ in range(2000 if ctx.tier == 'quick' else 10000):
        pairs.append((rng.choice(G.TYPES), G.rand_text(rng)))
    rd = ['rd %s %s %s' % (L, t, hx(x.encode())) for t, x in pairs]
    rs = ['rs' + l[2:] for l in rd]
    rtr = [l.replace('rtr - ', 'rtr %s ' % L, 1) for l in G.rtr_cases()]
    cases = rd + rs + rtr
    io, mo = ctx.both(cfg, cases, impl_name='sjh_rawde', model_name='sjdriver_rawde')
    v, n = [], len(rd)
    for i, (c, a, m) in enumerate(zip(cases, io, mo)):
        parts = a.split(' DIFF-')
        head, flags = parts[0], parts[1:]
        f = c.split(' ')
        rec = {'cfg': cfg, 'op': f[0], 'ty': f[2], 'input': f[3] if len(f) > 3 else '', 'shrinkable': False}
        if head != m:
            v.append(dict(rec, what='rawvalue-deserializer-differs-from-model', expected='proved model: ' + m[:300], actual=a[:300]))
        elif any(fl != 'from_str' for fl in flags):
            v.append(dict(rec, what='rawvalue-' + '-'.join(flags), expected='into_deserializer = deserialize(&raw); to_raw_value text re-captured verbatim', actual=a[:300]))
        elif i < n and (('from_str' in flags) != (mo[i] != mo[n + i])):
            v.append(dict(rec, what='rawvalue-deserializer-vs-from_str', expected='differs from from_str::<T>(raw.get()) exactly where the model does (128-bit head on a fraction/exponent literal)', actual=a[:300]))
        elif head.startswith('ok'):
            ctx.distinct_nontrivial += 1
    ctx.count('rawvalue-as-deserializer', len(cases))
    return v

def run_c19(ctx):
    ctx.rule = ('Box<RawValue> and IgnoredAny over the exhaustive 4-token space, generated documents with every whitespace placement, and their mutations, slice and '
                '1-byte reader; captured span and accept/reject compared with the model (proved: exactly the source text of one value; scanner = RFC 8259 grammar minus '
                'surrogate pairing, numeric range, depth); nested placements (array element, object value, struct field) through the typed harness; non-trivial as C01')
    for cfg in ctx.cfgs:
        for batch in chunks(space_inputs(ctx) if (ctx.tier == 'thorough' and cfg == ctx.cfgs[0]) else itertools.chain(gen.enum_tokens(3), itertools.islice(gen.enum_tokens(4, minlen=4), 0, None, 5), doc_inputs(ctx, 1500)), 300000):
            note_dist(ctx, batch)
            ctx.violations += judge_c19(ctx, cfg, batch)
            ctx.violations += judge_c19_from_string(ctx, cfg, batch[::7])
            for d in batch[:3]:
                ctx.sample({'op': 'pr/pi', 'cfg': cfg, 'input_hex': hx(d)})
        ws_docs = [w1 + d + w2 for d in [b'null', b'1', b'"x"', b'[1, 2]', b'{"a" : [ ] }', b'-0.5e+3'] for w1 in (b'', b' ', b'\n\t') for w2 in (b'', b' ', b'\n', b' \r\n ')]
        ctx.violations += judge_c19_from_string(ctx, cfg, ws_docs)
        rd = list(raw_docs(ctx, 1500 if ctx.tier == 'quick' else 15000)) + ws_docs + list(itertools.islice(gen.enum_tokens(3), 0, None, 3))
        ctx.violations += judge_c19_raw(ctx, cfg, rd)
        ctx.violations += judge_c19_driven(ctx, cfg, rd)
        ctx.violations += judge_c19_rawde(ctx, cfg)
    ctx.violations += judge_big_raw_buffers(ctx)

PARSER_TB = ['modelled, not verified: std::io::Bytes (one-byte reads, Interrupted retried), memchr, str::from_utf8, BTreeMap/IndexMap insert, rustc float literal parsing (POW10), IEEE arithmetic of f64 (Flocq model)',
             'the three readers are abstracted to one cursor (rest, off, peeked) — tied by running str/slice/reader sources with chunk schedules']

register('C01', cfgs={'quick': ['def'], 'thorough': ['def', 'ap', 'fr', 'ud']}, side_cfgs=['ap', 'raw', 'fr'], run=run_c01, judge=judge_c01, extended=run_c01, trusted_base=PARSER_TB)
register('C02', cfgs={'quick': ['def', 'po'], 'thorough': ['def', 'po', 'fr', 'ap']}, side_cfgs=['ap', 'raw', 'fr'], run=run_c02, judge=judge_c02, extended=run_c02, trusted_base=PARSER_TB)
register('C09', cfgs={'quick': ['def'], 'thorough': ['def', 'raw', 'ap', 'fr', 'po', 'ud']}, side_cfgs=['ap', 'fr', 'raw'], run=run_c09, judge=judge_c09, extended=run_c09, trusted_base=PARSER_TB)
register('C10', cfgs={'quick': ['def', 'raw'], 'thorough': ['def', 'raw', 'ap']}, side_cfgs=['ap', 'fr'], run=run_c10, judge=None, extended=run_c10, trusted_base=PARSER_TB)
register('C11', cfgs={'quick': ['def'], 'thorough': ['def']}, side_cfgs=['ap', 'fr'], run=run_c11, judge=judge_c11, extended=run_c11, trusted_base=PARSER_TB)
register('C12', cfgs={'quick': ['def'], 'thorough': ['def']}, side_cfgs=['fr', 'ap', 'ud'], run=run_c12, judge=judge_c12, extended=run_c12, trusted_base=PARSER_TB)
register('C13', cfgs={'quick': ['def'], 'thorough': ['def']}, side_cfgs=['ap', 'raw'], run=run_c13, judge=None, extended=run_c13, trusted_base=PARSER_TB)
register('C14', cfgs={'quick': ['def'], 'thorough': ['def', 'ud']}, side_cfgs=['ud', 'fr'], run=run_c14, judge=judge_c14, extended=run_c14, trusted_base=PARSER_TB)
register('C19', cfgs={'quick': ['raw'], 'thorough': ['raw', 'rawpofr']}, run=run_c19, judge=judge_c19, extended=run_c19, trusted_base=PARSER_TB)
