"""checks — per-property case generators and judges.  A property is described by
   inputs(ctx, cfg) -> list of inputs (bytes or tuples) and judge(ctx, cfg, inputs) -> list of violations.
   A violation is a dict with at least: what (class of failure), cfg, input (hex or structured), expected, actual."""
import os, sys, json, random, collections
import engine, gen
from engine import log

class Ctx:
    def __init__(self, pid, tier, seed, cfgs, model_ok):
        self.pid, self.tier, self.seed, self.cfgs, self.model_ok = pid, tier, seed, cfgs, model_ok
        self.rng = random.Random(seed)
        self.violations = []
        self.disagreements = []
        self.evaluations = 0
        self.distinct_nontrivial = 0
        self.samples = []
        self.hist = collections.Counter()
        self.rule = ''
        self.quiet = False
    def letters(self, cfg, unlimited=False):
        l = engine.CONFIGS[cfg][1]
        if unlimited:
            l = (l if l != '-' else '') + 'u'
        return l
    def impl(self, cfg, lines, name='sjh'):
        if not self.quiet:
            self.evaluations += len(lines)
        return engine.run_impl(cfg, lines, tag=self.pid, name=name)
    def model(self, lines, name='sjdriver'):
        if not self.model_ok:
            return ['NOMODEL'] * len(lines)
        return engine.run_model(lines, tag=self.pid, name=name)
    def both(self, cfg, lines, impl_name='sjh', model_name='sjdriver'):
        from concurrent.futures import ThreadPoolExecutor
        with ThreadPoolExecutor(max_workers=2) as ex:
            fi = ex.submit(self.impl, cfg, lines, impl_name)
            fm = ex.submit(self.model, lines, model_name)
            return fi.result(), fm.result()
    def sample(self, obj):
        if len(self.samples) < 12:
            self.samples.append(obj)
    def count(self, key, n=1):
        self.hist[key] += n

REGISTRY = {}

def register(pid, **kw):
    REGISTRY[pid] = kw

def match_known(v, known):
    for k in known:
        m = k.get('match', {})
        if all(str(v.get(a)) == str(b) for a, b in m.items()):
            return k
    return None

def _ddmin(data, test):
    """classic byte-level reduction: test(bytes) -> True if still failing"""
    n = 2
    while len(data) >= 2:
        chunk = max(1, len(data) // n)
        reduced = False
        cands = [data[:i] + data[i + chunk:] for i in range(0, len(data), chunk)]
        res = test(cands)
        for c, r in zip(cands, res):
            if r:
                data = c
                n = max(n - 1, 2)
                reduced = True
                break
        if not reduced:
            if chunk == 1:
                break
            n = min(len(data), n * 2)
    return data

def minimize_and_dedupe(ctx, spec, viols):
    """keep one violation per class; shrink its input when the property provides a single-input judge"""
    by = collections.OrderedDict()
    for v in viols:
        by.setdefault((v.get('what'), v.get('cfg')), v)
    out = []
    judge = spec.get('judge')
    ctx.quiet = True
    for (what, cfg), v in list(by.items())[:5]:
        if judge and isinstance(v.get('input'), str) and v.get('shrinkable', True):
            try:
                data = bytes.fromhex(v['input']) if v['input'] != '-' else b''
                def test(cands):
                    vs = judge(ctx, cfg, cands, v.get('aux'))
                    bad = set(x['input'] for x in vs if x.get('what') == what)
                    return [gen.hx(c) in bad for c in cands]
                small = _ddmin(data, test)
                if len(small) < len(data):
                    vs = [x for x in judge(ctx, cfg, [small], v.get('aux')) if x.get('what') == what]
                    if vs:
                        vs[0]['shrunk_from'] = v['input']
                        v = vs[0]
            except Exception as e:
                log('shrinking failed: %r' % e)
        out.append(v)
    ctx.quiet = False
    return out

def replay(ctx, spec, path):
    r = json.load(open(path))
    judge = spec.get('judge')
    if 'input' not in r or judge is None:
        print('replay file names no single input (tie broken: %s); re-run the check itself' % r.get('no_longer_checks', r.get('broken')))
        return 0
    inp = r['input']
    data = bytes.fromhex(inp) if isinstance(inp, str) and inp != '-' else b''
    cfg = r.get('cfg', ctx.cfgs[0])
    if cfg not in ctx.cfgs:
        engine.build_harness([cfg])
    vs = judge(ctx, cfg, [data], r.get('aux'))
    if vs:
        for v in vs:
            print('REPLAY still fails: %s' % json.dumps(v)[:600])
            print('VIOLATION property=%s replay=%s' % (ctx.pid, path))
        return 1
    print('REPLAY passes now')
    return 0

from checks import parser  # noqa: E402,F401
for _m in ('ptr', 'apnum', 'floatdef', 'map', 'ser', 'typed', 'str5', 'lex', 'roundtrip', 'fv'):
    if os.path.exists(os.path.join(os.path.dirname(__file__), _m + '.py')) and _m in open(os.path.join(engine.VERIF, 'tools', 'checks', 'ENABLED')).read().split():
        __import__('checks.' + _m)
