"""C07 — float_roundtrip: decimal -> float conversion is correctly rounded; floats survive serialise-then-deserialise.

Three independent answers are compared on every literal:
  * the IMPLEMENTATION  (harness binaries `sjh_lex` ops f64/f32/rt64/rt32/sweep32 and `sjh` op pv, built from /repo's working tree),
  * the exact ORACLE IN PYTHON (this file: big-integer round-to-nearest-even, no float() anywhere),
  * the COQ side: the proved oracle `rne_decimal` through the parser model (`sjdriver` pv) and through `sjdriver_lex` (`or`),
    plus the function-for-function model of lexical's ALGORITHM (Model/Lex.v) compared step by step with the real
    functions (ops lx / ef of a build of sjh_lex with `--cfg fast_arithmetic="64"`, which includes /repo/src/lexical by path),
    and the limb arithmetic of math.rs (abstracted to Z in the model) compared with Python big integers (ops bi).
implementation != correctly rounded  =>  violation (input, both bit patterns)."""
import os, re, sys, itertools, subprocess, shutil
from concurrent.futures import ThreadPoolExecutor
import engine, gen
from gen import hx
from checks import register, log

try:
    sys.set_int_max_str_digits(0)
except AttributeError:
    pass

# ====================================================================================== exact oracle
class Fmt:
    def __init__(self, name, p, emin, width, letter):
        self.name, self.p, self.emin, self.width, self.letter = name, p, emin, width, letter
        self.inf = ((1 << (width - p)) - 1) << (p - 1)          # exponent field all ones, fraction 0
        self.sign = 1 << (width - 1)
        self.hexw = width // 4
        self.emax10 = 310 if width == 64 else 40                 # 10^emax10 is far beyond the largest finite value
        self.emin10 = -345 if width == 64 else -66
    def hex(self, bits):
        return '%0*x' % (self.hexw, bits)
    def parts(self, bits):
        """finite positive bits -> (M, k) with value M * 2^k"""
        E = bits >> (self.p - 1)
        f = bits & ((1 << (self.p - 1)) - 1)
        return (f, self.emin) if E == 0 else (f | (1 << (self.p - 1)), E - 1 + self.emin)

F64 = Fmt('f64', 53, -1074, 64, 'd')
F32 = Fmt('f32', 24, -149, 32, 's')

def rne(m, e10, fmt):
    """bits of the binary float nearest (ties to even) to m * 10^e10, m >= 0 (fmt.inf when it rounds to infinity);
    second component: was the conversion inexact"""
    if m == 0:
        return 0, False
    nd = len(str(m))
    if e10 + nd - 1 > fmt.emax10:
        return fmt.inf, True
    if e10 + nd < fmt.emin10 - 20:
        return 0, True
    if e10 >= 0:
        num, den = m * 10 ** e10, 1
    else:
        num, den = m, 10 ** (-e10)
    e2 = num.bit_length() - den.bit_length()          # 2^(e2-1) < num/den < 2^(e2+1)
    lt = (num < (den << e2)) if e2 >= 0 else ((num << -e2) < den)
    if lt:
        e2 -= 1                                       # now 2^e2 <= num/den < 2^(e2+1)
    k = max(e2 - (fmt.p - 1), fmt.emin)               # exponent of the unit in the last place
    if k >= 0:
        d2 = den << k
        q, r = divmod(num, d2)
    else:
        d2 = den
        q, r = divmod(num << -k, den)
    if 2 * r > d2 or (2 * r == d2 and (q & 1)):
        q += 1
    bits = ((k - fmt.emin) << (fmt.p - 1)) + q        # carries into the exponent field by construction
    return min(bits, fmt.inf), r != 0

LIT = re.compile(rb'^(-?)(0|[1-9][0-9]*)(?:\.([0-9]+))?(?:[eE]([+-]?[0-9]+))?$')

def lit_parts(lit):
    """JSON number literal -> (negative, m, e10, is_integer_syntax) with |value| = m * 10^e10 exactly; None if not a JSON number"""
    mm = LIT.match(lit)
    if not mm:
        return None
    neg, ip, fp, ep = mm.groups()
    fp = fp or b''
    e = int(ep) if ep else 0
    return (neg == b'-', int(ip + fp), e - len(fp), fp == b'' and ep is None)

def expect_typed(lit, fmt):
    """what from_str::<f64>/<f32> must return under float_roundtrip; second: inexact?"""
    p = lit_parts(lit)
    if p is None:
        return None, False
    neg, m, e10, _ = p
    bits, inexact = rne(m, e10, fmt)
    if bits >= fmt.inf:
        return 'err NumRange', True
    return 'ok ' + fmt.hex(bits | (fmt.sign if neg else 0)), inexact

def expect_value(lit):
    """prefix of what `pv` must print for the literal as a Value (non arbitrary_precision builds)"""
    p = lit_parts(lit)
    if p is None:
        return None
    neg, m, e10, isint = p
    if isint:
        if not neg and m <= 2 ** 64 - 1:
            return 'ok u%d' % m
        if neg and 0 < m <= 2 ** 63:
            return 'ok i-%d' % m
    bits, _ = rne(m, e10, F64)
    if bits >= F64.inf:
        return 'err NumRange'
    return 'ok d' + F64.hex(bits | (F64.sign if neg else 0))

# ====================================================================================== spellings
def exact_digits(M, k):
    """M * 2^k as (decimal digit string, e10)"""
    if k >= 0:
        return str(M << k), 0
    return str(M * 5 ** (-k)), k

def norm_digits(D, e10):
    D2 = D.lstrip('0') or '0'
    t = len(D2) - len(D2.rstrip('0'))
    if D2 != '0' and t:
        D2, e10 = D2[:-t], e10 + t
    return D2, e10

def exp_text(rng, e):
    c = rng.choice('eeeE')
    if e < 0:
        s = '-'
    else:
        s = rng.choice(['', '', '+'])
    z = '0' * rng.choice([0, 0, 0, 0, 1, 3])
    return c + s + z + str(abs(e))

def spell(rng, D, e10, style=None):
    """a JSON literal whose exact value is int(D) * 10^e10, in a randomly chosen spelling"""
    D, e10 = norm_digits(D, e10)
    n = len(D)
    style = style or rng.choice(['sci', 'sci', 'intexp', 'plain', 'shift', 'shift', 'lead0', 'trail0'])
    if style == 'plain' and not (-1100 < e10 < 400):
        style = 'sci'
    if style == 'sci':
        s = D[0] + ('.' + D[1:] if n > 1 else rng.choice(['', '.0'])) + exp_text(rng, e10 + n - 1)
    elif style == 'intexp':
        s = D + (exp_text(rng, e10) if e10 != 0 or rng.random() < 0.5 else '.0')
    elif style == 'plain':
        if e10 >= 0:
            s = D + '0' * e10 + rng.choice(['.0', '.000', 'e0', ''])
            if D == '0':
                s = '0' + rng.choice(['.0', '.000', 'e0'])
        elif -e10 < n:
            s = D[:n + e10] + '.' + D[n + e10:]
        else:
            s = '0.' + '0' * (-e10 - n) + D
    elif style == 'shift':
        j = rng.randrange(1, n + 1)
        s = D[:j] + ('.' + D[j:] if j < n else rng.choice(['', '.0'])) + exp_text(rng, e10 + n - j)
    elif style == 'lead0':
        z = rng.choice([1, 2, 5, 19, 20, 25, 40])
        s = '0.' + '0' * z + D + exp_text(rng, e10 + n + z)
    elif style == 'padint':
        # the digits, then zeros, all in the INTEGER part, compensated by the exponent: reaches / passes lexical's digit limit with zeros only (finding F21)
        tot = rng.choice([112, 113, 114, 115, 120, 767, 768, 769, 770, 800])
        z = max(1, tot - n)
        s = D + '0' * z + rng.choice(['', '', '.0', '.000']) + exp_text(rng, e10 - z)
    else:  # trail0
        z = rng.choice([1, 3, 19, 25])
        j = rng.randrange(1, n + 1)
        s = D[:j] + '.' + D[j:] + '0' * z + exp_text(rng, e10 + n - j)
    if rng.random() < 0.3:
        s = '-' + s
    return s.encode()

def rand_digits(rng, n):
    return str(rng.randrange(1, 10)) + ''.join(rng.choice('0123456789') for _ in range(n - 1))

# ====================================================================================== generators (families)
def midpoint_variants(rng, fmt, bits, which=None):
    """the exact midpoint between `bits` and its successor, perturbed and extended past the digit limit"""
    M, k = fmt.parts(bits)
    D, e = exact_digits(2 * M + 1, k - 1)
    D, e = norm_digits(D, e)
    lim = 768 if fmt is F64 else 113
    n = len(D)
    V = [('mid-exact', D, e),
         ('mid-last-1', str(int(D) - 1), e),
         ('mid-last+1', str(int(D) + 1), e),
         ('mid-app1', D + '1', e - 1),
         ('mid-below9', str(int(D) - 1) + '9' * rng.choice([1, 5, 30]), None),
         ('mid-cut', D[:max(1, n - rng.randrange(1, 4))], None),
         ('mid-cut17', D[:17] if n > 17 else D + '0', None),
         ('mid-cut17+1', str(int(D[:17]) + 1) if n > 17 else D + '01', None),
         ('mid-cut20', D[:rng.randrange(19, 41)] if n > 41 else D + '000000000000000000001', None)]
    c = rng.randrange(19, 27)
    if n > c:
        V.append(('mid-cut%d+1' % c, str(int(D[:c]) + 1), None))
        V.append(('mid-cut19-999', D[:19] + '9' * rng.randrange(1, 8), None))
    V.append(('mid-padint', D if n < lim else D[:40], 'pad'))
    for tot in (lim - 1, lim, lim + 1, lim + 2, lim + 40):
        if tot > n:
            V.append(('mid-zeros1@%d' % (tot - lim), D + '0' * (tot - n - 1) + '1', None))
    V.append(('mid-ones', D + '1' * max(3, lim + 3 - n), None))
    V.append(('mid-below9-long', str(int(D) - 1) + '9' * max(2, lim + 2 - n), None))
    out = []
    for name, D2, e2 in V:
        if e2 is None or e2 == 'pad':
            e2 = e + n - len(D2)         # same leading position as D
        out.append((name, D2, e2))
    if which is not None:
        out = [out[i % len(out)] for i in which]
    return out

F21_64 = b'9007199254740993' + b'0' * 753 + b'e-753'      # 769 integer digits, an exact tie: must round to even (fixed finding F21)
F21_32 = b'16777217' + b'0' * 106 + b'e-106'
HARD64 = [F21_64, b'9007199254740993' + b'0' * 753 + b'.0e-753', b'9007199254740993' + b'0' * 752 + b'e-752', b'9007199254740995' + b'0' * 760 + b'e-760',
          b'2295968209859975540999e-233', b'2.295968209859975540999e-212', b'226424503914030395399999e-235',     # fixed finding F22 (truncated mantissa, moderate path)
          b'2.2250738585072011e-308', b'2.2250738585072012e-308', b'2.2250738585072014e-308', b'2.2250738585072009e-308',
          b'4.9406564584124654e-324', b'4.9e-324', b'5e-324', b'2.4703282292062327e-324', b'2.4703282292062328e-324', b'2.47e-324', b'3e-324',
          b'1.7976931348623157e308', b'1.7976931348623158e308', b'1.7976931348623159e308', b'1.797693134862315807e308', b'1.797693134862315708e308',
          b'1.8e308', b'1e308', b'1e309', b'17976931348623157e292', b'179769313486231580793728971405303415079934132710037826936173778980444968292764750946649017977587207096330286416692887910946555547851940402630657488671505820681908902000708383676273854845817711531764475730270069855571366959622842914819860834936475292719074168444365510704342711559699508093042880177904174497791',
          b'179769313486231580793728971405303415079934132710037826936173778980444968292764750946649017977587207096330286416692887910946555547851940402630657488671505820681908902000708383676273854845817711531764475730270069855571366959622842914819860834936475292719074168444365510704342711559699508093042880177904174497792',
          b'9007199254740993', b'9007199254740992', b'9007199254740991', b'9007199254740993.0', b'9007199254740995', b'18014398509481985', b'9007199254740993e0', b'9007199254740993e1',
          b'8.98846567431158e307', b'0.1', b'0.3', b'1e23', b'8.5e22', b'1e22', b'1e-22', b'123456789012345e22', b'123456789012345e23', b'1234567890123456e22',
          b'9223372036854775807', b'9223372036854775808', b'18446744073709551615', b'18446744073709551616', b'18446744073709551615.0', b'18446744073709551616.0',
          b'1844674407370955161.5', b'184467440737095516150e-1', b'0.18446744073709551616e20', b'0.00000000000000000000000018446744073709551616',
          b'6.9294956446009195e15', b'3.7455744005952583e15', b'2.2250738585072013e-308', b'7.2057594037927933e16', b'1.00000000000000011102230246251565404236316680908203125',
          b'1.00000000000000011102230246251565404236316680908203124', b'1.00000000000000011102230246251565404236316680908203126',
          b'0.000000000000000000000000000000000000000000000000000000000000000000000000000000000000000000000000000000000000000000000001e120',
          b'100000000000000000000000000000000000000000000000000000000000000000000000000000000000000000000000000000000000000000000000e-120']
ZEROS = [b'-0.0', b'0.0', b'-0', b'0', b'0e5', b'-0e-5', b'0.000', b'-0.000e+999999999999', b'0e99999999999999999999', b'-0.0e-99999999999', b'0.0E-0',
         b'0.00000000000000000000000000000000000000000e400', b'-0e2147483648', b'0e-2147483648']
HUGE_EXP = ['2147483647', '2147483648', '2147483646', '4294967296', '99999999999', '18446744073709551616', '400', '1000', '99999']

def family_f64(ctx, scale):
    rng = ctx.rng
    P = 53
    # A. powers of two and their neighbours: exact expansions, and their 17-digit cuts
    for k in range(-1074, 1024):
        M, kk = (1 << 52, k - 52) if k >= -1022 else (1 << (k + 1074), -1074)
        b0 = F64_bits(M, kk)
        for nb in (b0 - 1, b0, b0 + 1):
            if nb <= 0 or nb >= F64.inf:
                continue
            Mn, kn = F64.parts(nb)
            D, e = exact_digits(Mn, kn)
            yield 'pow2-exact', spell(rng, D, e, rng.choice(['sci', 'intexp', 'shift']))
            D, e = norm_digits(D, e)
            if len(D) > 17:
                yield 'pow2-cut17', spell(rng, D[:17], e + len(D) - 17, 'sci')
                yield 'pow2-cut17+1', spell(rng, str(int(D[:17]) + 1), e + len(D) - 17, 'sci')
    # B. powers of ten and neighbours
    for e in range(-345, 312):
        for mant in ('1', '9999999999999999', '10000000000000001', '99999999999999999999', '100000000000000000001', '5', '2', rand_digits(rng, 17)):
            yield 'pow10', spell(rng, mant, e - len(mant) + 1, rng.choice(['sci', 'intexp']))
    # C. midpoints between adjacent floats (exact, perturbed, extended past 768 digits)
    per_exp = 1 if ctx.tier == 'quick' else 4
    for E in range(0, 2047):
        fr = [0, (1 << 52) - 1] + [rng.randrange(1 << 52) for _ in range(per_exp)]
        if ctx.tier == 'quick':
            fr = [rng.choice(fr[:2]), fr[2]]
        for f in fr:
            bits = (E << 52) | f
            if bits + 1 >= F64.inf and f != (1 << 52) - 1:
                continue
            vs = midpoint_variants(rng, F64, bits)
            if ctx.tier == 'quick':
                vs = rng.sample(vs, 3) + vs[:1]
            for name, D, e in vs:
                long = len(D) > 300
                if name == 'mid-padint':
                    yield name, spell(rng, D, e, 'padint')
                    continue
                yield name, spell(rng, D, e, rng.choice(['sci', 'intexp', 'shift'] + ([] if long else ['plain', 'lead0', 'trail0'])))
    for name, D, e in midpoint_variants(rng, F64, 0) + midpoint_variants(rng, F64, 1) + midpoint_variants(rng, F64, F64.inf - 1) \
            + midpoint_variants(rng, F64, (1 << 52) - 1) + midpoint_variants(rng, F64, 1 << 52):
        for st in ('sci', 'intexp', 'plain', 'shift'):
            yield 'boundary-' + name, spell(rng, D, e, st)
    # D. boundaries and classic hard cases
    for l in HARD64:
        yield 'hard', l
        yield 'hard', b'-' + l
    for l in ZEROS:
        yield 'zero', l
    for he in HUGE_EXP:
        for m in ('1', '0', '123456789012345678901234567890', '0.000001', '1.5', '0.0'):
            for sg in ('', '+', '-'):
                yield 'huge-exp', (m + 'e' + sg + he).encode()
    for z in (300, 400, 700, 1000):
        yield 'long-zeros', ('0.' + '0' * z + '123456789e%d' % z).encode()
        yield 'long-zeros', ('0.' + '0' * z + '12345678901234567890123e%d' % (z + 5)).encode()
        yield 'long-zeros', ('123' + '0' * z + 'e-%d' % z).encode()
        yield 'long-zeros', ('123456789012345678901' + '0' * z + '.0e-%d' % (z - 3)).encode()
        yield 'long-zeros', ('1' + '0' * z).encode()
    # E. random 1-40 digit mantissas x exponents in +-400
    for _ in range(60000 * scale):
        n = rng.randrange(1, 41)
        yield 'rand-mant', spell(rng, rand_digits(rng, n), rng.randrange(-400, 401) - rng.choice([0, 0, n]))
    # F(a). fast path and disguised fast path
    for _ in range(25000 * scale):
        m = rng.randrange(1, 1 << rng.choice([10, 30, 53, 53, 53, 54]))
        yield 'fast', spell(rng, str(m), rng.randrange(-24, 40))
    # F(b). extended-float path: 16-20 digit mantissas, moderate exponents
    for _ in range(30000 * scale):
        m = rng.randrange(1 << 53, 1 << 64) if rng.random() < 0.5 else int(rand_digits(rng, rng.randrange(16, 20)))
        yield 'moderate', spell(rng, str(m), rng.randrange(-345, 310), rng.choice(['sci', 'intexp', 'shift', 'shift']))
    # near-midpoint literals with 17-19 (and 20-40) digits: the 64-bit product lands within the error bound of halfway, bhcomp decides
    for _ in range(20000 * scale):
        E = rng.randrange(0, 2047)
        bits = (E << 52) | rng.randrange(1 << 52)
        M, k = F64.parts(bits)
        D, e = norm_digits(*exact_digits(2 * M + 1, k - 1))
        n = rng.choice([17, 18, 19, 19, 20, rng.randrange(21, 41)])
        if len(D) <= n:
            D2 = D + '0' * (n - len(D))
        else:
            D2 = D[:n]
        e2 = e + len(D) - len(D2)
        D2 = str(int(D2) + rng.choice([0, 0, 1, 1, -1, 2]))
        yield 'near-mid-%s' % ('19' if n <= 19 else 'long'), spell(rng, D2, e2, rng.choice(['sci', 'intexp', 'shift']))
    # trailing zeros after the significant digits of a long fraction (parse_truncated_float trims them before counting digits)
    for _ in range(3000 * scale):
        E = rng.randrange(1, 2046)
        M, k = F64.parts((E << 52) | rng.randrange(1 << 52))
        D, e = norm_digits(*exact_digits(2 * M + 1, k - 1))
        n = rng.choice([17, 19, 20, 21, 30, 40, 100])
        D2 = (D + '0' * n)[:n]
        D2 = str(int(D2) + rng.choice([0, 1, -1]))
        e2 = e + len(D) - len(D2)
        z = rng.choice([1, 2, 5, 19, 50, 300, 740, 760, 800])
        j = rng.randrange(0, len(D2))
        lit = (D2[:j] or '0') + '.' + D2[j:] + '0' * z + exp_text(rng, e2 + len(D2) - j)
        yield 'trailing-zeros-long', (rng.choice(['', '', '-']) + lit).encode()
    # F(c). long digit strings
    for _ in range(2000 * scale):
        n = rng.choice([20, 21, 25, 50, 100, 300, 767, 768, 769, 770, 800, 1200])
        yield 'long-digits', spell(rng, rand_digits(rng, n), rng.randrange(-340, 310) - n, rng.choice(['sci', 'intexp', 'shift', 'plain']))

def F64_bits(M, k):
    """bits of the positive double M * 2^k (M < 2^53, canonical)"""
    if M < (1 << 52):
        assert k == -1074
        return M
    return ((k + 1075) << 52) | (M - (1 << 52))

HARD32 = [F21_32, b'16777217' + b'0' * 120 + b'e-120', b'16777219' + b'0' * 106 + b'e-106', b'3.4028235e38', b'3.4028236e38', b'3.4028235677973366e38', b'3.40282356779733661637539395458142568447e38', b'3.40282356779733661637539395458142568448e38',
          b'3.4028235677973367e38', b'340282346638528859811704183484516925440', b'340282356779733661637539395458142568447', b'340282356779733661637539395458142568448',
          b'1e39', b'1e38', b'1.4e-45', b'7e-46', b'7.0064923216240853546186479164495806564013097093825788587853914e-46', b'7.0064923216240853546186479164495806564013097093825788587853915e-46',
          b'7.0064923216240853546186479164495806564013097093825788587853913e-46', b'1.17549435e-38', b'1.1754942e-38', b'1.1754943e-38', b'1.1754944e-38',
          b'16777216', b'16777217', b'16777218', b'16777219', b'16777217.0', b'16777217e0', b'1.6777217e7', b'33554434', b'33554435',
          b'0.1', b'0.3', b'1e10', b'1e11', b'1e-10', b'1e-11', b'16777215e10', b'16777216e10', b'123456e17', b'1234567e17', b'12345678e17',
          b'4294967295', b'4294967296', b'18446744073709551615', b'18446744073709551616', b'1.00000017881393432617187499', b'1.000000178813934326171875', b'1.00000017881393432617187501',
          b'8.589973e9', b'8.5899725e9', b'0.000000000000000000000000000000000000000000001401298464324817070923729583289916131280e0']

def family_f32(ctx, scale):
    rng = ctx.rng
    for k in range(-149, 128):
        M, kk = (1 << 23, k - 23) if k >= -126 else (1 << (k + 149), -149)
        b0 = M if M < (1 << 23) else (((kk + 150) << 23) | (M - (1 << 23)))
        for nb in (b0 - 1, b0, b0 + 1):
            if nb <= 0 or nb >= F32.inf:
                continue
            Mn, kn = F32.parts(nb)
            D, e = exact_digits(Mn, kn)
            for st in ('sci', 'intexp', 'plain'):
                yield 'f32-pow2-exact', spell(rng, D, e, st)
            D, e = norm_digits(D, e)
            if len(D) > 9:
                yield 'f32-pow2-cut9', spell(rng, D[:9], e + len(D) - 9, 'sci')
                yield 'f32-pow2-cut9+1', spell(rng, str(int(D[:9]) + 1), e + len(D) - 9, 'sci')
    for e in range(-66, 42):
        for mant in ('1', '99999999', '100000001', '9999999999999999999', '100000000000000000001', '5', rand_digits(rng, 9)):
            yield 'f32-pow10', spell(rng, mant, e - len(mant) + 1, rng.choice(['sci', 'intexp']))
    per_exp = 4 if ctx.tier == 'quick' else 24
    for E in range(0, 255):
        for f in [0, (1 << 23) - 1] + [rng.randrange(1 << 23) for _ in range(per_exp)]:
            bits = (E << 23) | f
            for name, D, e in midpoint_variants(rng, F32, bits):
                yield 'f32-' + name, spell(rng, D, e, 'padint' if name == 'mid-padint' else None)
    for l in HARD32:
        yield 'f32-hard', l
        yield 'f32-hard', b'-' + l
    # integer literals around f32 midpoints in [2^63, 2^64): the negative ones leave parse_number as -(u64 as f64) (not through lexical)
    for i in range(150 if ctx.tier == 'quick' else 3000):
        M = (1 << 23) + (rng.randrange(1 << 23) if i else 0)
        n = (2 * M + 1) * (1 << 39) + rng.choice([1, -1]) * rng.choice([1, 2, 1023, 1024, 1025, rng.randrange(1, 2000)])
        yield 'f32-negint-u64', ('-%d' % n).encode()
        yield 'f32-posint-u64', ('%d' % n).encode()
    for l in ZEROS:
        yield 'f32-zero', l
    for he in HUGE_EXP:
        for m in ('1', '0', '123456789012345678901234567890', '0.000001'):
            for sg in ('', '-'):
                yield 'f32-huge-exp', (m + 'e' + sg + he).encode()
    for _ in range(20000 * scale):
        n = rng.randrange(1, 41)
        yield 'f32-rand-mant', spell(rng, rand_digits(rng, n), rng.randrange(-60, 50) - rng.choice([0, 0, n]))
    for _ in range(6000 * scale):
        m = rng.randrange(1, 1 << rng.choice([10, 24, 24, 25]))
        yield 'f32-fast', spell(rng, str(m), rng.randrange(-12, 20))
    # double-rounding traps and near-midpoint short literals
    for _ in range(12000 * scale):
        bits = (rng.randrange(0, 255) << 23) | rng.randrange(1 << 23)
        M, k = F32.parts(bits)
        D, e = norm_digits(*exact_digits(2 * M + 1, k - 1))
        n = rng.choice([8, 9, 10, 12, 17, 19, 20, 30])
        D2 = D + '0' * (n - len(D)) if len(D) <= n else D[:n]
        e2 = e + len(D) - len(D2)
        D2 = str(int(D2) + rng.choice([0, 0, 1, -1]))
        yield 'f32-near-mid', spell(rng, D2, e2, rng.choice(['sci', 'intexp', 'shift', 'plain']))

# ====================================================================================== running
def chunks(it, n):
    buf = []
    for x in it:
        buf.append(x)
        if len(buf) >= n:
            yield buf
            buf = []
    if buf:
        yield buf

def spread(fn, lines, k=engine.NCPU):
    """run fn over the lines in an interleaved order (line i goes to shard i mod k) so that clusters of long cases are spread over all shards"""
    n = len(lines)
    if n < 4 * k:
        return fn(lines)
    order = [i for j in range(k) for i in range(j, n, k)]
    res = fn([lines[i] for i in order])
    out = [None] * n
    for pos, i in enumerate(order):
        out[i] = res[pos]
    return out

def impl_s(ctx, cfg, lines, name='sjh'):
    return spread(lambda ls: ctx.impl(cfg, ls, name), lines)

def both_s(ctx, cfg, lines):
    order_res = spread(lambda ls: list(zip(*ctx.both(cfg, ls))), lines)
    return [a for a, _ in order_res], [b for _, b in order_res]

def run_lines_s(binary, lines, tag):
    return spread(lambda ls: engine.run_lines(binary, ls, tag), lines)

def pick(lits, n_short, n_long, cut=64):
    """indices of an evenly spaced sample: at most n_short literals of at most `cut` bytes and n_long longer ones
    (the extracted Coq oracle divides big integers bit by bit: ~4 ms per short literal, ~100 ms per 700-digit one)"""
    sh = [i for i, l in enumerate(lits) if len(l) <= cut]
    lo = [i for i, l in enumerate(lits) if len(l) > cut]
    def ev(xs, n):
        if len(xs) <= n:
            return xs
        return [xs[(j * len(xs)) // n] for j in range(n)]
    return sorted(ev(sh, n_short) + ev(lo, n_long))

def have_model(name):
    return os.path.exists(os.path.join(engine.VERIF, 'ocaml', name))

def model_lines(ctx, lines, name):
    if not ctx.model_ok or not have_model(name):
        return None
    return spread(lambda ls: ctx.model(ls, name), lines)

def judge_lits(ctx, cfg, inputs, aux=None):
    """implementation vs exact oracle (and vs the Coq side) on a list of literals; aux: {'target': 'f64'|'f32'}"""
    target = (aux or {}).get('target', 'f64')
    fmt = F64 if target == 'f64' else F32
    feats = engine.CONFIGS[cfg][0]
    if 'float_roundtrip' not in feats:
        return []
    v = []
    exp = [expect_typed(d, fmt) for d in inputs]
    outs = impl_s(ctx, cfg, ['%s %s' % (target, hx(d)) for d in inputs], 'sjh_lex')
    if not ctx.quiet:
        ctx.distinct_nontrivial += sum(1 for e, ix in exp if ix)
    for d, (e, _), a in zip(inputs, exp, outs):
        if e is None:
            continue
        if a != e:
            what = 'crash' if (a == 'PANIC' or a.startswith('CRASH')) else 'sources-disagree' if a.startswith('SRC-DISAGREE') else \
                   'not-correctly-rounded-' + target if (a.startswith('ok') and e.startswith('ok')) else \
                   'finite-literal-rejected' if e.startswith('ok') else 'out-of-range-literal-accepted' if a.startswith('ok') else 'wrong-error'
            pp = lit_parts(d)
            if what == 'not-correctly-rounded-f32' and pp[0] and pp[3] and 2 ** 63 < pp[1] < 2 ** 64:
                # de.rs parse_number: -(u64 as f64) then cast to f32 by the visitor would be two roundings (finding F17, fixed in /repo: negated_u64_as_float)
                what = 'not-correctly-rounded-f32-negative-integer-beyond-i64'
            v.append({'what': what, 'cfg': cfg, 'input': hx(d), 'literal': d[:200].decode('latin-1'),
                      'expected': 'correctly rounded %s (exact big-integer oracle): %s' % (target, e), 'actual': a,
                      'op': 'from_str/from_slice/from_reader::<%s>, in a Vec, in a Value' % target, 'aux': {'target': target}})
    # the f32 GLUE model of de.rs (Model/Lex.v f32_fr & co. behind NumF32's parser: Extract/Driver_f32.v, proved equal to the specification the typed
    # model uses) against the crate's own answer, on a sample of the f32 literals (~2-20 ms per literal in the extracted model)
    if target == 'f32' and ctx.model_ok and os.path.exists(os.path.join(engine.VERIF, 'ocaml', 'sjdriver_f32')):
        gi = [i for i in pick(inputs, 2500 if ctx.tier == 'quick' else 20000, 60 if ctx.tier == 'quick' else 400) if outs[i].startswith(('ok ', 'err '))]
        gm = model_lines(ctx, ['g32 %s' % hx(inputs[i]) for i in gi], 'sjdriver_f32')
        if gm is not None:
            for i, m in zip(gi, gm):
                if m != outs[i]:
                    v.append({'what': 'f32-glue-model-differs', 'cfg': cfg, 'input': hx(inputs[i]), 'literal': inputs[i][:200].decode('latin-1'),
                              'expected': 'glue model (Extract/Driver_f32.v): ' + m, 'actual': outs[i], 'aux': {'target': target}, 'shrinkable': False})
            ctx.count('f32-glue-model-lines', len(gi))
    # the Coq side on a sample (all of it when the list is short, e.g. in a replay)
    mult = 1 if ctx.tier == 'quick' else 2
    parts = [lit_parts(d) for d in inputs]
    # (a) the oracle itself (Base/FloatB.rne_decimal, Model/Lex.rne_decimal32) on the same (m, e10)
    n_or = (6000, 100) if target == 'f64' else (15000, 300)
    idx = [i for i in pick(inputs, n_or[0] * mult, n_or[1] * mult) if parts[i] is not None]
    mo = model_lines(ctx, ['or %s %d %d' % (fmt.letter, parts[i][1], parts[i][2]) for i in idx], 'sjdriver_lex')
    if mo is not None:
        for i, m in zip(idx, mo):
            bits, _ = rne(parts[i][1], parts[i][2], fmt)
            if m != fmt.hex(bits):
                v.append({'what': 'coq-oracle-differs-from-python-oracle', 'cfg': cfg, 'input': hx(inputs[i]), 'expected': fmt.hex(bits), 'actual': m,
                          'aux': {'target': target}, 'shrinkable': False})
    # (b) through the parser: from_slice::<Value> in the implementation (all literals) and in the parser model (sample)
    if target == 'f64' and 'arbitrary_precision' not in feats:
        L = ctx.letters(cfg)
        io = impl_s(ctx, cfg, ['pv %s b %s' % (L, hx(d)) for d in inputs])
        def agrees(x, e):
            return e is None or x == e or (e.startswith('err') and x.startswith(e))
        for d, a in zip(inputs, io):
            e = expect_value(d)
            if not agrees(a, e):
                v.append({'what': 'value-not-correctly-rounded', 'cfg': cfg, 'input': hx(d), 'literal': d[:200].decode('latin-1'),
                          'expected': 'exact oracle: ' + e, 'actual': a, 'op': 'from_slice::<Value>', 'aux': {'target': target}})
        idx = pick(inputs, 30000 * mult, 400 * mult)
        mo = model_lines(ctx, ['pv %s b %s' % (L, hx(inputs[i])) for i in idx], 'sjdriver')
        if mo is not None:
            for i, m in zip(idx, mo):
                e = expect_value(inputs[i])
                if m != 'NOMODEL' and not agrees(m, e):
                    v.append({'what': 'parser-model-differs-from-oracle', 'cfg': cfg, 'input': hx(inputs[i]), 'expected': 'exact oracle: %s' % e,
                              'actual': 'model: %s impl: %s' % (m, io[i]), 'aux': {'target': target}, 'shrinkable': False})
                if m != 'NOMODEL' and io[i] != m:
                    ctx.disagreements.append({'input': hx(inputs[i]), 'impl': io[i], 'model': m, 'cfg': cfg})
    return v

# ---- several numbers in one document: nothing of an earlier literal (or string) may leak into a later one (scratch buffer, single_precision flag)
def judge_sequences(ctx, cfg, lits):
    """documents [x1, x2, ...] and streams `x1 x2 ...` of literals (long and short mixed, strings with escapes in between) parsed into a Value from a
    slice and from a 1-byte reader: every element must be the correctly rounded value of ITS OWN literal (exact oracle), whatever was parsed before it"""
    feats = engine.CONFIGS[cfg][0]
    if 'float_roundtrip' not in feats or 'arbitrary_precision' in feats:
        return []
    rng = ctx.rng
    L = ctx.letters(cfg)
    longs = [l for l in lits if 20 <= len(l) <= 60 and b'.' in l][:4000] or [b'0.1234567890123456789012']
    fixed = [b'0.1234567890123456789012', b'0.3333333333333333333333333', b'2.718281828459045235360287471352', b'123456789012345678901234567890',
             b'1.00000000000000000000000001e5', b'9007199254740993.0000000000001', b'1e23', b'0.1', b'18446744073709551616', b'0.000001234567890123456789012']
    docs = []
    n = 3000 if ctx.tier == 'quick' else 40000
    for i in range(n):
        k = rng.choice([2, 2, 3, 4])
        elems = [rng.choice(fixed) if rng.random() < 0.4 else rng.choice(longs) for _ in range(k)]
        docs.append(elems)
    for a in fixed:
        for b in fixed:
            docs.append([a, b])
    lines, meta = [], []
    for elems in docs:
        exp = [expect_value(e) for e in elems]
        if any(x is None or not x.startswith('ok ') for x in exp):
            continue
        want = 'ok a(' + ','.join(x[3:] for x in exp) + ')'
        dirt = rng.choice([None, None, b'"a\\nb\\u0041"', b'"plain"'])
        body = b', '.join(elems)
        if dirt is not None:
            body = dirt + b',' + body
            want = 'ok a(s%s,' % hx(b'a\nbA' if b'\\' in dirt else b'plain') + want[5:]
        doc = b'[' + body + b']'
        for src in ('b', 'r1'):
            lines.append('pv %s %s %s' % (L, src, hx(doc)))
            meta.append((doc, want))
    outs = impl_s(ctx, cfg, lines)
    v = []
    for (doc, want), a, ln in zip(meta, outs, lines):
        if a != want:
            v.append({'what': 'number-depends-on-what-was-parsed-before', 'cfg': cfg, 'input': hx(doc), 'literal': doc[:200].decode('latin-1'), 'line': ln,
                      'expected': 'each element correctly rounded on its own: ' + want[:300], 'actual': a[:300], 'shrinkable': False})
        elif not ctx.quiet:
            ctx.distinct_nontrivial += 1
    ctx.count('sequences', len(lines))
    return v

def judge_driven_sequences(ctx, cfg, lits):
    """ONE Deserializer driven item by item (f32::deserialize / f64::deserialize in turn) over literals separated by spaces, where some items FAIL
    (out of range for their type) and the failure is swallowed, as a lenient wrapper or manual driving would: every later number must still be the
    correctly rounded value of its own literal for its own type (nothing — e.g. a single-precision flag — may leak out of a failed item)"""
    feats = engine.CONFIGS[cfg][0]
    if 'float_roundtrip' not in feats:
        return []
    rng = ctx.rng
    bad32 = [b'1e39', b'-3.5e38', b'340282356779733661637539395458142568448', b'1e400', b'4e38']      # out of range for f32 (some fine for f64)
    bad64 = [b'1e309', b'-1.8e308', b'2e308']
    good = [b'0.1', b'-0.3', b'1e-320', b'16777217', b'0.1234567890123456789012', b'9007199254740993', b'3.4028235e38', b'1.00000000000000011102230246251565404236316680908203125', b'5e-324']
    good += [l for l in lits if len(l) < 40][:200]
    lines, meta = [], []
    n = 1500 if ctx.tier == 'quick' else 20000
    for i in range(n):
        items = []
        for _ in range(rng.choice([2, 3, 4])):
            r = rng.random()
            if r < 0.3:
                items.append(('s', rng.choice(bad32)))
            elif r < 0.4:
                items.append(('d', rng.choice(bad64)))
            else:
                items.append((rng.choice('ds'), rng.choice(good)))
        exp = []
        for k, lit in items:
            e, _ = expect_typed(lit, F32 if k == 's' else F64)
            exp.append(e)
        if any(e is None for e in exp):
            continue
        for src in ('b', 'r'):
            lines.append('sq %s %s' % (src, ','.join('%s:%s' % (k, hx(l)) for k, l in items)))
            meta.append((items, ','.join(exp)))
    outs = impl_s(ctx, cfg, lines, 'sjh_lex')
    v = []
    for (items, want), a, ln in zip(meta, outs, lines):
        if a != want:
            v.append({'what': 'number-depends-on-an-earlier-failed-item', 'cfg': cfg, 'input': hx(b' '.join(l for _, l in items)), 'line': ln[:300],
                      'expected': 'each item correctly rounded for its own type: ' + want[:300], 'actual': a[:300], 'shrinkable': False})
        elif not ctx.quiet:
            ctx.distinct_nontrivial += 1
    ctx.count('driven-sequences', len(lines))
    return v

# ---- serialise-then-deserialise
def f64_samples(ctx):
    rng = ctx.rng
    per = 40 if ctx.tier == 'quick' else 1500
    for E in range(0, 2047):
        yield (E << 52)
        yield (E << 52) | ((1 << 52) - 1)
        yield (E << 52) | 1
        for _ in range(per):
            yield (E << 52) | rng.randrange(1 << 52)
    for b in (0, 1, 2, F64.inf - 1, F64.inf, F64.inf + 1, (1 << 63) - 1):
        yield b
    # powers of ten and neighbours
    for e in range(-330, 310):
        b, _ = rne(1, e, F64)
        for d in (-2, -1, 0, 1, 2):
            if 0 <= b + d:
                yield b + d
    # integers and simple fractions
    for i in range(0, 2000):
        b, _ = rne(i, 0, F64)
        yield b
        b, _ = rne(i, -2, F64)
        yield b
    for k in range(0, 64):
        for d in (-1, 0, 1):
            b, _ = rne((1 << k) + d, 0, F64)
            yield b

def f32_samples(ctx):
    rng = ctx.rng
    per = 60 if ctx.tier == 'quick' else 600
    for E in range(0, 256):
        for f in [0, 1, (1 << 23) - 1] + [rng.randrange(1 << 23) for _ in range(per)]:
            yield (E << 23) | f
    for e in range(-50, 40):
        b, _ = rne(1, e, F32)
        for d in (-1, 0, 1):
            if 0 <= b + d:
                yield b + d
    for i in range(0, 1000):
        yield rne(i, 0, F32)[0]
        yield rne(i, -1, F32)[0]
    # f32 values whose shortest decimal's nearest f64 lies EXACTLY on an f32 midpoint (parsing as f64 and narrowing rounds the wrong way): 7.038531e-26
    yield 0x15ae43fd
    yield 0x15ae43fe
    yield 0x15ae43fc

def judge_roundtrip(ctx, cfg, bit_list, fmt):
    v = []
    signed = []
    for i, b in enumerate(bit_list):
        signed.append(b | (fmt.sign if i % 3 == 1 else 0))
    op = 'rt64' if fmt is F64 else 'rt32'
    outs = ctx.impl(cfg, ['%s %s' % (op, fmt.hex(b)) for b in signed], 'sjh_lex')
    texts = []
    for b, a in zip(signed, outs):
        mag = b & ~fmt.sign
        if mag >= fmt.inf:
            if a != 'null':
                v.append({'what': 'non-finite-not-null', 'cfg': cfg, 'input': fmt.hex(b), 'expected': 'null', 'actual': a, 'shrinkable': False})
            continue
        if not a.startswith('ok '):
            v.append({'what': 'roundtrip-' + a.split(' ')[0].lower(), 'cfg': cfg, 'input': fmt.hex(b), 'bits': fmt.hex(b),
                      'expected': 'text is a JSON number with . or e and parses back to the same bits', 'actual': a, 'shrinkable': False,
                      'op': 'to_string then from_str::<%s>' % fmt.name})
            continue
        text = bytes.fromhex(a[3:])
        # independent re-check of the three ryu properties: syntax, '.' or 'e', nearest float of the text is the original
        p = lit_parts(text)
        if p is None or not any(c in text for c in b'.eE'):
            v.append({'what': 'float-text-not-json-number', 'cfg': cfg, 'input': fmt.hex(b), 'expected': 'RFC 8259 number containing . or e', 'actual': text.decode('latin-1'), 'shrinkable': False})
            continue
        bits, _ = rne(p[1], p[2], fmt)
        if (bits | (fmt.sign if p[0] else 0)) != b:
            v.append({'what': 'float-text-not-nearest', 'cfg': cfg, 'input': fmt.hex(b), 'expected': 'nearest %s of the text %s is the original %s' % (fmt.name, text.decode(), fmt.hex(b)),
                      'actual': fmt.hex(bits | (fmt.sign if p[0] else 0)), 'shrinkable': False})
        texts.append(text)
    return v, texts

def run_parallel(binary, lines, nproc=engine.NCPU, tag='lexsweep'):
    """one process per line group (run_lines would put few long-running lines into one shard)"""
    d = os.path.join(engine.CACHE, 'run', '%s-%d' % (tag, os.getpid()))
    os.makedirs(d, exist_ok=True)
    groups = [lines[i::nproc] for i in range(nproc)]
    def one(i):
        if not groups[i]:
            return []
        pth = os.path.join(d, 'g%d.txt' % i)
        with open(pth, 'w') as f:
            f.write('\n'.join(groups[i]) + '\n')
        p = subprocess.run([binary, pth], stdout=subprocess.PIPE, stderr=subprocess.PIPE, timeout=3000)
        out = p.stdout.decode('utf-8', 'replace').split('\n')
        if out and out[-1] == '':
            out = out[:-1]
        return out + ['CRASH rc=%d' % p.returncode] * (len(groups[i]) - len(out))
    with ThreadPoolExecutor(max_workers=nproc) as ex:
        outs = list(ex.map(one, range(nproc)))
    shutil.rmtree(d, ignore_errors=True)
    res = [None] * len(lines)
    for i in range(nproc):
        for j, o in enumerate(outs[i]):
            res[i + j * nproc] = o
    return res

def sweep32(ctx, cfg):
    """all 2^32 f32 bit patterns (thorough) or a strided sample of 2^24 of them (quick): serialise, check the text, parse back"""
    v = []
    if ctx.tier == 'quick':
        step = 1 << 16
        lines = ['sweep32 %d %d' % (lo, lo + 256) for lo in range(0, 1 << 32, step)]       # 65536 windows of 256 patterns
        # plus the complete positive and negative ranges around the format's edges
        lines += ['sweep32 %d %d' % (lo, lo + 65536) for lo in (0, 0x00800000 - 32768, 0x7f800000 - 65536, 0x80000000, 0xff800000 - 65536, 0x3f800000 - 32768, 0x4b800000 - 32768)]
    else:
        n = 1024
        size = (1 << 32) // n
        lines = ['sweep32 %d %d' % (i * size, (i + 1) * size) for i in range(n)]
    outs = run_parallel(engine.harness_bin(cfg, 'sjh_lex'), lines, tag='lexsweep-' + cfg)
    tot = 0
    for l, o in zip(lines, outs):
        f = (o or 'CRASH').split(' ')
        if f[0] == 'ok':
            tot += int(f[1]) + int(f[2])
            ctx.distinct_nontrivial += int(f[1])
        else:
            v.append({'what': 'f32-roundtrip', 'cfg': cfg, 'input': f[1] if len(f) > 1 else l, 'expected': 'every finite f32 survives to_string -> from_str bit for bit (text a JSON number with . or e)',
                      'actual': o, 'shrinkable': False, 'op': l})
    ctx.evaluations += tot
    ctx.count('sweep32-patterns:' + cfg, tot)
    return v

# ---- the algorithm model (Model/Lex.v) against the real functions
INTERNAL_TARGET = os.path.join(engine.CACHE, 'target', 'lexint-fr')

def build_internal():
    with engine.Lock('cargo-lexint-fr'):
        hd = os.path.join(engine.VERIF, 'harness')
        rc, out = engine.sh(['cargo', 'build', '--release', '--offline', '-q', '--features', 'float_roundtrip', '--bin', 'sjh_lex'], cwd=hd, timeout=1700,
                            env={'CARGO_TARGET_DIR': INTERNAL_TARGET, 'RUSTFLAGS': '--cfg fast_arithmetic="64"'})
        b = os.path.join(INTERNAL_TARGET, 'release', 'sjh_lex')
        if rc != 0 or not os.path.exists(b):
            return None, out
        rc, o2 = engine.sh([b, '--internal'])
        if o2.strip() != 'yes':
            return None, 'internal ops not compiled in: ' + o2
        return b, out

def glue_split(lit):
    """how de.rs hands the literal to lexical: ('c', mant, exp) or ('t', integer digits, fraction digits, exp); None if the exponent overflows i32"""
    mm = LIT.match(lit)
    if not mm:
        return None
    _, ip, fp, ep = mm.groups()
    fp = fp or b''
    e = int(ep) if ep else 0
    if abs(e) > 2147483647:
        return None
    digits = (ip + fp).lstrip(b'0') or b'0'
    if int(digits) < 2 ** 64 and len(ip + fp) < 25:
        return ('c', int(ip + fp), max(-2 ** 31, min(2 ** 31 - 1, e - len(fp))))
    return ('t', (ip.lstrip(b'0')), fp, e)

def lx_line(g, k):
    if g[0] == 'c':
        return 'lx c %s %d %d' % (k, g[1], g[2])
    return 'lx t %s %s %s %d' % (k, hx(g[1]), hx(g[2]), g[3])

def check_algorithm(ctx, cfg, lits64, lits32, binary):
    """lx: which path, ExtendedFloat before rounding, valid, result — model vs real code; lo: algorithm model vs Coq oracle; result vs Python oracle"""
    rng = ctx.rng
    v = []
    cases = []            # (line, fmt, m, e10) ; (m, e10) exact value for the Python oracle
    def add(g, fmt):
        if g is None:
            return
        if g[0] == 'c':
            m, e = g[1], g[2]
        else:
            fr = g[2].rstrip(b'0')
            m, e = int((g[1] + fr) or b'0'), g[3] - len(fr)
            if m == 0:
                return         # the long path is never entered with all-zero digits (debug_assert in ExtendedFloat::mul)
        cases.append((lx_line(g, fmt.letter), fmt, m, e))
    for l in lits64:
        add(glue_split(l), F64)
    for l in lits32:
        add(glue_split(l), F32)
    n_rand = 20000 if ctx.tier == 'quick' else 400000
    for _ in range(n_rand):
        fmt = rng.choice([F64, F64, F32])
        m = rng.randrange(1, 1 << rng.choice([8, 24, 53, 60, 64, 64]))
        e = rng.choice([rng.randrange(-400, 400), rng.randrange(-30, 40), rng.randrange(-30, 40), rng.choice([-2 ** 31, 2 ** 31 - 1, -351, -350, 310, 309, 300, -2 ** 31 + 300])])
        add(('c', m, e), fmt)
    lines = [c[0] for c in cases]
    io = run_lines_s(binary, lines, 'C07-lx')
    ctx.evaluations += len(lines)
    mult = 1 if ctx.tier == 'quick' else 4
    midx = pick(lines, 100000 * mult, 1500 * mult, cut=80)
    mo_s = model_lines(ctx, [lines[i] for i in midx], 'sjdriver_lex')
    mo = dict(zip(midx, mo_s)) if mo_s is not None else None
    paths = {}
    for i, (line, fmt, m, e) in enumerate(cases):
        a = io[i]
        f = a.split(' ')
        if line.startswith('lx t') and len(f) > 2 and f[0].isdigit():
            f = f[2:]
        paths[f[0]] = paths.get(f[0], 0) + 1
        bits, _ = rne(m, e, fmt)
        if f[0] in ('fast', 'mod', 'spec', 'bh'):
            if f[-1] != fmt.hex(bits):
                v.append({'what': 'lexical-not-correctly-rounded', 'cfg': cfg, 'input': line, 'expected': 'exact oracle: ' + fmt.hex(bits), 'actual': a, 'shrinkable': False})
        else:
            v.append({'what': 'lexical-internal-op-failed', 'cfg': cfg, 'input': line, 'expected': 'a trace whose parts reproduce parse_concise_float / parse_truncated_float', 'actual': a, 'shrinkable': False})
        if mo is not None and i in mo and mo[i] != a:
            ctx.disagreements.append({'input': line, 'impl': a, 'model': mo[i], 'cfg': cfg, 'op': 'lx'})
            # the function-for-function model no longer mirrors the code (the theorems about Model/Lex.v then say nothing about it)
            what = 'algorithm-model-result-differs' if mo[i].split(' ')[-1] != a.split(' ')[-1] else 'algorithm-model-trace-differs'
            v.append({'what': what, 'cfg': cfg, 'input': line, 'expected': 'Model/Lex.v: ' + mo[i], 'actual': a, 'shrinkable': False})
    for kx, nx in paths.items():
        ctx.count('lexical-path:' + kx, nx)
    ctx.count('lx-model-compared', len(midx) if mo is not None else 0)
    if mo is not None:
        lidx = pick(lines, 15000 * mult, 300 * mult, cut=80)
        lo = model_lines(ctx, ['lo' + lines[i][2:] for i in lidx], 'sjdriver_lex')
        for i, o in zip(lidx, lo):
            f = o.split(' ')
            if len(f) != 2 or f[0] != f[1]:
                v.append({'what': 'algorithm-model-differs-from-coq-oracle', 'cfg': cfg, 'input': lines[i], 'expected': 'oracle ' + f[-1], 'actual': 'Model/Lex.v ' + f[0], 'shrinkable': False})
    # ExtendedFloat pieces
    ef = []
    for _ in range(20000 if ctx.tier == 'quick' else 200000):
        m1 = rng.randrange(1 << 32, 1 << 64) | (rng.choice([0, 0, 1]) << 63)
        m2 = rng.randrange(1 << 32, 1 << 64) | (rng.choice([0, 1]) << 63)
        ef.append('ef mul %d %d %d %d' % (m1, rng.randrange(-1200, 1200), m2, rng.randrange(-1200, 1200)))
        ef.append('ef norm %d %d' % (rng.randrange(0, 1 << rng.randrange(1, 65)), rng.randrange(-1200, 1200)))
        k = rng.choice('dds')
        lo_e, hi_e = (-1160, 1000) if k == 'd' else (-230, 80)
        mm = rng.randrange(1 << 63, 1 << 64)
        if rng.random() < 0.4:      # exactly halfway / all ones / just above in the rounded-off bits
            sh = 11 if k == 'd' else 40
            mm = (mm >> sh << sh) | rng.choice([1 << (sh - 1), (1 << sh) - 1, (1 << (sh - 1)) + 1, (1 << (sh - 1)) - 1, 0])
        ef.append('ef round %s %d %d' % (k, mm if rng.random() < 0.9 else rng.randrange(0, 1 << 63), rng.randrange(lo_e, hi_e)))
    io = run_lines_s(binary, ef, 'C07-ef')
    ctx.evaluations += len(ef)
    mo = model_lines(ctx, ef, 'sjdriver_lex')
    if mo is not None:
        for l, a, m in zip(ef, io, mo):
            if a != m:
                ctx.disagreements.append({'input': l, 'impl': a, 'model': m, 'cfg': cfg, 'op': 'ef'})
                v.append({'what': 'extended-float-model-differs', 'cfg': cfg, 'input': l, 'expected': 'Model/Lex.v: ' + m, 'actual': a, 'shrinkable': False})
    # round_to_native/into_float of the model against Flocq's round-to-nearest-even of mant * 2^exp (model only):
    # together with the `ef round` comparison above this ties the real rounding code to IEEE RNE on these cases
    if mo is not None:
        rn = []
        for _ in range(15000 if ctx.tier == 'quick' else 150000):
            k = rng.choice('dds')
            lo_e, hi_e = (-1160, 1000) if k == 'd' else (-230, 80)
            sh = 11 if k == 'd' else 40
            mm = rng.randrange(1 << 63, 1 << 64) if rng.random() < 0.8 else rng.randrange(1, 1 << rng.randrange(1, 64))
            if rng.random() < 0.5:
                sh2 = rng.choice([sh, sh, sh + 1, rng.randrange(sh, 64)])
                mm = (mm >> sh2 << sh2) | rng.choice([1 << (sh2 - 1), (1 << sh2) - 1, (1 << (sh2 - 1)) + 1, (1 << (sh2 - 1)) - 1, 0, 1])
            e = rng.choice([rng.randrange(lo_e, hi_e), -1074 - 63 + rng.randrange(-3, 14), -1139 + rng.randrange(-3, 4), 960 + rng.randrange(-2, 3),
                            -149 - 63 + rng.randrange(-3, 44), 64 + rng.randrange(-2, 3)])
            rn.append('ef rne %s %d %d' % (k, mm, e))
        ro = model_lines(ctx, rn, 'sjdriver_lex')
        for l, o in zip(rn, ro or []):
            f = o.split(' ')
            if len(f) != 2 or f[0] != f[1]:
                v.append({'what': 'model-rounding-differs-from-flocq-rne', 'cfg': cfg, 'input': l, 'expected': 'Flocq binary_normalize: ' + f[-1], 'actual': 'Model/Lex.v into_float: ' + f[0], 'shrinkable': False})
        ctx.count('ef-rne-compared', len(rn))
    return v

def to_limbs(x):
    out = []
    while x:
        out.append(x & (2 ** 64 - 1))
        x >>= 64
    return out

def limbs_text(l):
    return ','.join(str(x) for x in l) if l else '-'

def from_limbs_text(s):
    if s == '-':
        return 0
    x = 0
    for i, t in enumerate(s.split(',')):
        x |= int(t) << (64 * i)
    return x

def check_bigint(ctx, cfg, binary):
    """math.rs limb arithmetic (abstracted to Z in Model/Lex.v) against Python integers"""
    rng = ctx.rng
    v = []
    cases = []
    def big(reach=True):
        nl = rng.choice([0, 1, 1, 2, 3, 5, 10, 20, 40] if reach else [50, 64, 80, 120])
        if nl == 0:
            return 0
        x = rng.getrandbits(64 * nl) | (1 << (64 * nl - rng.randrange(1, 65)))
        if rng.random() < 0.2:
            x |= ((1 << (64 * (nl - 1))) - 1)      # carries ripple
        return x
    n = 6000 if ctx.tier == 'quick' else 60000
    for i in range(n):
        reach = i % 10 != 9
        x = big(reach)
        y = rng.choice([1, 5, 10, 2 ** 64 - 1, 10 ** 19, 1 + rng.getrandbits(63)])
        cases.append(('bi imul_small %s %d' % (limbs_text(to_limbs(x)), y), x * y, reach))
        cases.append(('bi iadd_small %s %d' % (limbs_text(to_limbs(x)), y), x + y, reach))
        p = rng.choice([0, 1, 2, 27, 28, 29, 54, 100, 308, 400, 767, 1100, rng.randrange(0, 1200)]) if reach else rng.choice([2048, 2500, 4096, 5000, 8191])
        cases.append(('bi imul_pow5 %s %d' % (limbs_text(to_limbs(x)), p), x * 5 ** p, reach))
        s = rng.choice([0, 1, 63, 64, 65, 128, rng.randrange(0, 2200)])
        cases.append(('bi imul_pow2 %s %d' % (limbs_text(to_limbs(x)), s), x << s, reach))
        p10 = rng.randrange(0, 330) if reach else rng.randrange(2048, 3000)
        cases.append(('bi imul_pow10 %s %d' % (limbs_text(to_limbs(x)), p10), x * 10 ** p10, reach))
        if x:
            bl = x.bit_length()
            hi = (x << (64 - bl)) if bl <= 64 else (x >> (bl - 64))
            tr = 0 if bl <= 64 else int(x & ((1 << (bl - 64)) - 1) != 0)
            cases.append(('bi hi64 %s' % limbs_text(to_limbs(x)), '%d %d' % (hi, tr), reach))
        cases.append(('bi bit_length %s' % limbs_text(to_limbs(x)), str(x.bit_length()), reach))
        z = rng.choice([x, x + 1, max(0, x - 1), big(reach), x ^ (1 << rng.randrange(0, max(1, x.bit_length())))])
        cases.append(('bi compare %s %s' % (limbs_text(to_limbs(x)), limbs_text(to_limbs(z))), 'lt' if x < z else 'gt' if x > z else 'eq', reach))
        u = rng.choice([0, 1, 2 ** 64 - 1, rng.getrandbits(64)])
        cases.append(('bi from_u64 %d' % u, u, reach))
    outs = run_lines_s(binary, [c[0] for c in cases], 'C07-bi')
    ctx.evaluations += len(cases)
    for (line, want, reach), a in zip(cases, outs):
        if isinstance(want, int):
            ok = re.fullmatch(r'-|\d+(,\d+)*', a) is not None and from_limbs_text(a) == want
        else:
            ok = a == want
        if not ok:
            rec = {'what': 'bigint-limb-arithmetic' + ('' if reach else '-beyond-parser-range'), 'cfg': cfg, 'input': line[:300], 'expected': str(want)[:300], 'actual': a[:300], 'shrinkable': False}
            if reach:
                v.append(rec)
            else:
                # operands larger than any the parser can produce (x.len() + power.len() >= 64 limbs: Karatsuba path of math.rs):
                # recorded as an observation, not as a violation of C07 (known: index-out-of-bounds panic in karatsuba_mul, math.rs long_mul y[0])
                ctx.count('observation:bigint-beyond-parser-range-failures')
                if ctx.hist['observation:bigint-beyond-parser-range-failures'] == 1:
                    ctx.sample({'observation': 'limb arithmetic fails beyond the parser\'s operand range (unreachable code)', 'op': line[:200], 'actual': a[:80]})
    ctx.count('bigint-ops', len(cases))
    # the LIMB-LEVEL model (Model/LexBig.v, proved to refine the Z operations of Model/Lex.v) against the crate, limb for limb: same line, same
    # output vector (also the PANIC outcomes of the unreachable Karatsuba / large-power path on a few beyond-range cases)
    if ctx.model_ok and os.path.exists(os.path.join(engine.VERIF, 'ocaml', 'sjdriver_lexbig')):
        idx = [i for i, c in enumerate(cases) if c[2]]
        idx = idx[::2] if ctx.tier == 'quick' else idx
        far = [i for i, c in enumerate(cases) if not c[2] and len(c[0]) < 2500][:12 if ctx.tier == 'quick' else 60]
        sel = idx + far
        mouts = ctx.model([cases[i][0] for i in sel], 'sjdriver_lexbig')
        for i, m in zip(sel, mouts):
            if m != outs[i]:
                v.append({'what': 'bigint-limb-model-differs', 'cfg': cfg, 'input': cases[i][0][:300], 'expected': 'limb model (Model/LexBig.v): ' + m[:300], 'actual': outs[i][:300], 'shrinkable': False})
        ctx.count('bigint-limb-model-lines', len(sel))
    return v

# ====================================================================================== the check
def tables_current(ctx):
    """Gen/LexTables.v must be what translate_lex.py produces from the current source"""
    rc, out = engine.sh(['python3', os.path.join(engine.VERIF, 'tools', 'translate_lex.py'), '--repo', engine.REPO, '--out', os.path.join(engine.CACHE, 'LexTables.check.v')])
    v = []
    if rc != 0:
        v.append({'what': 'lexical-tables-shape-changed', 'cfg': '-', 'input': '-', 'expected': 'tools/translate_lex.py can read the tables of src/lexical', 'actual': out[-600:], 'shrinkable': False})
        return v
    try:
        a = open(os.path.join(engine.CACHE, 'LexTables.check.v')).read()
        b = open(os.path.join(engine.COQ, 'theories', 'Gen', 'LexTables.v')).read()
        if a != b:
            ctx.disagreements.append({'what': 'Gen/LexTables.v is not the translation of the current source (the build did not regenerate it)'})
            v.append({'what': 'lexical-tables-changed', 'cfg': '-', 'input': '-', 'expected': 'Gen/LexTables.v (checked by the proofs) equals the tables in src/lexical',
                      'actual': 'the tables in the source differ from the ones the proofs were checked against', 'shrinkable': False})
    except OSError as e:
        v.append({'what': 'lexical-tables-missing', 'cfg': '-', 'input': '-', 'expected': 'Gen/LexTables.v', 'actual': str(e), 'shrinkable': False})
    return v

def run_c07(ctx, extended=False):
    ctx.rule = ('L-families of decimal literals: exact expansions of every power of two and its neighbours, powers of ten +- neighbours, exact midpoints between adjacent '
                'floats of every binary exponent (up to 767 digits) also perturbed in the last digit / cut / extended with zeros, ones and nines past the 768-digit limit, '
                'subnormal / overflow boundaries (2^-1074, 2^-1075, 2^-1022, max finite, 2^1024-2^970), classic hard cases, random 1-40 digit mantissas x exponents +-400, '
                'fast-path / extended-float / near-midpoint (bhcomp) / >19 digit / 1200 digit spellings, leading and trailing zeros, exponents beyond i32, signed zeros; '
                'each parsed by from_str, from_slice, from_reader (2 chunkings), in a Vec, in a Value, as f64 and (own f32 families) as f32 and compared with an exact big-integer '
                'round-to-nearest-even computed in Python and with the Coq oracle; serialise-then-deserialise of f64 samples of every exponent and of f32 bit patterns '
                '(thorough: all 2^32) with the three ryu properties re-checked; step-by-step comparison of Model/Lex.v with the real lexical functions; limb arithmetic vs big integers. '
                'non-trivial = literals whose exact value is not representable (a rounding decision was needed), finite floats round-tripped')
    scale = 1 if ctx.tier == 'quick' else 25
    if extended:
        scale *= 3
    ctx.violations += tables_current(ctx)
    for cfg in ctx.cfgs:
        feats = engine.CONFIGS[cfg][0]
        fr = 'float_roundtrip' in feats
        keep64, keep32 = [], []
        if fr:
            cscale = scale if cfg == 'fr' else max(1, scale // 3)      # the second float_roundtrip configuration repeats the families at a third of the volume
            for fam, fmt, target, keep in ((family_f64, F64, 'f64', keep64), (family_f32, F32, 'f32', keep32)):
                for batch in chunks(fam(ctx, cscale), 250000):
                    lits = [l for _, l in batch]
                    for name, _ in batch:
                        ctx.count(target + ':' + name.split('@')[0])
                    for name, l in batch[:2]:
                        ctx.sample({'op': target, 'cfg': cfg, 'family': name, 'literal': l[:120].decode('latin-1')})
                    ctx.violations += judge_lits(ctx, cfg, lits, {'target': target})
                    if len(keep) < 400000:
                        keep.extend(lits[::(1 if ctx.tier == 'quick' else 7)])
            # serialise-then-deserialise, f64 and f32 samples; the texts then go through the parser model as well
            for fmt, samples in ((F64, f64_samples), (F32, f32_samples)):
                for batch in chunks(samples(ctx), 400000):
                    vs, texts = judge_roundtrip(ctx, cfg, batch, fmt)
                    ctx.violations += vs
                    ctx.count('roundtrip-' + fmt.name, len(batch))
                    ctx.distinct_nontrivial += len(texts)
                    ctx.violations += judge_lits(ctx, cfg, texts[::3], {'target': fmt.name})
            ctx.violations += sweep64(ctx, cfg)
            ctx.violations += judge_sequences(ctx, cfg, keep64)
            ctx.violations += judge_driven_sequences(ctx, cfg, keep64)
        else:
            vs, _ = judge_roundtrip(ctx, cfg, list(f32_samples(ctx)), F32)
            ctx.violations += vs
        ctx.violations += sweep32(ctx, cfg)
        if cfg == 'fr' and 'frap' in getattr(ctx, 'side_cfgs', []) and 'frap' not in ctx.cfgs:
            short = [l for l in keep32 if len(l) <= 40 and l[:1] != b'-' or len(l) <= 30]
            extra = [b'16777217.000000001', b'16777218.999999999', b'3.5e38', b'3.4028235e38', b'3.4028236e38', b'7.038531e-26', b'1e-46', b'0.1', b'-16777217.000000001']
            ctx.violations += judge_f32_via_value(ctx, 'frap', extra + short[::max(1, len(short) // 600)])
        if cfg == 'fr':
            binary, out = build_internal()
            if binary is None:
                ctx.violations.append({'what': 'lexical-sources-no-longer-build-into-the-harness', 'cfg': cfg, 'input': '-', 'expected': 'sjh_lex builds with --cfg fast_arithmetic="64"',
                                       'actual': out[-1500:], 'shrinkable': False})
            else:
                ctx.violations += check_algorithm(ctx, cfg, keep64, keep32, binary)
                ctx.violations += check_bigint(ctx, cfg, binary)

def judge_f32_via_value(ctx, cfg, lits):
    """float_roundtrip + arbitrary_precision: an f32 read out of a Value (owned, BY REFERENCE, and from the text) — the Number holds the literal text, so every
    route must round the decimal ONCE to f32 (no detour through f64); three-way relation of C16's harness plus the extracted model"""
    from checks import fv
    import checks.typed as T
    cases = []
    for tyt in ('f', 'af', 'S(61:f)', 'of'):
        t = T.parse_ty_text(tyt)
        for l in lits:
            doc = {'f': l, 'of': l, 'af': b'[' + l + b']', 'S(61:f)': b'{"a":' + l + b'}'}[tyt]
            cases.append((T.enc_ty(t), t, doc, 'f32-via-value'))
    return fv.judge_cases(ctx, cfg, cases)

def sweep64(ctx, cfg):
    """strided f64 sweeps inside the harness (round trip only; the text properties are re-checked in Rust)"""
    rng = ctx.rng
    n = 4000 if ctx.tier == 'quick' else 40000
    lines = []
    for i in range(256):
        start = rng.getrandbits(63)
        lines.append('sweep64 %d %d %d' % (start, rng.choice([1, 1, 3, (1 << 52) + 1, rng.getrandbits(50) | 1]), n))
    outs = run_parallel(engine.harness_bin(cfg, 'sjh_lex'), lines, tag='lexsweep64-' + cfg)
    v = []
    for l, o in zip(lines, outs):
        f = (o or 'CRASH').split(' ')
        if f[0] == 'ok':
            ctx.evaluations += int(f[1]) + int(f[2])
            ctx.distinct_nontrivial += int(f[1])
        else:
            v.append({'what': 'f64-roundtrip', 'cfg': cfg, 'input': f[1] if len(f) > 1 else l, 'expected': 'every finite f64 survives to_string -> from_str bit for bit', 'actual': o, 'shrinkable': False, 'op': l})
    return v

def judge_c07(ctx, cfg, inputs, aux=None):
    return judge_lits(ctx, cfg, inputs, aux)

LEX_TB = ['ryu (float printing) is an external crate treated as an oracle: valid JSON number syntax, contains . or e, re-parses to the same float are CHECKED on every float met and on all 2^32 f32 patterns, not proved',
          'math.rs limb arithmetic is abstracted to Z in Model/Lex.v (differential-tested by the `bi` ops)',
          'tools/translate_lex.py (cached powers, float constants regenerated from /repo/src/lexical)',
          'hardware/compiler IEEE-754 arithmetic for the two fast-path operations and for u64 -> float casts',
          'the Python exact oracle in tools/checks/lex.py (big-integer round to nearest even)']

register('C07', cfgs={'quick': ['fr'], 'thorough': ['fr', 'frap', 'def']}, side_cfgs=['frap'], run=run_c07, judge=judge_c07,
         extended=lambda ctx: run_c07(ctx, extended=True), trusted_base=LEX_TB)
