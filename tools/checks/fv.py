"""C16 — from_value agrees with the text deserialiser (area `fv`).

Implementation side: harness binary sjh_fv, op `fv3 <cfg> <ty> <hex text>`: v = from_str::<Value>(text); the universal DeserializeSeed of
DESIGN.md A.7 for <ty> on v by value (= from_value::<T>(v)), on &v, and on the text to_string(&v) (seed + end()); also to_string(&v) itself.
Model side: sjdriver_fv (Model/ValueDe.v extracted), op `fv <cfg> <ftab> <ty> <hex text>`: owned and by-reference outcome.

Two judgements per case:
  DIRECT (the property itself, on the implementation): the three outcomes all succeed with equal data (borrowed/copied strings identified) or all
    fail — excluding exactly: f32 targets, a zero-length tuple variant applied to `[]`, a struct variant written as an array, &str targets
    (not an owned type), and — outside float_roundtrip — Values whose float literals are not short (<= 15 digits, exponent within +-22);
  MODEL: owned and by-reference outcome equal the proved model's (value, error code, category, position, message class).
Generators: typed.py's random type programs, matching data rendered in every accepted shape, text-level mutations, and tree-level mutations of the
Value (wrong kinds, extra/missing elements and members, renamed keys, two-key objects for enums, out-of-range / negative-zero / fractional /
huge numbers)."""
import re, json, collections
import engine, gen
from gen import hx
from checks import register, log
from checks import typed as T

IMPL, MODEL = 'sjh_fv', 'sjdriver_fv'

NUMTOK = re.compile(rb'-?(?:0|[1-9][0-9]*)(\.[0-9]+)?([eE][-+]?[0-9]+)?')
STRTOK = re.compile(rb'"(?:[^"\\]|\\.)*"')

def floats_short(out):
    """every float literal of the text has <= 15 significant digits (leading zeros dropped) and a net decimal exponent within +-22 (C08's short
    literals); integers beyond 19 digits count as floats"""
    s = STRTOK.sub(b'""', out)
    for m in NUMTOK.finditer(s):
        t = m.group(0)
        if not m.group(1) and not m.group(2):
            if len(t.lstrip(b'-')) <= 19:
                continue
        mant = re.sub(rb'[eE].*$', b'', t).lstrip(b'-')
        ip, _, fp = mant.partition(b'.')
        digs = (ip + fp).lstrip(b'0')
        e = int(m.group(2)[1:]) if m.group(2) else 0
        net = e - len(fp)
        if len(digs) > 15 or not (-22 <= net <= 22):
            return False
    return True

# ------------------------------------------------------------------ python view of a JSON text (number literals kept as text)
class Lit(str):
    pass

def parse_tree(text):
    """python tree of a JSON text: None/True/False/Lit/str/list/[('k', v), ...] wrapped in Obj; None on failure"""
    def bad(c):
        raise ValueError(c)
    try:
        return json.loads(text.decode('utf-8'), parse_int=Lit, parse_float=Lit, parse_constant=bad, object_pairs_hook=lambda ps: Obj(ps))
    except Exception:
        return None

class Obj(list):
    pass

def dump_tree(t):
    if t is None:
        return 'null'
    if t is True:
        return 'true'
    if t is False:
        return 'false'
    if isinstance(t, Lit):
        return str(t)
    if isinstance(t, str):
        return json.dumps(t, ensure_ascii=False)
    if isinstance(t, Obj):
        return '{' + ','.join(json.dumps(k, ensure_ascii=False) + ':' + dump_tree(v) for k, v in t) + '}'
    return '[' + ','.join(dump_tree(x) for x in t) + ']'

NUM_POOL = ['0', '-0', '1', '-1', '127', '128', '-128', '-129', '255', '256', '65535', '65536', '2147483647', '2147483648', '-2147483649',
            '9223372036854775807', '9223372036854775808', '-9223372036854775808', '-9223372036854775809', '18446744073709551615',
            '18446744073709551616', '170141183460469231731687303715884105727', '170141183460469231731687303715884105728',
            '-170141183460469231731687303715884105728', '-170141183460469231731687303715884105729', '340282366920938463463374607431768211455',
            '340282366920938463463374607431768211456', '1.0', '1.5', '-0.0', '0.0', '1e2', '1E2', '2.5e-3', '1e0', '12e-1', '100.0', '0.1', '1e22', '1e23',
            '0.000001', '0.00000006', '1000000000000000000000000000000000000000', '1e400', '-1e400', '1e-400', '1.7976931348623157e308', '3.5e38', '3.4028235e38',
            '16777217', '0.30000000000000004', '123456789012345678', '5e-324']
STR_POOL = ['', 'a', 'b', 'A', 'true', 'false', 'null', '1', '-1', '01', '1.0', '1e1', ' 1', '1 ', '-', '-0', '+1', '256', '300', 'é', 'ab', 'x y',
            '$serde_json::private::Number', '$serde_json::private::RawValue', '18446744073709551616', '170141183460469231731687303715884105728',
            '-170141183460469231731687303715884105729', '1.5', '1e400', 'TRUE', 'k\n']

def all_paths(t, path=()):
    yield path
    if isinstance(t, Obj):
        for i, (k, v) in enumerate(t):
            yield from all_paths(v, path + (i,))
    elif isinstance(t, list):
        for i, v in enumerate(t):
            yield from all_paths(v, path + (i,))

def get_at(t, path):
    for i in path:
        t = t[i][1] if isinstance(t, Obj) else t[i]
    return t

def set_at(t, path, new):
    if not path:
        return new
    i = path[0]
    if isinstance(t, Obj):
        c = Obj(t)
        c[i] = (t[i][0], set_at(t[i][1], path[1:], new))
        return c
    c = list(t)
    c[i] = set_at(t[i], path[1:], new)
    return c

def rand_scalar(rng, names):
    r = rng.random()
    if r < 0.15:
        return rng.choice([None, True, False])
    if r < 0.6:
        return Lit(rng.choice(NUM_POOL))
    return rng.choice(STR_POOL + names)

def mutate_tree(rng, t, names):
    """one random edit of the tree"""
    paths = list(all_paths(t))
    p = rng.choice(paths)
    node = get_at(t, p)
    r = rng.random()
    if isinstance(node, Obj) and r < 0.7:
        c = Obj(node)
        k = rng.randrange(6)
        keys = [x for x, _ in c]
        if k == 0 and c:
            del c[rng.randrange(len(c))]
        elif k == 1 or not c:
            nk = rng.choice(STR_POOL + names)
            if nk not in keys:
                c.insert(rng.randrange(len(c) + 1), (nk, rand_scalar(rng, names)))
        elif k == 2:
            i = rng.randrange(len(c))
            nk = rng.choice(STR_POOL + names)
            if nk not in keys:
                c[i] = (nk, c[i][1])
        elif k == 3:
            i = rng.randrange(len(c))
            nk = c[i][0] + rng.choice(['0', ' ', '.0', 'e0', 'x'])
            if nk not in keys:
                c[i] = (nk, c[i][1])
        elif k == 4:
            rng.shuffle(c)
        else:
            i = rng.randrange(len(c))
            c[i] = (c[i][0], rand_scalar(rng, names))
        return set_at(t, p, c)
    if isinstance(node, list) and not isinstance(node, Obj) and r < 0.7:
        c = list(node)
        k = rng.randrange(5)
        if k == 0 and c:
            del c[rng.randrange(len(c))]
        elif k == 1 or not c:
            c.insert(rng.randrange(len(c) + 1), rand_scalar(rng, names))
        elif k == 2:
            c.append(c[rng.randrange(len(c))])
        elif k == 3:
            c[rng.randrange(len(c))] = rand_scalar(rng, names)
        else:
            c = []
        return set_at(t, p, c)
    if isinstance(node, Lit) and r < 0.5:
        s = str(node)
        k = rng.randrange(6)
        if k == 0 and '.' not in s and 'e' not in s.lower():
            s = s + rng.choice(['.0', 'e0', '.5', 'E+0', '0', '00'])
        elif k == 1:
            s = s[1:] if s.startswith('-') else '-' + s
        elif k == 2:
            s = rng.choice(NUM_POOL)
        elif k == 3 and '.' not in s and 'e' not in s.lower():
            s = str(int(s) + rng.choice([1, -1, 128, 256, 2**63, 2**64, -2**64]))
        elif k == 4:
            s = '-0'
        else:
            s = s + 'e' + str(rng.choice([1, 2, 20, 300, 400, -400]))
        return set_at(t, p, Lit(s))
    # replace by another kind / wrap
    k = rng.randrange(6)
    if k == 0:
        new = [node]
    elif k == 1:
        new = Obj([(rng.choice(STR_POOL + names), node)])
    elif k == 2:
        new = []
    elif k == 3:
        new = Obj([])
    else:
        new = rand_scalar(rng, names)
    return set_at(t, p, new)

def names_of_ty(t):
    out = []
    def go(t):
        c = t[0]
        if c in 'owa':
            go(t[1])
        elif c in 'tT':
            for x in t[1]:
                go(x)
        elif c == 'm':
            k = t[1]
            while k[0] in 'ow':
                k = k[1]
            if k[0] == 'e':
                out.extend(k[1])
            go(t[2])
        elif c == 'S':
            for n, x in t[1]:
                out.append(n)
                go(x)
        elif c == 'E':
            for n, v in t[1]:
                out.append(n)
                if v[0] == 'w':
                    go(v[1])
                elif v[0] == 't':
                    for x in v[1]:
                        go(x)
                elif v[0] == 'S':
                    for n2, x in v[1]:
                        out.append(n2)
                        go(x)
    go(t)
    return out

# ------------------------------------------------------------------ which (type, Value) pairs the property excludes
def walk(t, v, hit):
    """follow the seed of type t over the Value tree v as far as the shapes match; record the excluded shapes and the F12 shape it meets"""
    c = t[0]
    if c == 'f':
        hit.add('f32')
    elif c == 'z':
        hit.add('borrowed-str')
    elif c == 'r':
        hit.add('raw')
    elif c == 'int':
        if isinstance(v, Lit) and str(v) == '-0' and t[1] in ('i0', 'i1', 'i2', 'i3'):
            hit.add('neg-zero-signed')
    elif c == 'd':
        if isinstance(v, Lit):
            hit.add('f64:' + str(v))
    elif c == 'v':
        hit.add('value-target')
    elif c == 'y':
        pass
    elif c == 'o':
        if v is not None:
            walk(t[1], v, hit)
    elif c == 'w':
        walk(t[1], v, hit)
    elif c == 'a':
        if isinstance(v, list) and not isinstance(v, Obj):
            for x in v:
                walk(t[1], x, hit)
    elif c in 'tT':
        if isinstance(v, list) and not isinstance(v, Obj):
            for x, y in zip(t[1], v):
                walk(x, y, hit)
    elif c == 'm':
        k = t[1]
        while k[0] in 'ow':
            k = k[1]
        if k[0] == 'f':
            hit.add('f32')
        if isinstance(v, Obj):
            for _, x in v:
                walk(t[2], x, hit)
    elif c == 'S':
        walk_fields(t[1], v, hit)
    elif c == 'E':
        if isinstance(v, Obj) and len(v) == 1:
            name, payload = v[0]
            vs = dict(t[1])
            if name in vs:
                vr = vs[name]
                if vr[0] == 'w':
                    walk(vr[1], payload, hit)
                elif vr[0] == 't':
                    if isinstance(payload, list) and not isinstance(payload, Obj):
                        if not vr[1] and not payload:
                            hit.add('empty-tuple-variant')
                        for x, y in zip(vr[1], payload):
                            walk(x, y, hit)
                elif vr[0] == 'S':
                    if isinstance(payload, list) and not isinstance(payload, Obj):
                        hit.add('struct-variant-as-array')
                    else:
                        walk_fields(vr[1], payload, hit)

def walk_fields(fs, v, hit):
    if isinstance(v, Obj):
        d = dict(fs)
        for k, x in v:
            if k in d:
                walk(d[k], x, hit)
    elif isinstance(v, list):
        for (_, x), y in zip(fs, v):
            walk(x, y, hit)

LITNUM = re.compile(r'^-?(0|[1-9][0-9]*)$')

def f64_overflows(lit):
    try:
        x = float(lit)
    except Exception:
        return False
    return x in (float('inf'), float('-inf'))

def far_overflow(lit):
    m = re.match(r'^-?(\d+)(?:\.(\d+))?(?:[eE]([-+]?\d+))?$', lit)
    if not m or not f64_overflows(lit):
        return False
    e = int(m.group(3) or 0) + len(m.group(1).lstrip('0'))
    return e >= 400

def respellable(lit):
    """arbitrary_precision: does Number::deserialize_any turn this literal into another text?  (-0, and plain positional spellings that equal
    f64's Display but not ryu's text — e.g. 0.000001, or integers beyond the 128-bit types)"""
    if lit == '-0':
        return True
    if LITNUM.match(lit):
        n = int(lit)
        return not (-2**127 <= n <= 2**128 - 1)
    return 'e' not in lit.lower()

# ------------------------------------------------------------------ judging
def split5(a):
    f = a.split(' ; ')
    return f if len(f) == 5 else None

def judge_cases(ctx, cfg, cases):
    """cases: list of (ty text, ty, document bytes, kind).  Returns violations."""
    L = ctx.letters(cfg)
    v = []
    lines = ['fv3 %s %s %s' % (L, tyt, hx(doc)) for tyt, _, doc, _ in cases]
    io = ctx.impl(cfg, lines, name=IMPL)
    mlines, midx = [], []
    for i, ((tyt, t, doc, kind), a) in enumerate(zip(cases, io)):
        f = split5(a)
        if f is None:
            continue
        mlines.append('fv %s %s %s %s' % (L, f[4], tyt, hx(doc)))
        midx.append(i)
    mo = ctx.model(mlines, name=MODEL)
    mo_by = dict(zip(midx, mo))
    for i, ((tyt, t, doc, kind), a) in enumerate(zip(cases, io)):
        if a in ('SKIP', 'parse-err'):
            ctx.count('not-a-value' if a == 'parse-err' else 'skipped')
            continue
        f = split5(a)
        if f is None:
            v.append({'what': 'fv-crash', 'cfg': cfg, 'ty': tyt, 'input': hx(doc), 'expected': 'five fields', 'actual': a[:300], 'aux': {'ty': tyt}})
            continue
        O, R, TX, P, _ = f
        text = bytes.fromhex(TX) if TX != '-' else b''
        ok = [T.is_ok(x) for x in (O, R, P)]
        ctx.count('%s:%s' % (kind, 'ok' if all(ok) else ('err' if not any(ok) else 'mixed')))
        tree = parse_tree(text)
        hit = set()
        if tree is not None or text == b'null':
            walk(t, tree, hit)
        # ---- model == implementation (owned ; ref)
        m = mo_by.get(i)
        has_f32 = T.ty_has(t, lambda x: x[0] == 'f')
        has_z = T.ty_has(t, lambda x: x[0] == 'z')
        has_raw = T.ty_has(t, lambda x: x[0] == 'r')
        # arbitrary_precision: the real parser turns an object whose first key is the private Number token into a Number (KeyClassifier);
        # Model/De.v does not: such documents are compared on the implementation only
        token_doc = 'a' in L and b'$serde_json::private::' in doc
        if token_doc:
            ctx.count('model-skipped:number-token-key')
        if m is not None and m not in ('NOMODEL',) and not has_raw and not token_doc:
            if m != O + ' ; ' + R:
                what = 'fv-model-mismatch'
                mm = m.split(' ; ')
                if len(mm) == 2 and (T.is_ok(mm[0]) != ok[0] or T.is_ok(mm[1]) != ok[1]):
                    what = 'fv-model-accept-mismatch'
                v.append({'what': what, 'cfg': cfg, 'ty': tyt, 'input': hx(doc), 'expected': 'proved model: ' + m, 'actual': O + ' ; ' + R, 'aux': {'ty': tyt}})
        # ---- owned vs by reference (every type; &str targets can only borrow by reference)
        if not has_z:
            if ok[0] != ok[1] or (ok[0] and T.unz(O) != T.unz(R)):
                v.append({'what': 'owned-vs-ref', 'cfg': cfg, 'ty': tyt, 'input': hx(doc), 'expected': 'T::deserialize(v) = ' + O, 'actual': 'T::deserialize(&v) = ' + R, 'aux': {'ty': tyt}})
                continue
        # ---- the property: three-way
        excl = hit & {'empty-tuple-variant', 'struct-variant-as-array'}
        if has_f32:
            excl.add('f32-target')
        if has_z:
            excl.add('borrowed-str-target')
        if has_raw:
            excl.add('raw-target')
        if excl:
            ctx.count('excluded:' + ','.join(sorted(excl)))
            continue
        if 'f' not in L and not floats_short(text):
            # rounding of long literals is outside the claim here, but a literal far beyond the f64 range is an error on every route (F20)
            if ok[0] and not ok[2] and any(h.startswith('f64:') and far_overflow(h[4:]) for h in hit):
                v.append({'what': 'non-finite-float-via-value', 'cfg': cfg, 'ty': tyt, 'input': hx(doc), 'expected': 'from_str::<T>(to_string(v)) = ' + P,
                          'actual': 'from_value = ' + O + ' ; by reference = ' + R, 'aux': {'ty': tyt}})
            ctx.count('excluded:long-float-literal-outside-float_roundtrip')
            continue
        agree = (all(ok) and T.unz(O) == T.unz(P)) or (not any(ok))
        if agree:
            if all(ok):
                ctx.distinct_nontrivial += 1
            continue
        what = 'from-value-vs-text'
        if 'a' in L:
            e = T.err_fields(P)
            if ok[0] and not ok[2] and 'neg-zero-signed' in hit and e and e.get('cls') == 'invalid_type':
                idx = T.idx_of(text, e['line'], e['col'])
                if idx is not None and text[:idx].endswith(b'-0'):
                    what = 'neg-zero-integer-via-value'           # F12
            if what == 'from-value-vs-text' and ok[0] and not ok[2] and e and e['code'] == 'NumRange' and any(h.startswith('f64:') and f64_overflows(h[4:]) for h in hit):
                what = 'non-finite-float-via-value'
            if what == 'from-value-vs-text' and all(ok) and 'value-target' in hit:
                lits = [m_.group(0).decode() for m_ in NUMTOK.finditer(STRTOK.sub(b'""', text))]
                if any(respellable(l) for l in lits):
                    what = 'number-respelled-via-value'
        v.append({'what': what, 'cfg': cfg, 'ty': tyt, 'input': hx(doc), 'expected': 'from_str::<T>(to_string(v)) = ' + P + '   [text ' + text.decode('utf-8', 'replace')[:200] + ']',
                  'actual': 'from_value = ' + O + ' ; by reference = ' + R, 'aux': {'ty': tyt}})
    return v

def judge_c16(ctx, cfg, inputs, aux=None):
    """single-input judge for shrinking / replay: aux carries the type"""
    tyt = (aux or {}).get('ty')
    if not tyt:
        return []
    t = T.parse_ty_text(tyt)
    return judge_cases(ctx, cfg, [(tyt, t, d, 'replay') for d in inputs])

FIXED = [
    ('S(61:i0,62:os)', b'{"a":5,"c":[1,2]}'), ('S(61:i0,62:os)', b'[5,"x"]'), ('S(61:i0,62:os)', b'[5,"x",1]'), ('S(61:i0,62:os)', b'[5]'),
    ('E(61:u,62:wi0)', b'"a"'), ('E(61:u,62:wi0)', b'{"a":null}'), ('E(61:u,62:wi0)', b'{"b":7}'), ('E(61:u,62:wi0)', b'{"b":7,"a":null}'), ('E(61:u,62:wi0)', b'{}'),
    ('E(61:u,62:wi0)', b'"b"'), ('E(61:u,62:wi0)', b'{"a":1}'), ('E(61:t(i0b),62:S(61:b))', b'{"a":[1,true]}'), ('E(61:t(i0b),62:S(61:b))', b'{"a":[]}'),
    ('E(61:t(i0b),62:S(61:b))', b'{"b":{"a":true,"zz":[1]}}'), ('E(61:t(i0b),62:S(61:b))', b'{"b":[true]}'), ('E(61:t())', b'{"a":[]}'), ('E(61:t())', b'{"a":[1]}'),
    ('mi0b', b'{"-128":true,"127":false}'), ('mi0b', b'{"128":true}'), ('mi0b', b'{"01":true}'), ('mi0b', b'{"1 ":true}'), ('mi0b', b'{" 1":true}'), ('mi0b', b'{"-0":true}'),
    ('mi4u', b'{"-170141183460469231731687303715884105728":null}'), ('mn4u', b'{"340282366920938463463374607431768211455":null}'), ('mn4u', b'{"340282366920938463463374607431768211456":null}'),
    ('mi4u', b'{"9223372036854775808":null}'), ('mi4u', b'{"-9223372036854775809":null}'), ('mn4u', b'{"18446744073709551616":null}'), ('mi3u', b'{"9223372036854775808":null}'),
    ('mbu', b'{"true":null,"false":null}'), ('mbu', b'{"tru":null}'), ('mcu', b'{"\\u00e9":null}'), ('mcu', b'{"ab":null}'), ('mdu', b'{"1.5":null,"-0":null,"1e2":null}'),
    ('mdu', b'{"1e400":null}'), ('me(61,62)u', b'{"a":null,"b":null}'), ('me(61,62)u', b'{"c":null}'), ('moi1wn0', b'{"-32768":255}'), ('mwsu', b'{"k":null}'),
    ('y', b'[1,2,255]'), ('y', b'[1,256]'), ('y', b'"a\\u00e9"'), ('y', b'[1,-0]'), ('y', b'[1.0]'), ('ay', b'[[1],"x",[]]'),
    ('i0', b'-0'), ('i3', b'-0'), ('n0', b'-0'), ('i4', b'-0'), ('d', b'-0'), ('i0', b'1.0'), ('i0', b'1e0'), ('n3', b'18446744073709551615'), ('n3', b'18446744073709551616'),
    ('i4', b'170141183460469231731687303715884105727'), ('n4', b'340282366920938463463374607431768211455'), ('i3', b'-9223372036854775808'), ('i3', b'-9223372036854775809'),
    ('d', b'1e400'), ('d', b'1'), ('d', b'-1'), ('d', b'18446744073709551616'), ('d', b'0.1'), ('od', b'null'), ('oob', b'null'), ('oob', b'true'), ('ou', b'null'),
    ('v', b'[0.000001,-0,1.5,1e5,1E5,1.50,100000.0,1000000000000000000000000000000000000000]'), ('v', b'{"b":1,"a":[null,true,"x",{"c":-1}]}'),
    ('v', b'{"$serde_json::private::Number":"12"}'), ('g', b'{"a":[1,2,{"b":null}]}'), ('t()', b'[]'), ('t()', b'[1]'), ('T(i0b)', b'[1,true]'), ('U', b'null'), ('u', b'[]'),
    ('c', b'"\\ud83d\\ude00"'), ('c', b'""'), ('c', b'"ab"'), ('s', b'"a\\nb"'), ('s', b'1'), ('b', b'true'), ('b', b'0'), ('wob', b'null'),
    ('S(61:ob,62:i0)', b'{"b":1}'), ('S(61:ob,62:i0)', b'{"a":true}'), ('S(61:ob,62:i0)', b'{}'), ('S()', b'{}'), ('S()', b'[]'), ('S()', b'{"x":1}'), ('S()', b'[1]'),
    ('ai0', b'[1,2,3]'), ('ai0', b'[1,"2"]'), ('ai0', b'{}'), ('msai0', b'{"a":[1],"b":[]}'), ('msai0', b'{"a":[1],"b":[300]}'),
]

def gen_cases(ctx, cfg, n):
    """(ty text, ty, doc, kind)"""
    rng = ctx.rng
    L = ctx.letters(cfg)
    ctx.letters_now = L
    out = []
    opts = ()
    fr = 'f' in L
    T.FLOAT_FILTER[0] = not fr
    try:
        for _ in range(n):
            # f32 / &str targets are outside the claim: most type programs avoid them (they still get the model and owned-vs-ref comparisons)
            t = T.rand_ty(rng, rng.choice([0, 1, 1, 2, 2, 3, 3, 4]), opts if rng.random() < 0.12 else opts + ('nof32', 'noz'))
            tyt = T.enc_ty(t)
            names = names_of_ty(t)
            for _ in range(2):
                d = T.rand_dval(rng, t, L)
                doc = T.render(rng, t, d)
                out.append((tyt, t, doc, 'matching'))
                tree = parse_tree(doc)
                if tree is None and doc.strip() != b'null':
                    continue
                cur = tree
                for k in range(rng.choice([2, 4, 6])):
                    try:
                        cur = mutate_tree(rng, cur, names)
                        out.append((tyt, t, dump_tree(cur).encode('utf-8'), 'tree-mutant'))
                    except (ValueError, IndexError, OverflowError):
                        break
                    if rng.random() < 0.4:
                        cur = tree
                for m in T.mutate_typed(rng, doc, 4):
                    out.append((tyt, t, m, 'text-mutant'))
    finally:
        T.FLOAT_FILTER[0] = False
    return out

def fixed_cases():
    out = []
    for tyt, doc in FIXED:
        t = T.parse_ty_text(tyt)
        out.append((T.enc_ty(t), t, doc, 'fixed'))
    # every fixed type of the typed development against every fixed document
    docs = sorted(set(d for _, d in FIXED))
    for tyt in T.FIXED_TYS:
        if tyt in ('z', 'f'):
            continue
        t = T.parse_ty_text(tyt)
        for d in docs:
            out.append((T.enc_ty(t), t, d, 'fixed-cross'))
    return out

FRAP_TYS = ['d', 'od', 'ad', 't(db)', 'msd', 'mdu', 'S(61:d)', 'E(61:wd)', 'wd', 'f', 'af', 'v', 'i0', 'ai3']
FRAP_DOCS = [b'1e400', b'-1e400', b'1e999', b'1.7976931348623159e308', b'-1.7976931348623159e308', b'1.7976931348623157e308', b'5e-324', b'1e-400', b'1e39', b'-1e39',
             b'3.4028235e38', b'3.4028236e38', b'0.1', b'1', b'-0', b'-0.0', b'123456789012345678901234567890', b'1.5', b'null']

def frap_cases():
    """float_roundtrip + arbitrary_precision: f64 / f32 targets meeting literals around and far beyond the float ranges, bare and inside containers"""
    out = []
    for tyt in FRAP_TYS:
        t = T.parse_ty_text(tyt)
        for d in FRAP_DOCS:
            for doc in (d, b'[' + d + b']', b'[' + d + b',true]', b'{"k":' + d + b'}', b'{"a":' + d + b'}', b'{"' + d + b'":null}'):
                out.append((T.enc_ty(t), t, doc, 'frap-family'))
    return out

AP_SPELL_TYS = ['d', 'od', 'ad', 't(db)', 'S(61:d)', 'f', 'af', 'wd', 'msd', 'i0', 'n3', 'v']
AP_SPELL_DOCS = [b'1.50', b'0.10', b'2.5e3', b'1E2', b'-12', b'21.50', b'1e5', b'100.0', b'1E+2', b'7', b'18446744073709551615', b'0.1e1', b'-0.0', b'123456789012345678901234567890']

def ap_spelling_cases():
    """arbitrary_precision: typed float / integer targets meeting number literals in NON-canonical spellings (trailing zeros, exponents, capital E) held verbatim by
    the Value: the typed requests of the Value deserializers must read them like the text route does (only deserialize_any may answer with the token map)"""
    out = []
    for tyt in AP_SPELL_TYS:
        t = T.parse_ty_text(tyt)
        for d in AP_SPELL_DOCS:
            for doc in (d, b'[' + d + b']', b'[' + d + b',true]', b'{"k":' + d + b'}', b'{"a":' + d + b'}'):
                out.append((T.enc_ty(t), t, doc, 'ap-spelling'))
    return out

def judge_any_probe(ctx, cfg, n, report_known=True, extra_docs=()):
    """deserialize_any dispatch (what a Content-buffering target — untagged / internally tagged enum, #[serde(flatten)] — records): the sequence of
    visit_* calls must be the same from_value(v), T::deserialize(&v) and from_str(&to_string(&v)).  Evaluated directly on the implementation."""
    import gen
    rng = ctx.rng
    L = ctx.letters(cfg)
    docs = [b'null', b'[null]', b'{"a":null}', b'[[],{}]', b'true', b'0', b'-1', b'1.5', b'"x"', b'{"t":"A","x":null,"y":1}', b'[null,[null,{"k":[null]}]]',
            b'18446744073709551615', b'-9223372036854775808', b'{"":null,"1":2}', b'-0.0']
    for _ in range(n):
        docs.append(gen.rand_top(rng, depth=rng.choice([1, 2, 3]), floats=False).strip())
    docs += list(extra_docs)
    lines = ['fvp %s %s' % (L, hx(d)) for d in docs]
    outs = ctx.impl(cfg, lines, 'sjh_fv')
    v = []
    for d, o in zip(docs, outs):
        if o == 'SKIP':
            continue
        parts = o.split(' | ')
        if 'f' not in L:
            # without float_roundtrip a float's text does not always read back bit for bit: outside the claim (C16: "comparisons involving f64
            # assume float_roundtrip or short float literals"); the KIND of call (visit_f64) is still compared
            parts = [re.sub(r'F\(\d+\)', 'F', x) for x in parts]
        cls = None
        if 'a' in L and len(parts) == 3 and parts[0] == parts[1] and parts[0] != parts[2]:
            # arbitrary_precision: the text route hands every number that is not an integer of at most 64 bits to the visitor as the private-token map, the
            # Value route (Number::deserialize_any) as visit_f64 / visit_u128 / visit_i128 (known finding F25, C16); in-range integers are visit_u64 / visit_i64
            # on BOTH routes and stay compared
            def tok(m):
                lit = bytes(int(x) for x in m.group(1).split(',')).decode('latin-1')
                small = re.fullmatch(r'-?\d+', lit) and -2**63 <= int(lit) <= 2**64 - 1 and lit != '-0'
                return m.group(0) if small else 'NUM'
            TOKMAP = r'Map\(\[\(Str\(\[%s\]\),Str\(\[([0-9,]*)\]\)\)\]\)' % ','.join(str(c) for c in b'$serde_json::private::Number')
            tside = re.sub(TOKMAP, tok, parts[2])
            def big(m):
                return m.group(0) if -2**63 <= int(m.group(2)) <= 2**64 - 1 else 'NUM'
            vside = re.sub(TOKMAP, tok, parts[0])        # the Value route, too, falls back to the token map (a literal that is no u64 / i64 / u128 / canonical f64)
            vside = re.sub(r'F(\(\d+\))?', 'NUM', vside)
            vside = re.sub(r'\b([IU])\((-?\d+)\)', big, vside)
            if vside == tside or vside.replace('I(0)', 'NUM') == tside:
                cls = 'ap-number-transported-as-token-map'
        if cls and not report_known:
            continue
        if o == 'PANIC' or len(parts) != 3 or not (parts[0] == parts[1] == parts[2]):
            v.append({'what': 'deserialize_any-dispatch-differs', 'cfg': cfg, 'input': hx(d), 'expected': 'the same visit_* calls from_value | &Value | from_str(to_string)', 'actual': o[:400], 'shrinkable': False})
            if cls:
                v[-1]['class'] = cls
        elif not ctx.quiet:
            ctx.distinct_nontrivial += 1
    ctx.count('deserialize_any-probes', len(lines))
    return v

def run_c16(ctx):
    ctx.rule = ('random type programs (typed.py rand_ty: every ty/kty constructor) x { Values parsed from a rendering of a random datum of the type in every accepted shape '
                '(struct as object or array, enum as string or single-key object, options as null or value, numeric/bool/char/enum/newtype/option map keys, byte buffers as '
                'array or string, unknown fields) ; tree mutations of that Value (kind changes, extra/missing elements and members, renamed/numeric-looking keys, second key '
                'for enums, out-of-range, -0, fractional, exponent and >128-bit numbers) ; byte-level mutations that still parse } plus a fixed list of shapes crossed with the '
                'fixed types of the typed development; per case: from_value (owned), by reference, and from_str on to_string(v) must all succeed with equal data or all fail '
                '(property evaluated directly), and owned/by-reference outcomes must equal the extracted Coq model (Model/ValueDe.v); non-trivial = three-way successes')
    quick = ctx.tier == 'quick'
    for cfg in [c for c in list(ctx.cfgs) + list(getattr(ctx, 'side_cfgs', [])) if 'a' in ctx.letters(c)]:
        ctx.violations += judge_cases(ctx, cfg, ap_spelling_cases())
        if cfg not in ctx.cfgs:
            ctx.violations += judge_any_probe(ctx, cfg, 500)
    for cfg in ctx.cfgs:
        fx = fixed_cases()
        ctx.violations += judge_cases(ctx, cfg, fx)
        ctx.violations += judge_any_probe(ctx, cfg, 3000 if quick else 30000)
        from checks import ntarget
        ctx.violations += ntarget.judge_number_target(ctx, cfg, 1500 if quick else 8000)
        # entry points that must be the same thing on the Value routes too (Map<String,Value> as a target by value / by reference, IntoDeserializer, FromIterator)
        from checks import parser
        import gen as _g
        edocs = [b'null', b'[]', b'{}', b'0', b'"s"', b'true', b'[null]', b'{"a":null}', b'{"a":{"b":[]}}'] + [_g.rand_top(ctx.rng, depth=ctx.rng.choice([1, 2, 3]), floats=False).strip() for _ in range(800 if quick else 8000)]
        ctx.violations += parser.judge_entry_points(ctx, cfg, edocs)
        n = 8000 if quick else 60000
        done = 0
        while done < n:
            k = min(5000, n - done)
            cases = gen_cases(ctx, cfg, k)
            done += k
            ctx.violations += judge_cases(ctx, cfg, cases)
            for tyt, t, doc, kind in cases[:3]:
                ctx.sample({'cfg': cfg, 'ty': tyt, 'doc': doc.decode('utf-8', 'replace')[:200], 'kind': kind})
    if not quick and 'ap' in ctx.cfgs:
        # spot-check family in float_roundtrip + arbitrary_precision (no float exclusion applies there): F20 regression
        res = engine.build_harness(['frap'])
        if res.get('frap', (False, ''))[0]:
            vs = judge_cases(ctx, 'frap', frap_cases()) + judge_cases(ctx, 'frap', gen_cases(ctx, 'frap', 1500))
            # F12 / F19 are reported under cfg 'ap' (same code, same root cause): here only everything else counts
            for x in vs:
                if x['what'] in ('neg-zero-integer-via-value', 'number-respelled-via-value'):
                    ctx.count('frap:known-class:' + x['what'])
                else:
                    ctx.violations.append(x)
        else:
            log('frap harness did not build: spot-check family skipped')

FV_TB = ['the universal DeserializeSeed of harness/src/bin/sjh_fv.rs (copied from sjh_typed.rs) stands for "every owned type T" (DESIGN.md A.7)',
         'Values are obtained by parsing text (every Value the crate can build from text in the configuration); the parser model used by the model side is validated by C01/C02',
         'assumed std behaviour: str::parse::<iN/uN/f32/f64>; ryu and f64 Display texts are input data of the model (arbitrary_precision, Value target)',
         'the direct three-way comparison does not depend on the model']

register('C16', cfgs={'quick': ['fr', 'po'], 'thorough': ['fr', 'po', 'ap']}, side_cfgs=['ap'], run=run_c16, judge=judge_c16, extended=run_c16, trusted_base=FV_TB)
