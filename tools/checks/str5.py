"""C05 — string contents survive escaping and unescaping exactly.

Three layers per case:
  implementation   sjh (ops `ps`, `is`: Read::parse_str / parse_str_raw / ignore_str on StrRead, SliceRead, IoRead) and
                   sjh_str5 (ops `es`: buffers written by the serializer for a &str, `rt`: serialise + parse back on every entry point)
  == extracted Coq model   sjdriver (Model/Str.v) and sjdriver_str5 (Model/SerStr.v), about which Properties/C05.v proves the property
  == an independent reference written here in Python (RFC 8259 section 7 decoder, WTF-8 decoder for the bytes mode, the escaper);
     these direct checks use neither the model nor the generated tables.
A literal is passed as the bytes that follow the opening quote (content, closing quote, optional trailer)."""
import itertools
import engine, gen
from gen import hx
from checks import register, log

IMPL5, MODEL5 = 'sjh_str5', 'sjdriver_str5'

# ------------------------------------------------------------------ independent reference (Python)
SHORT = {0x22: 0x22, 0x5c: 0x5c, 0x2f: 0x2f, 0x62: 8, 0x66: 12, 0x6e: 10, 0x72: 13, 0x74: 9}
HEXCH = set(b'0123456789abcdefABCDEF')

def ref_decode(data, raw):
    """reference decoding of the bytes after an opening quote.
    returns ('ok', text_bytes, has_escape, cursor) or ('err', why).  raw=False: text mode of RFC 8259 section 7
    (bare control characters, unpaired surrogates rejected; UTF-8 validity is judged by the caller);
    raw=True: bytes mode (control characters pass, unpaired surrogates come out in generalized UTF-8)."""
    out = bytearray()
    i, n = 0, len(data)
    esc = False
    pend = None                     # pending high surrogate (raw mode only keeps it across an escape boundary)
    def flush():
        nonlocal pend
        if pend is not None:
            out.extend(chr(pend).encode('utf-8', 'surrogatepass'))
            pend = None
    def hex4(j):
        if j + 4 > n:
            return None
        h = data[j:j + 4]
        if any(c not in HEXCH for c in h):
            return -1
        return int(h.decode('ascii'), 16)
    while True:
        if i >= n:
            return ('err', 'eof')
        c = data[i]
        if c == 0x22:
            flush()
            return ('ok', bytes(out), esc, i + 1)
        if c != 0x5c:
            if c < 0x20 and not raw:
                return ('err', 'ctrl')
            flush()
            out.append(c)
            i += 1
            continue
        esc = True
        if i + 1 >= n:
            return ('err', 'eof')
        e = data[i + 1]
        if e != 0x75:
            if e not in SHORT:
                return ('err', 'escape')
            flush()
            out.append(SHORT[e])
            i += 2
            continue
        u = hex4(i + 2)
        if u is None:
            return ('err', 'eof')
        if u < 0:
            return ('err', 'hex')
        i += 6
        if 0xdc00 <= u <= 0xdfff:
            if pend is not None:
                cp = 0x10000 + ((pend - 0xd800) << 10) + (u - 0xdc00)
                pend = None
                out.extend(chr(cp).encode('utf-8'))
            elif raw:
                out.extend(chr(u).encode('utf-8', 'surrogatepass'))
            else:
                return ('err', 'lone-low')
            continue
        if pend is not None:
            if not raw:
                return ('err', 'lone-high')
            flush()
        if 0xd800 <= u <= 0xdbff:
            if raw:
                pend = u
                continue
            # text mode: the next thing must be \uDC00..\uDFFF
            if i >= n:
                return ('err', 'eof')
            if data[i] != 0x5c:
                return ('err', 'lone-high')
            if i + 1 >= n:
                return ('err', 'eof')
            if data[i + 1] != 0x75:
                return ('err', 'lone-high')
            u2 = hex4(i + 2)
            if u2 is None:
                return ('err', 'eof')
            if u2 < 0:
                return ('err', 'hex')
            if not (0xdc00 <= u2 <= 0xdfff):
                return ('err', 'lone-high')
            i += 6
            out.extend(chr(0x10000 + ((u - 0xd800) << 10) + (u2 - 0xdc00)).encode('utf-8'))
            continue
        out.extend(chr(u).encode('utf-8'))

def ref_ignore(data):
    """Read::ignore_str: skips a literal checking only its lexical shape (escape letters, four hex digits, no bare control
    character); surrogate pairing and UTF-8 are not looked at.  returns cursor or None"""
    i, n = 0, len(data)
    while i < n:
        c = data[i]
        if c == 0x22:
            return i + 1
        if c == 0x5c:
            if i + 1 >= n:
                return None
            e = data[i + 1]
            if e == 0x75:
                if i + 6 > n or any(x not in HEXCH for x in data[i + 2:i + 6]):
                    return None
                i += 6
            elif e in SHORT:
                i += 2
            else:
                return None
        elif c < 0x20:
            return None
        else:
            i += 1
    return None

def ref_escape(s):
    """what a JSON serializer that escapes only '"', '\\' and U+0000..U+001F writes for the UTF-8 bytes s"""
    out = bytearray(b'"')
    short = {8: b'\\b', 9: b'\\t', 10: b'\\n', 12: b'\\f', 13: b'\\r', 0x22: b'\\"', 0x5c: b'\\\\'}
    for c in s:
        if c in short:
            out += short[c]
        elif c < 0x20:
            out += b'\\u00' + (b'%02x' % c)
        else:
            out.append(c)
    out += b'"'
    return bytes(out)

def ref_buffers(s):
    bufs = [b'"']
    run = bytearray()
    for c in s:
        e = ref_escape(bytes([c]))[1:-1]
        if len(e) > 1:
            if run:
                bufs.append(bytes(run))
                run = bytearray()
            bufs.append(e)
        else:
            run.append(c)
    if run:
        bufs.append(bytes(run))
    bufs.append(b'"')
    return bufs

def parse_ps(o):
    """ok <b|c> <hex> <cursor>"""
    f = o.split(' ')
    if f[0] != 'ok' or len(f) != 4:
        return None
    return f[1] == 'b', (bytes.fromhex(f[2]) if f[2] != '-' else b''), int(f[3])

# ------------------------------------------------------------------ judges
SRCS_QUICK = ['s', 'b', 'r1', 'rx5']
SRCS_MID = ['s', 'b', 'r1', 'r3', 'rx5']
SRCS_ALL = ['s', 'b', 'r1', 'r2', 'r3', 'r7', 'r64', 'rx3', 'rx11']

def run_balanced(binary, lines, tag, stack):
    """engine.run_lines shards by line count only (one shard below 1000 lines); a few hundred 64 KiB literals would run serially.
    Heavy batches are split here into up to 16 groups of equal total length, each run under its own tag, concurrently."""
    n = len(lines)
    if n < 2 or sum(len(l) for l in lines) < 1500000:
        return engine.run_lines(binary, lines, tag, stack_unlimited=stack)
    k = min(engine.NCPU, n)
    groups, loads = [[] for _ in range(k)], [0] * k
    for i in sorted(range(n), key=lambda i: -len(lines[i])):
        j = loads.index(min(loads))
        groups[j].append(i)
        loads[j] += len(lines[i]) + 50
    out = [None] * n
    def one(j):
        g = sorted(groups[j])
        return g, engine.run_lines(binary, [lines[i] for i in g], '%s-g%d' % (tag, j), stack_unlimited=stack)
    from concurrent.futures import ThreadPoolExecutor
    with ThreadPoolExecutor(max_workers=k) as ex:
        for g, res in ex.map(one, [j for j in range(k) if groups[j]]):
            for i, r in zip(g, res):
                out[i] = r
    return out

def both_or_impl(ctx, cfg, lines, with_model):
    from concurrent.futures import ThreadPoolExecutor
    import os
    if not ctx.quiet:
        ctx.evaluations += len(lines)
    with ThreadPoolExecutor(max_workers=2) as ex:
        fi = ex.submit(run_balanced, engine.harness_bin(cfg, 'sjh'), lines, ctx.pid + '-' + cfg, False)
        if with_model and ctx.model_ok:
            fm = ex.submit(run_balanced, os.path.join(engine.VERIF, 'ocaml', 'sjdriver'), lines, ctx.pid + '-m', True)
            return fi.result(), fm.result()
        return fi.result(), [('NOMODEL' if with_model else None)] * len(lines)

def judge_ps(ctx, cfg, inputs, aux=None, srcs=None, modes=('s', 'r'), with_is=True, model_srcs=None):
    """inputs: bytes after the opening quote.  Every (mode, source) on implementation and model, plus the reference.
    model_srcs: sources for which the model is run as well (default: all).  The slice loop of the extracted model keeps its
    cursor as a unary nat and is quadratic in (length x number of escapes); escape-dense 64 KiB literals go through the model
    on the reader source only and through implementation + reference on all sources."""
    aux = aux or {}
    srcs = [aux['src']] if 'src' in aux else (srcs or (SRCS_QUICK if ctx.tier == 'quick' else SRCS_MID))
    modes = [aux['mode']] if 'mode' in aux else modes
    v = []
    utf8 = [gen.is_utf8(d) for d in inputs]
    for mode in modes:
        raw = mode == 'r'
        refs = [ref_decode(d, raw) for d in inputs]
        base = None
        for src in srcs:
            idxs = [i for i in range(len(inputs)) if src != 's' or utf8[i]]
            if not idxs:
                continue
            lines = ['ps %s %s %s' % (mode, src, hx(inputs[i])) for i in idxs]
            io, mo = both_or_impl(ctx, cfg, lines, model_srcs is None or src in model_srcs)
            if base is None and src != 's':
                base = dict(zip(idxs, io))
            for i, a, m in zip(idxs, io, mo):
                d = inputs[i]
                A = {'kind': 'ps', 'mode': mode, 'src': src}
                def viol(what, expected):
                    v.append({'what': what, 'cfg': cfg, 'input': hx(d), 'op': 'ps %s %s' % (mode, src), 'expected': expected, 'actual': a, 'aux': A})
                if a == 'PANIC' or a.startswith('CRASH'):
                    viol('crash', m)
                    continue
                # --- direct checks against the Python reference
                r = refs[i]
                pa = parse_ps(a)
                if r[0] == 'ok' and not raw and src != 's' and not gen.is_utf8(r[1]):
                    r = ('err', 'utf8')
                if r[0] == 'ok':
                    if pa is None:
                        viol('rejects-good-literal', 'reference: text %s' % hx(r[1]))
                    else:
                        bw, text, cur = pa
                        if text != r[1]:
                            viol('wrong-text', 'reference: text %s' % hx(r[1]))
                        elif cur != r[3]:
                            viol('wrong-cursor', 'reference: cursor %d' % r[3])
                        elif not src.startswith('r') and bw != (not r[2]):
                            viol('borrowed-flag', 'borrowed exactly when the literal has no escape (has escape: %s)' % r[2])
                        elif src.startswith('r') and bw:
                            viol('borrowed-flag', 'reader input is never borrowed')
                        elif bw and text != d[:cur - 1]:
                            viol('borrowed-not-input', 'a borrowed result is the input subslice')
                        if not ctx.quiet and src == 'b':
                            ctx.distinct_nontrivial += 1
                elif pa is not None:
                    viol('accepts-bad-literal', 'reference: rejected (%s)' % r[1])
                # --- the proved model
                if m is not None and a != m:
                    pm = parse_ps(m)
                    if (pa is None) != (pm is None) or (pa and pm and (pa[0], pa[1]) != (pm[0], pm[1])):
                        viol('model-mismatch', 'proved model: ' + m)
                    else:
                        ctx.disagreements.append({'input': hx(d), 'impl': a, 'model': m, 'cfg': cfg, 'op': 'ps %s %s' % (mode, src)})
                # --- sources agree (outcome line identical up to the borrowed flag)
                if base is not None and i in base and src != 'b':
                    x, y = base[i], a
                    if x.startswith('ok') and y.startswith('ok'):
                        x, y = x[5:], y[5:]
                    if x != y:
                        viol('source-mismatch', 'slice/first source: ' + base[i])
    if with_is and 'mode' not in aux:
        # ignore_str: lexical shape only; same cursor as parse_str
        for src in srcs:
            idxs = [i for i in range(len(inputs)) if src != 's' or utf8[i]]
            if not idxs:
                continue
            lines = ['is %s %s' % (src, hx(inputs[i])) for i in idxs]
            io, mo = both_or_impl(ctx, cfg, lines, model_srcs is None or src in model_srcs)
            for i, a, m in zip(idxs, io, mo):
                d = inputs[i]
                r = ref_ignore(d)
                A = {'kind': 'is', 'src': src}
                if a == 'PANIC' or a.startswith('CRASH'):
                    v.append({'what': 'crash', 'cfg': cfg, 'input': hx(d), 'op': 'is ' + src, 'expected': m, 'actual': a, 'aux': A})
                elif a.startswith('ok') != (r is not None) or (r is not None and a != 'ok %d' % r):
                    v.append({'what': 'ignore-str-verdict', 'cfg': cfg, 'input': hx(d), 'op': 'is ' + src,
                              'expected': 'reference: %s' % ('rejected' if r is None else 'ok %d' % r), 'actual': a, 'aux': A})
                elif m is not None and a != m:
                    ctx.disagreements.append({'input': hx(d), 'impl': a, 'model': m, 'cfg': cfg, 'op': 'is ' + src})
    return v

ESCAPABLE = set(range(0x20)) | {0x22, 0x5c}

def judge_es(ctx, cfg, inputs, aux=None, parse_back=True):
    """inputs: UTF-8 strings (bytes).  Serializer output: implementation == model == reference; round trip."""
    v = []
    lines = ['es %s' % hx(s) for s in inputs]
    io, mo = ctx.both(cfg, lines, impl_name=IMPL5, model_name=MODEL5)
    lits = []
    A = {'kind': 'es'}
    for s, a, m in zip(inputs, io, mo):
        def viol(what, expected):
            v.append({'what': what, 'cfg': cfg, 'input': hx(s), 'op': 'es', 'expected': expected, 'actual': a[:400], 'aux': A})
        f = a.split(' ')
        if f[0] != 'ok' or len(f) < 3:
            viol('crash' if a == 'PANIC' or a.startswith('CRASH') else 'serialize-failed', m[:400])
            lits.append(None)
            continue
        lit = bytes.fromhex(f[1])
        lits.append(lit)
        want = ref_escape(s)
        if lit != want:
            viol('escape-shape', 'reference: %s (escape exactly ", \\ and U+0000-U+001F, all else verbatim)' % hx(want))
        elif [bytes.fromhex(x) for x in f[2].split(',')] != ref_buffers(s):
            viol('escape-buffers', 'reference buffers: %s' % ','.join(hx(b) for b in ref_buffers(s)))
        elif len(f) > 3:
            viol('serializer-routes-differ', 'all serialisation routes write the same literal (%s)' % ' '.join(f[3:]))
        if a.split(' ')[:3] != m.split(' ')[:3]:
            viol('model-mismatch', 'proved model: ' + m[:400])
        if not ctx.quiet and any(c in ESCAPABLE or c >= 0x80 for c in s):
            ctx.distinct_nontrivial += 1
    # round trip inside the implementation (every entry point) ...
    rt = ctx.impl(cfg, ['rt %s' % hx(s) for s in inputs], name=IMPL5)
    for s, a in zip(inputs, rt):
        want = 'ok c' if any(c in ESCAPABLE for c in s) else 'ok b'
        if a != want:
            v.append({'what': 'round-trip', 'cfg': cfg, 'input': hx(s), 'op': 'rt', 'aux': {'kind': 'es'},
                      'expected': '%s (from_str/from_slice/from_reader/Value give back the input; &str target works iff nothing was escaped)' % want, 'actual': a[:400]})
    # ... and through the model: the written literal parses back to the input (theorem C05_roundtrip), on model and implementation
    if parse_back:
        # (the extracted slice loop is quadratic in length x escapes: heavy literals go through the model on the reader source only)
        allidx = [i for i, l in enumerate(lits) if l is not None]
        heavy = set(i for i in allidx if len(lits[i]) * (1 + lits[i].count(b'\\')) > 20000000)
        for src in ('s', 'b', 'r1'):
            for idx, with_model in (([i for i in allidx if i not in heavy], True), ([i for i in allidx if i in heavy], src == 'r1')):
                if not idx:
                    continue
                pl = ['ps s %s %s' % (src, hx(lits[i][1:])) for i in idx]
                io2, mo2 = both_or_impl(ctx, cfg, pl, with_model)
                for i, a, m in zip(idx, io2, mo2):
                    s, lit = inputs[i], lits[i]
                    flag = 'c' if (b'\\' in lit or src == 'r1') else 'b'
                    want = 'ok %s %s %d' % (flag, hx(s), len(lit) - 1)
                    if a != want or (m is not None and m != want):
                        v.append({'what': 'round-trip-parse', 'cfg': cfg, 'input': hx(s), 'op': 'es; ps s ' + src, 'aux': {'kind': 'es'},
                                  'expected': want, 'actual': 'implementation: %s ; model: %s' % (a[:300], (m or '-')[:300])})
    return v

def judge_c05(ctx, cfg, inputs, aux=None):
    aux = aux or {}
    if aux.get('kind') == 'es':
        return judge_es(ctx, cfg, inputs, aux)
    if aux.get('kind') == 'is':
        return [x for x in judge_ps(ctx, cfg, inputs, {'src': aux['src']}, modes=(), with_is=True)]
    return judge_ps(ctx, cfg, inputs, aux, with_is=False)

# ------------------------------------------------------------------ generators
def chunks(it, n):
    buf = []
    for x in it:
        buf.append(x)
        if len(buf) >= n:
            yield buf
            buf = []
    if buf:
        yield buf

def all_scalars():
    return itertools.chain(range(0, 0xd800), range(0xe000, 0x110000))

def gen_scalar_strings(ctx):
    """every Unicode scalar value: alone (quick: alone for U+0000..U+2FFF, every plane start/end, and every 53rd) and in blocks of
    61 consecutive scalars (blocks straddle every encoding-length boundary)"""
    quick = ctx.tier == 'quick'
    edge = set()
    for b in (0x80, 0x800, 0xd800, 0xe000, 0x10000, 0x110000):
        edge.update(range(b - 4, b + 4))
    for p in range(0, 0x110000, 0x10000):
        edge.update(range(p, p + 3))
        edge.update(range(p + 0xfffd, p + 0x10000))
    n = 0
    for cp in all_scalars():
        if not quick or cp < 0x3000 or cp in edge or cp % 53 == 0:
            n += 1
            yield chr(cp).encode('utf-8')
    ctx.count('scalars-alone', n)
    sc = list(all_scalars())
    nb = 0
    for k in range(0, len(sc), 61):
        nb += 1
        yield ''.join(chr(c) for c in sc[k:k + 61]).encode('utf-8')
    ctx.count('scalar-blocks-of-61', nb)
    ctx.count('scalars-covered', len(sc))

def gen_after_backslash():
    """every byte after a backslash, followed by nothing / quote / text / hex digits / a low surrogate escape"""
    tails = [b'', b'"', b'a"', b'0041"', b'00e9"x', b'd83d\\ude00"', b'\\"', b'"\\']
    for x in range(256):
        for t in tails:
            yield b'\\' + bytes([x]) + t
            yield b'ab\\' + bytes([x]) + t
        yield b'\\\\' + bytes([x]) + b'"'          # an escaped backslash followed by the byte

def gen_u4_all():
    """every \\uXXXX in lower and upper case (2^16 each) and a mixed-case spelling"""
    for u in range(0x10000):
        lo, up = b'%04x' % u, b'%04X' % u
        yield b'\\u' + lo + b'"'
        if up != lo:
            yield b'\\u' + up + b'"'
            mixed = bytes(c if k % 2 else c ^ 0x20 if chr(c).isalpha() else c for k, c in enumerate(lo))
            if mixed not in (lo, up):
                yield b'x\\u' + mixed + b'y"z'

BOUND = [0xd7ff, 0xd800, 0xdbff, 0xdc00, 0xdfff, 0xe000]
EXTRA = [0x0000, 0x0041, 0x007f, 0x0080, 0x07ff, 0x0800, 0xffff, 0xd83d, 0xde00]

def gen_pairs(ctx):
    """every ordered pair (and triple) of \\uXXXX escapes over the surrogate-class boundaries, each also with every kind of
    interruption between/after; plus random pairs"""
    rng = ctx.rng
    U = BOUND + EXTRA
    def esc(u, up=False):
        return b'\\u' + ((b'%04X' if up else b'%04x') % u)
    mids = [b'', b'a', b'\\n', b'\\', b'\\u', b'\\u12', b'\\ud8', b'"', b'\xed\xb0\x80', b'\x1f', b'\\x']
    for a in U:
        for m in mids:
            yield esc(a) + m + b'"'
            yield esc(a) + m                       # truncated
        for b in U:
            yield esc(a) + esc(b) + b'"'
            yield esc(a, True) + esc(b, True) + b'"rest'
            yield b'q' + esc(a) + esc(b) + b'q"'
            if a in BOUND and b in BOUND:
                for m in mids:
                    yield esc(a) + m + esc(b) + b'"'
                for c in BOUND:
                    yield esc(a) + esc(b) + esc(c) + b'"'
                    for d in (0xd800, 0xdc00, 0x41):
                        yield esc(a) + esc(b) + esc(c) + esc(d) + b'"'
    n = 40000 if ctx.tier == 'quick' else 400000
    def pick():
        r = rng.random()
        if r < 0.3:
            return rng.randrange(0xd800, 0xdc00)
        if r < 0.6:
            return rng.randrange(0xdc00, 0xe000)
        if r < 0.7:
            return rng.choice(U)
        return rng.randrange(0, 0x10000)
    for _ in range(n):
        k = rng.choice([2, 2, 2, 3, 4])
        yield b''.join(esc(pick(), rng.random() < 0.3) for _ in range(k)) + b'"'

HEXB = b'0123456789abcdefABCDEF'
def gen_u_groups(ctx):
    """random 4-byte groups after \\u: hex digits of both cases, near-hex bytes (/ : @ G ` g), arbitrary bytes"""
    rng = ctx.rng
    n = (1 << 17) if ctx.tier == 'quick' else (1 << 20)
    near = b'/:@G`g \x00"\\\x7f\x80\xff'
    for _ in range(n):
        g = bytearray()
        for _ in range(4):
            r = rng.random()
            g.append(rng.choice(HEXB) if r < 0.75 else rng.choice(near) if r < 0.9 else rng.randrange(256))
        yield b'\\u' + bytes(g) + b'"'
    # every single position x every byte value, the other three digits fixed
    for pos in range(4):
        for x in range(256):
            g = bytearray(b'00e9')
            g[pos] = x
            yield b'\\u' + bytes(g) + b'"'

SPECIALS = [0x22, 0x5c, 0x00, 0x1f, 0x20, 0x7f, 0x80, 0xff]
def gen_offsets():
    """every special byte at every offset 0..24 in strings of every length 0..32 (the scanner works on 8-byte chunks), closing quote
    after the string; fillers 'a'; also two specials, and the same behind a leading escape (shifts the chunk phase)"""
    for L in range(0, 33):
        yield b'a' * L + b'"'
        yield b'a' * L                                   # unterminated
        for o in range(0, min(L, 25)):
            for sp in SPECIALS:
                d = bytearray(b'a' * L)
                d[o] = sp
                yield bytes(d) + b'"'
                yield b'\\n' + bytes(d) + b'"'
                if sp == 0x5c:
                    d[o:o + 1] = b'\\n'
                    yield bytes(d) + b'"tail'
            for o2 in range(o + 1, min(L, 25), 3):
                for s1, s2 in ((0x5c, 0x22), (0x1f, 0x5c), (0x80, 0x22), (0x00, 0x1f), (0x22, 0x22), (0xff, 0x5c)):
                    d = bytearray(b'a' * L)
                    d[o], d[o2] = s1, s2
                    yield bytes(d) + b'"'

def gen_invalid_utf8():
    """every boundary of Unicode Table 3-7: lead bytes x second bytes x continuation bytes at and around every range end; truncations"""
    leads = [0x7f, 0x80, 0xbf, 0xc0, 0xc1, 0xc2, 0xdf, 0xe0, 0xe1, 0xec, 0xed, 0xee, 0xef, 0xf0, 0xf1, 0xf3, 0xf4, 0xf5, 0xf7, 0xf8, 0xfe, 0xff]
    seconds = [0x7f, 0x80, 0x8f, 0x90, 0x9f, 0xa0, 0xbf, 0xc0]
    conts = [0x7f, 0x80, 0xbf, 0xc0]
    for l in leads:
        yield bytes([l]) + b'"'
        yield b'a' + bytes([l])
        for s in seconds:
            yield bytes([l, s]) + b'"'
            yield b'ab' + bytes([l, s]) + b'"cd'
            for c in conts:
                yield bytes([l, s, c]) + b'"'
                for c2 in conts:
                    yield bytes([l, s, c, c2]) + b'"'
                    yield b'\\n' + bytes([l, s, c, c2]) + b'x"'
    # escapes next to / inside multi-byte sequences
    for seq in (b'\xc3\xa9', b'\xe2\x82\xac', b'\xf0\x9f\x98\x80', b'\xed\x9f\xbf', b'\xed\xa0\x80', b'\xf4\x8f\xbf\xbf', b'\xf4\x90\x80\x80'):
        for k in range(len(seq) + 1):
            for ins in (b'\\n', b'\\u0080', b'\\u00e9', b'\\udc00', b'a'):
                yield seq[:k] + ins + seq[k:] + b'"'

PIECES_VALID = [b'a', b'abcdefgh', b' ', b'/', b'\\"', b'\\\\', b'\\/', b'\\b', b'\\f', b'\\n', b'\\r', b'\\t', b'\\u0000', b'\\u001F', b'\\u00e9',
                b'\\u20AC', b'\\ud83d\\ude00', b'\\uD800\\uDC00', b'\\udbff\\udfff', b'\xc3\xa9', b'\xe2\x82\xac', b'\xf0\x9f\x98\x80', b'\x7f',
                b'\xed\x9f\xbf', b'\xee\x80\x80', b'\xef\xbf\xbf', b'\xf4\x8f\xbf\xbf']
PIECES_BAD = [b'\x00', b'\x1f', b'\n', b'\\x', b'\\u12g4', b'\\ud800', b'\\udc00', b'\\ud800\\u0041', b'\x80', b'\xc3', b'\xed\xa0\x80', b'\xff',
              b'\\', b'\\u', b'\\ud83d\\', b'\\ud83d\\n']
def gen_long(ctx, dense):
    """random long mixed strings up to 64 KiB: long unescaped runs (chunk scanner), every escape form, multi-byte text, and — in a
    minority of cases — one or more offending pieces, a missing closing quote, a trailer after the quote.
    dense: escapes everywhere; otherwise at most ~150 escape pieces per literal (long runs in between)"""
    rng = ctx.rng
    n = (60 if ctx.tier == 'quick' else 600) if dense else (100 if ctx.tier == 'quick' else 1200)
    for k in range(n):
        target = rng.choice([10, 50, 200, 1000, 5000, 20000, 65536]) if k % 10 else 65536
        out = bytearray()
        bad = rng.random() < 0.35
        pe = 0.65 if dense or target <= 1000 else 0.65 * min(1.0, 150.0 * 40 / target)
        runs = [1, 3, 7, 8, 9, 15, 16, 17, 64, 300]
        while len(out) < target:
            r = rng.random()
            if r >= pe:
                out += bytes(rng.randrange(0x20, 0x7f) for _ in range(rng.choice(runs))).replace(b'"', b'a').replace(b'\\', b'b')
            elif bad and r < 0.02 * pe:
                out += rng.choice(PIECES_BAD)
            else:
                out += rng.choice(PIECES_VALID)
        out = bytes(out[:target]) if rng.random() < 0.1 else bytes(out)
        if rng.random() < 0.95:
            out += b'"' + rng.choice([b'', b'', b' tail', b'"', b'\\'])
        yield out

def gen_long_strings(ctx):
    """random UTF-8 strings for the serializer, up to 64 KiB, dense in characters that need escaping"""
    rng = ctx.rng
    n = 100 if ctx.tier == 'quick' else 2000
    alpha = ['"', '\\', '/', '\b', '\f', '\n', '\r', '\t', '\x00', '\x01', '\x1f', ' ', '\x7f', '\x80', 'é', '€', '😀', '퟿', '', '￿', '\U0010ffff', 'a', 'z']
    for k in range(n):
        target = rng.choice([0, 1, 2, 7, 8, 9, 50, 200, 1000, 5000, 20000, 65536])
        parts = []
        size = 0
        while size < target:
            r = rng.random()
            if r < 0.4:
                p = ''.join(chr(rng.randrange(0x20, 0x7f)) for _ in range(rng.choice([1, 3, 8, 17, 64, 300])))
            elif r < 0.8:
                p = rng.choice(alpha)
            else:
                p = gen.rand_string_content(rng)
            parts.append(p)
            size += len(p)
        yield ''.join(parts).encode('utf-8')

# ------------------------------------------------------------------ run
# ---- strings in context: the scratch buffer is shared with everything else one Deserializer does
NUMS_CTX = [b'1', b'-0.5', b'1e5', b'0.1234567890123456789012345', b'18446744073709551616000', b'123456789012345678901234567890e-10',
            b'-1.00000000000000000000000000001E+2', b'0.000000000000000000001234567890123456789']
STRS_CTX = [b'""', b'"abc"', b'"d\\ne"', b'"\\u00e9\\ud83d\\ude00"', '"é☃😀"'.encode(), b'"' + b'x' * 40 + b'"', b'"a\\"b"', b'"\\\\"', b'"tail"']

def docs_in_context(rng):
    for n in NUMS_CTX:
        for s1 in STRS_CTX:
            s2 = rng.choice(STRS_CTX)
            yield b'[' + n + b', ' + s1 + b']'
            yield b'[' + n + b',' + s1 + b', ' + n + b', ' + s2 + b']'
            yield b'{"a": ' + n + b', ' + s1 + b': ' + s2 + b'}'
            yield b'[[' + n + b'], {' + s2 + b':' + s1 + b'}]'
            yield b'{' + s1 + b':[' + n + b'],' + s2 + b':' + n + b',"z":' + s1 + b'}'

def judge_in_context(ctx, cfg):
    """string literals AFTER other work of the same Deserializer (long numbers that use the shared scratch buffer, nested containers, earlier keys): every string and
    key of the document must still be exactly its own text (model: the denotation of the document); and, step by step on ONE Deserializer with failures swallowed
    (a skip failing inside nested brackets, a typed request refused), what a later string read yields must not depend on what was requested before"""
    from checks import parser
    docs = list(docs_in_context(ctx.rng))
    L = ctx.letters(cfg)
    v = []
    for src in ('b', 'r1'):
        lines = ['pv %s %s %s' % (L, src, hx(d)) for d in docs]
        io, mo = ctx.both(cfg, lines)
        for d, a, m in zip(docs, io, mo):
            if a != m and (a.startswith('ok') or m.startswith('ok')):
                v.append({'what': 'string-in-context', 'cfg': cfg, 'src': src, 'input': hx(d), 'expected': 'denotation (proved model): ' + m[:300], 'actual': a[:300]})
            elif a.startswith('ok'):
                ctx.distinct_nontrivial += 1
    ctx.count('strings-in-context-docs', 2 * len(docs))
    toks = [b'[[1 "abc"]]', b'{"a":[1 "k"]}', b'[[[true false', b'{"k" "v"}', b'"x"', b'123456789012345678901234567890', b'0.1234567890123456789012345', b'[1,2]', b'null']
    lasts = [b'"abc"', b'"d\\ne"', b'["p","q"]', b'{"key":"val"}', '"é"'.encode()]
    # container tokens: only requests that walk the whole structure the same way (Value, IgnoredAny) are interchangeable; scalar tokens: every type
    v += parser.judge_state_isolation(ctx, cfg, 300 if ctx.tier == 'quick' else 3000, toks=toks, lasts=lasts, types='vi')
    v += parser.judge_state_isolation(ctx, cfg, 300 if ctx.tier == 'quick' else 3000, toks=[t for t in toks if t[:1] not in b'[{'] + [b'"y\\u0041"', b'true'], lasts=lasts)
    return v

def run_c05(ctx):
    ctx.rule = ('serializer: every Unicode scalar value (alone and in blocks of 61 consecutive scalars; quick: alone for U+0000-U+2FFF, all plane/length boundaries, every 53rd; '
                'thorough: every one alone) and random strings up to 64 KiB -> bytes and write buffers compared with the extracted Coq model and an independent reference escaper, '
                'all serialisation routes equal, literal parsed back through from_str/from_slice/from_reader/Value/&str and through Read::parse_str on model and implementation. '
                'parser (Read::parse_str, parse_str_raw, ignore_str on StrRead/SliceRead/IoRead with several chunkings): every byte after a backslash; every \\uXXXX in both hex cases; '
                'every ordered pair/triple of escapes over D7FF,D800,DBFF,DC00,DFFF,E000 (+9 more code units) with every interruption between them, random pairs; '
                'random 4-byte groups after \\u (quick 2^17, thorough 2^20) and every byte at every hex position; every special byte (", \\, 00, 1f, 20, 7f, 80, ff) at every offset 0..24 in '
                'strings of every length 0..32, pairs of specials, shifted phases; every Table 3-7 boundary of invalid UTF-8; random long mixed literals up to 64 KiB. '
                'Each outcome compared with the model (proved against RFC 8259 section 7 in Properties/C05.v) and with an independent Python decoder (text and WTF-8 bytes mode); '
                'str/slice/reader agree; borrowed iff no escape. Strings in context (default and float_roundtrip builds): documents whose strings and keys follow long number literals / nested containers vs the denotation given by the model, and step-by-step reads on one Deserializer with swallowed failures (state isolation). non-trivial = (literal, mode) pairs accepted on slice input + serialised strings containing escapable or non-ASCII characters')
    for cfg in list(ctx.cfgs) + [c for c in getattr(ctx, 'side_cfgs', []) if c not in ctx.cfgs]:
        ctx.violations += judge_in_context(ctx, cfg)
    for cfg in ctx.cfgs:
        # ---- serializer
        for batch in chunks(gen_scalar_strings(ctx), 200000):
            ctx.violations += judge_es(ctx, cfg, batch)
            for s in batch[:2]:
                ctx.sample({'op': 'es/rt/ps', 'cfg': cfg, 'string_hex': hx(s)[:120]})
        ls = list(gen_long_strings(ctx))
        ctx.count('serializer-random-strings', len(ls))
        ctx.count('serializer-random-bytes', sum(len(s) for s in ls))
        ctx.violations += judge_es(ctx, cfg, ls)
        # ---- parser
        parts = [('after-backslash', gen_after_backslash(), None), ('u4-all', gen_u4_all(), ['b', 's', 'r1'] if ctx.tier == 'quick' else None),
                 ('surrogate-pairs', gen_pairs(ctx), None), ('u-groups', gen_u_groups(ctx), ['b', 'r1'] if ctx.tier == 'quick' else ['s', 'b', 'r1', 'rx3']),
                 ('offsets', gen_offsets(), SRCS_ALL), ('invalid-utf8', gen_invalid_utf8(), None), ('long-mixed', gen_long(ctx, False), None),
                 ('long-dense', gen_long(ctx, True), None)]
        for name, g, srcs in parts:
            seen = set()
            n = 0
            for batch in chunks(g, 150000):
                batch = [d for d in batch if d not in seen and not seen.add(d)]
                n += len(batch)
                ctx.violations += judge_ps(ctx, cfg, batch, srcs=srcs, model_srcs=['r1'] if name == 'long-dense' else None)
                for d in batch[:2]:
                    ctx.sample({'op': 'ps/is', 'part': name, 'cfg': cfg, 'literal_tail_hex': hx(d)[:120]})
            ctx.count('literals:' + name, n)

STR5_TB = ['the writer is modelled as the sequence of buffers passed to io::Write::write_all (Vec<u8>/ChunkWriter record them verbatim)',
           'core::str::from_utf8 is modelled by Base/Utf8.v utf8_valid (Unicode Table 3-7); tied by the invalid-UTF-8 cases against Python\'s decoder',
           'borrowed results: the model returns a flag; the harness checks the returned pointer lies inside the input buffer']

register('C05', cfgs={'quick': ['def'], 'thorough': ['def']}, side_cfgs=['fr'], run=run_c05, judge=judge_c05, extended=run_c05, trusted_base=STR5_TB)
