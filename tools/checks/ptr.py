"""C18 — Value lookups (RFC 6901 pointer / pointer_mut / take / get / Index / IndexMut), PartialEq with primitives, json!.

Three layers per case:  implementation (sjh_ptr on the real crate)  ==  extracted Coq model (sjdriver_ptr; proved equal to the
RFC 6901 reference evaluator in Properties/C18.v)  ==  an independent reference written here in Python (direct property check).
json!: a Rust program with a few hundred json!(...) invocations on random token trees is generated, built once per run in
/verif/.cache/ptrmacro against /repo, and each result is compared with serde_json::from_str of the equivalent JSON text and with
the model of the macro (op `jm`); token trees the model rejects are compiled one by one and must fail to compile."""
import os, re, struct, shutil, itertools, json
import engine, gen
from gen import hx
from checks import register, log

IMPL, MODEL = 'sjh_ptr', 'sjdriver_ptr'
PO = [False]                # the configuration under test keeps insertion order (preserve_order): set by run_c18 per configuration
MARK = ('s', b'MARK')

# ------------------------------------------------------------------ values (python side) and their canonical text
def show(v):
    t = v[0]
    if t in 'ntf':
        return t
    if t == 'u':
        return 'u%d' % v[1]
    if t == 'i':
        return 'i%d' % v[1]
    if t == 'd':
        return 'd%016x' % v[1]
    if t == 's':
        return 's' + hx(v[1])
    if t == 'a':
        return 'a(' + ','.join(show(x) for x in v[1]) + ')'
    return 'o(' + ','.join(hx(k) + ':' + show(x) for k, x in v[1]) + ')'

def f64bits(x):
    return struct.unpack('<Q', struct.pack('<d', x))[0]

def bits64(b):
    return struct.unpack('<d', struct.pack('<Q', b))[0]

def f32bits(x):
    return struct.unpack('<I', struct.pack('<f', x))[0]

def bits32(b):
    return struct.unpack('<f', struct.pack('<I', b))[0]

KEYS = [b'', b'a', b'b', b'~', b'/', b'~0', b'~1', b'~01', b'~10', b'a/b', b'm~n', b'~~', b'//', b'0', b'1', b'01', b'-', b'+1',
        b' ', 'é'.encode(), b'~2', b'a~', b'~/', b'/~', b'10', b'2', b'~0~1', b'~1~0', '٣'.encode(), b'00', b'+0', b'1e0']
INTS = [0, 1, 2, 127, 128, 255, 256, 32767, 32768, 65535, 65536, 2**31 - 1, 2**31, 2**32 - 1, 2**32, 2**53, 2**53 + 1, 2**63 - 1,
        2**63, 2**64 - 1, 2**24, 2**24 + 1]
NEGS = [-1, -2, -128, -129, -32768, -32769, -2**31, -2**31 - 1, -2**53 - 1, -2**63, -2**24 - 1]
FLOATS = [0.0, -0.0, 1.0, -1.0, 1.5, 0.1, 255.0, 256.0, 2.0**53, 2.0**63, 2.0**64, -2.0**63, 1e300, -1e300, 5e-324, 3.4028234663852886e38,
          3.4028235677973366e38, 1e-46, 16777217.0, 0.30000000000000004, 127.0, -128.0, 65535.0, 4294967295.0, 1.7976931348623157e308]

def rand_leaf(rng):
    k = rng.randrange(8)
    if k == 0:
        return ('n',)
    if k == 1:
        return (rng.choice('tf'),)
    if k == 2:
        return ('u', rng.choice(INTS) if rng.random() < 0.6 else rng.randrange(0, 2**64))
    if k == 3:
        return ('i', rng.choice(NEGS) if rng.random() < 0.6 else -rng.randrange(1, 2**63 + 1))
    if k == 4:
        return ('d', f64bits(rng.choice(FLOATS)))
    return ('s', rng.choice(KEYS + [b'MARK', b'x', b'null']))

def rand_value(rng, depth):
    r = rng.random()
    if depth <= 0 or r < 0.25:
        return rand_leaf(rng)
    if r < 0.6:
        n = rng.choice([0, 1, 2, 2, 3, 3, 4, 11, 12])
        return ('a', [rand_value(rng, depth - 1 if n < 6 else 0) for _ in range(n)])
    n = rng.choice([0, 1, 2, 3, 3, 4, 5, 8])
    ks = sorted(set(rng.choice(KEYS) for _ in range(n)))
    if PO[0]:
        rng.shuffle(ks)          # IndexMap keeps whatever order the entries were inserted in
    return ('o', [(k, rand_value(rng, depth - 1)) for k in ks])

def nodes(v, path=()):
    """every node with its path (positions) and its token path (keys / indices)"""
    yield path, v
    if v[0] == 'a':
        for i, x in enumerate(v[1]):
            yield from nodes(x, path + (i,))
    elif v[0] == 'o':
        for i, (k, x) in enumerate(v[1]):
            yield from nodes(x, path + (i,))

def token_paths(v, toks=()):
    yield toks, v
    if v[0] == 'a':
        for i, x in enumerate(v[1]):
            yield from token_paths(x, toks + (str(i).encode(),))
    elif v[0] == 'o':
        for k, x in v[1]:
            yield from token_paths(x, toks + (k,))

def node_at(v, path):
    for i in path:
        v = v[1][i] if v[0] == 'a' else v[1][i][1]
    return v

def write_at(v, path, new):
    if not path:
        return new
    i = path[0]
    if v[0] == 'a':
        l = list(v[1])
        l[i] = write_at(l[i], path[1:], new)
        return ('a', l)
    m = list(v[1])
    m[i] = (m[i][0], write_at(m[i][1], path[1:], new))
    return ('o', m)

# ------------------------------------------------------------------ RFC 6901 reference evaluator (independent of the Coq one)
IDX = re.compile(rb'(?:0|[1-9][0-9]*)\Z')

def rfc_unescape(t):
    out = bytearray()
    i = 0
    while i < len(t):
        if t[i] == 0x7e and i + 1 < len(t) and t[i + 1] in (0x30, 0x31):
            out.append(0x7e if t[i + 1] == 0x30 else 0x2f)
            i += 2
        else:
            out.append(t[i])
            i += 1
    return bytes(out)

def rfc_path(v, p):
    """path (positions) of the node selected by pointer p, or None"""
    if p == b'':
        return ()
    if p[:1] != b'/':
        return None
    path = ()
    for t in p[1:].split(b'/'):
        t = rfc_unescape(t)
        if v[0] == 'o':
            for i, (k, x) in enumerate(v[1]):
                if k == t:
                    path, v = path + (i,), x
                    break
            else:
                return None
        elif v[0] == 'a':
            if not IDX.match(t) or int(t) >= len(v[1]):
                return None
            i = int(t)
            path, v = path + (i,), v[1][i]
        else:
            return None
    return path

# ------------------------------------------------------------------ pointer spellings
def spellings(tok, cap=16):
    """all spellings of a reference token: each '~' / '/' either escaped or raw (raw ones change the meaning — on purpose)"""
    opts = []
    for c in tok:
        if c == 0x7e:
            opts.append([b'~0', b'~'])
        elif c == 0x2f:
            opts.append([b'~1', b'/'])
        else:
            opts.append([bytes([c])])
    n = 1
    for o in opts:
        n *= len(o)
    if n > cap:
        # escaped spelling + each single raw deviation
        base = [o[0] for o in opts]
        yield b''.join(base)
        for i, o in enumerate(opts):
            if len(o) > 1:
                yield b''.join(base[:i] + [o[1]] + base[i + 1:])
        return
    for c in itertools.product(*opts):
        yield b''.join(c)

def pointer_spellings(rng, toks, cap=24):
    per = [list(spellings(t)) for t in toks]
    total = 1
    for p in per:
        total *= len(p)
    if total <= cap:
        for c in itertools.product(*per):
            yield b''.join(b'/' + t for t in c)
    else:
        yield b''.join(b'/' + p[0] for p in per)
        for _ in range(cap):
            yield b''.join(b'/' + rng.choice(p) for p in per)

MUT_TOKENS = [b'-', b'+0', b'+1', b'00', b'01', b'001', b'-0', b'-1', b' 1', b'1 ', b'1e0', b'0x1', b'1.0', b'', b'~', b'~2', b'~~', b'a~',
              b'18446744073709551615', b'18446744073709551616', b'4294967296', b'99999999999999999999999', '١'.encode(), '１'.encode(),
              b'0~0', b'~00', b'~01', b'~10', b'~0~1', b'~1~0', b'~1~1', b'~0~0', b'0/', b'1_0']

def mutated(rng, p, v):
    yield p[1:]                       # missing leading '/'
    yield p + b'/'                    # trailing '/'
    yield p + b'~'                    # '~' at the end
    yield p + b'~2'
    yield b'/' + p
    yield p.replace(b'/', b'//', 1)
    yield p.replace(b'~1', b'~01') if b'~1' in p else p + b'/~01'
    yield p.replace(b'~0', b'~') if b'~0' in p else p + b'/0'
    parts = p.split(b'/')
    if len(parts) > 1:
        i = rng.randrange(1, len(parts))
        for m in rng.sample(MUT_TOKENS, 6):
            yield b'/'.join(parts[:i] + [m] + parts[i + 1:])
        t = parts[i]
        if t.isdigit():
            yield b'/'.join(parts[:i] + [b'0' + t] + parts[i + 1:])       # leading zero
            yield b'/'.join(parts[:i] + [b'+' + t] + parts[i + 1:])       # '+'
            yield b'/'.join(parts[:i] + [b'-'] + parts[i + 1:])
            yield b'/'.join(parts[:i] + [str(int(t) + 1).encode()] + parts[i + 1:])
            yield b'/'.join(parts[:i] + [t + b'0'] + parts[i + 1:])
    # the length of each array as an index, and '-'
    for toks, n in itertools.islice(token_paths(v), 0, 40):
        if n[0] == 'a':
            base = b''.join(b'/' + next(spellings(t)) for t in toks)
            yield base + b'/' + str(len(n[1])).encode()
            yield base + b'/-'

ALPH = ['/', '~', '0', '1', 'a', '-', '+', '2', 'é', '~0', '~1', ' ']

def rand_pointer(rng):
    return ''.join(rng.choice(ALPH) for _ in range(rng.randrange(0, 9))).encode()

FIXED = ('o', sorted([(b'', ('a', [('u', 0), ('o', [(b'', ('t',)), (b'a', ('u', 1))]), ('a', [('n',)])])), (b'/', ('u', 2)), (b'0', ('a', [('u', 3), ('u', 4)])),
                      (b'1', ('o', [(b'0', ('u', 5)), (b'~', ('u', 6))])), (b'a', ('o', [(b'a', ('a', [('s', b'x'), ('s', b'y')]))])), (b'a/', ('u', 7)),
                      (b'~', ('u', 8)), (b'~0', ('u', 9)), (b'~1', ('u', 10)), (b'~/', ('u', 11)), (b'00', ('u', 12)), (b'~~', ('u', 13))]))

# ------------------------------------------------------------------ judges
def viol(what, line, expected, actual, **kw):
    d = {'what': what, 'cfg': 'po' if PO[0] else 'def', 'line': line, 'expected': expected, 'actual': actual, 'shrinkable': False}
    d.update(kw)
    return d

def judge_pointer_cases(ctx, cfg, cases):
    """cases: list of (value, pointer bytes). ops pt, pm, tk on each."""
    v = []
    lines, meta = [], []
    for val, p in cases:
        sv = show(val)
        for op in ('pt', 'pm', 'tk'):
            lines.append('%s %s %s' % (op, sv, hx(p)))
            meta.append((op, val, p))
    io, mo = ctx.both(cfg, lines, impl_name=IMPL, model_name=(MODEL + '_po' if PO[0] else MODEL))
    for ln, (op, val, p), a, m in zip(lines, meta, io, mo):
        path = rfc_path(val, p)
        if path is None:
            want = 'none'
        elif op == 'pt':
            want = show(node_at(val, path))
        elif op == 'pm':
            want = show(write_at(val, path, MARK))
        else:
            want = show(node_at(val, path)) + ' ' + show(write_at(val, path, ('n',)))
        extra = {'input': hx(p), 'aux': {'value': sv, 'op': op}, 'shrinkable': True}
        if a != want:
            what = {'pt': 'pointer-not-rfc6901', 'pm': 'pointer_mut-wrong-node', 'tk': 'take-wrong'}[op]
            v.append(viol(what, ln, 'RFC 6901 reference evaluator: ' + want, a, **extra))
        elif a != m:
            v.append(viol('pointer-model-mismatch', ln, 'proved model: ' + m, a, **extra))
        elif not ctx.quiet and op == 'pt' and path:
            ctx.distinct_nontrivial += 1
    return v

def judge_c18(ctx, cfg, inputs, aux=None):
    """single-input judge used for shrinking / replay: inputs are pointer strings, aux carries the value"""
    if not aux or 'value' not in aux:
        return []
    val = parse_show(aux['value'])
    good = [p for p in inputs if gen.is_utf8(p)]
    return [x for x in judge_pointer_cases(ctx, cfg, [(val, p) for p in good]) if x['aux']['op'] == aux.get('op')]

def parse_show(s):
    pos = [0]
    def hexfield():
        if s[pos[0]] == '-':
            pos[0] += 1
            return b''
        j = pos[0]
        while j < len(s) and s[j] in '0123456789abcdef':
            j += 1
        b = bytes.fromhex(s[pos[0]:j])
        pos[0] = j
        return b
    def val():
        c = s[pos[0]]
        pos[0] += 1
        if c in 'ntf':
            return (c,)
        if c in 'ui':
            j = pos[0]
            while j < len(s) and (s[j].isdigit() or s[j] == '-'):
                j += 1
            n = int(s[pos[0]:j])
            pos[0] = j
            return (c, n)
        if c == 'd':
            b = int(s[pos[0]:pos[0] + 16], 16)
            pos[0] += 16
            return ('d', b)
        if c == 's':
            return ('s', hexfield())
        pos[0] += 1  # '('
        items = []
        if s[pos[0]] == ')':
            pos[0] += 1
            return ('a' if c == 'a' else 'o', items)
        while True:
            if c == 'a':
                items.append(val())
            else:
                k = hexfield()
                pos[0] += 1
                items.append((k, val()))
            d = s[pos[0]]
            pos[0] += 1
            if d == ')':
                return (c, items)
    return val()

def part_pointer(ctx, cfg):
    rng = ctx.rng
    nvals = 250 if ctx.tier == 'quick' else 2500
    cases = []
    seen = set()
    def add(val, p):
        key = (id(val), p)
        if key not in seen and gen.is_utf8(p):
            seen.add(key)
            cases.append((val, p))
    vals = [FIXED] + [rand_value(rng, rng.choice([1, 2, 3, 3, 4])) for _ in range(nvals)]
    for val in vals:
        tps = list(token_paths(val))
        if len(tps) > 60:
            tps = tps[:20] + rng.sample(tps[20:], 40)
        for toks, node in tps:
            for p in pointer_spellings(rng, toks):
                add(val, p)
                ctx.count('pointer:existing-path-spelling')
            if toks and rng.random() < 0.5:
                base = b''.join(b'/' + next(spellings(t)) for t in toks)
                for p in mutated(rng, base, val):
                    add(val, p)
                    ctx.count('pointer:mutated')
        for _ in range(20):
            add(val, rand_pointer(rng))
            ctx.count('pointer:random')
    # exhaustive: every pointer up to length L over a small alphabet against a value that has all the awkward keys
    L = 6 if ctx.tier == 'quick' else 7
    for k in range(L + 1):
        for c in itertools.product(b'/~01a', repeat=k):
            add(FIXED, bytes(c))
            ctx.count('pointer:exhaustive<=%d over /~01a' % L)
    ctx.sample({'op': 'pt/pm/tk', 'value': show(cases[1][0])[:300], 'pointer_hex': hx(cases[1][1])})
    ctx.sample({'op': 'pt/pm/tk', 'value': show(FIXED), 'pointer_hex': hx(b'/~01')})
    for batch in range(0, len(cases), 100000):
        ctx.violations += judge_pointer_cases(ctx, cfg, cases[batch:batch + 100000])

# ---- get / Index / IndexMut
def ref_index_ops(val, op, arg):
    """direct container access, written from the documentation of get / Index / IndexMut"""
    if op in ('gi', 'gmi', 'xi', 'mi'):
        i = arg
        hit = val[0] == 'a' and i < len(val[1])
        if op == 'gi':
            return show(val[1][i]) if hit else 'none'
        if op == 'gmi':
            return show(write_at(val, (i,), MARK)) if hit else 'none'
        if op == 'xi':
            return show(val[1][i]) if hit else 'n'
        return (show(val[1][i]) + ' ' + show(write_at(val, (i,), MARK))) if hit else 'PANIC'
    k = arg
    pos = None
    if val[0] == 'o':
        for j, (kk, _) in enumerate(val[1]):
            if kk == k:
                pos = j
    if op == 'gk':
        return show(val[1][pos][1]) if pos is not None else 'none'
    if op == 'gmk':
        return show(write_at(val, (pos,), MARK)) if pos is not None else 'none'
    if op == 'xk':
        return show(val[1][pos][1]) if pos is not None else 'n'
    # mk
    if pos is not None:
        return show(val[1][pos][1]) + ' ' + show(write_at(val, (pos,), MARK))
    if val[0] == 'n':
        return 'n ' + show(('o', [(k, MARK)]))
    if val[0] == 'o':
        return 'n ' + show(('o', (val[1] + [(k, MARK)]) if PO[0] else sorted(val[1] + [(k, MARK)], key=lambda kv: kv[0])))
    return 'PANIC'

def part_index(ctx, cfg):
    rng = ctx.rng
    nvals = 150 if ctx.tier == 'quick' else 1500
    lines, meta = [], []
    for _ in range(nvals):
        root = rand_value(rng, rng.choice([1, 2, 3]))
        subs = [n for _, n in nodes(root)]
        if len(subs) > 25:
            subs = subs[:5] + rng.sample(subs[5:], 20)
        for val in subs:
            sv = show(val)
            n = len(val[1]) if val[0] in 'ao' else 0
            idxs = sorted(set(list(range(0, min(n, 4) + 2)) + [max(n - 1, 0), n, n + 1, 2**32, 2**64 - 1]))
            keys = ([k for k, _ in val[1]] if val[0] == 'o' else []) + rng.sample(KEYS, 4) + [b'0', b'']
            if val[0] == 'o' and val[1]:
                keys.append(val[1][0][0] + b'x')
                keys.append(val[1][-1][0][:-1])
            for op in ('gi', 'gmi', 'xi', 'mi'):
                for i in idxs:
                    lines.append('%s %s %d' % (op, sv, i))
                    meta.append((op, val, i))
            for op in ('gk', 'gmk', 'xk', 'mk'):
                for k in keys:
                    if gen.is_utf8(k):
                        lines.append('%s %s %s' % (op, sv, hx(k)))
                        meta.append((op, val, k))
    io, mo = ctx.both(cfg, lines, impl_name=IMPL, model_name=(MODEL + '_po' if PO[0] else MODEL))
    for ln, (op, val, arg), a, m in zip(lines, meta, io, mo):
        ctx.count('index:' + op)
        want = ref_index_ops(val, op, arg)
        if a != want:
            ctx.violations.append(viol('index-' + op, ln, 'direct container access: ' + want, a))
        elif a != m:
            ctx.violations.append(viol('index-model-mismatch', ln, 'proved model: ' + m, a))
        elif a not in ('none', 'n', 'PANIC'):
            ctx.distinct_nontrivial += 1
    ctx.sample({'op': 'gi/gk/gmi/gmk/xi/xk/mi/mk', 'line': lines[len(lines) // 2][:300]})

# ---- the is_* / as_* accessors of Value (translated from value/mod.rs: tools/translate_vacc.py; model Model/VaccAst.v, C18_accessors_are_source)
def ref_acc(val):
    t = val[0]
    sv = show(val)
    isnum = t in 'uid'
    def b(x):
        return 't' if x else 'f'
    as_i = as_u = as_f = 'none'
    if t == 'u':
        as_u = str(val[1]); as_i = str(val[1]) if val[1] <= 2**63 - 1 else 'none'; as_f = '%016x' % f64bits(float(val[1]))
    elif t == 'i':
        as_i = str(val[1]); as_f = '%016x' % f64bits(float(val[1]))
    elif t == 'd':
        as_f = '%016x' % val[1]
    f = [('is_object', b(t == 'o')), ('as_object', sv if t == 'o' else 'none'), ('as_object_mut', sv if t == 'o' else 'none'),
         ('is_array', b(t == 'a')), ('as_array', sv if t == 'a' else 'none'), ('as_array_mut', sv if t == 'a' else 'none'),
         ('is_string', b(t == 's')), ('as_str', sv if t == 's' else 'none'), ('is_number', b(isnum)), ('as_number', sv if isnum else 'none'),
         ('is_i64', b(as_i != 'none')), ('is_u64', b(t == 'u')), ('is_f64', b(t == 'd')), ('as_i64', as_i), ('as_u64', as_u), ('as_f64', as_f),
         ('is_boolean', b(t in 'tf')), ('as_bool', t if t in 'tf' else 'none'), ('is_null', b(t == 'n')), ('as_null', 'unit' if t == 'n' else 'none')]
    return ' '.join('%s=%s' % kv for kv in f)

def part_acc(ctx, cfg):
    rng = ctx.rng
    nvals = 300 if ctx.tier == 'quick' else 3000
    vals = [('u', x) for x in INTS] + [('i', x) for x in NEGS] + [('d', f64bits(x)) for x in FLOATS] + [('n',), ('t',), ('f',), ('s', b''), ('a', []), ('o', [])]
    for _ in range(nvals):
        root = rand_value(rng, rng.choice([0, 1, 2, 3]))
        subs = [n for _, n in nodes(root)]
        vals += subs if len(subs) <= 12 else subs[:4] + rng.sample(subs[4:], 8)
    lines = ['acc ' + show(v) for v in vals]
    io, mo = ctx.both(cfg, lines, impl_name='sjh_vacc', model_name='sjdriver_vacc')
    for ln, val, a, m in zip(lines, vals, io, mo):
        ctx.count('acc:' + val[0])
        want = ref_acc(val)
        if a != want:
            ctx.violations.append(viol('accessors', ln, 'direct reading of the variant: ' + want, a))
        elif a != m:
            ctx.violations.append(viol('accessors-model-mismatch', ln, 'proved model: ' + m, a))
        else:
            ctx.distinct_nontrivial += 1
    ctx.sample({'op': 'acc', 'line': lines[len(lines) // 2][:300]})

# ---- PartialEq with primitives
ITY = {'i8': (-2**7, 2**7 - 1), 'i16': (-2**15, 2**15 - 1), 'i32': (-2**31, 2**31 - 1), 'i64': (-2**63, 2**63 - 1), 'isize': (-2**63, 2**63 - 1),
       'u8': (0, 2**8 - 1), 'u16': (0, 2**16 - 1), 'u32': (0, 2**32 - 1), 'u64': (0, 2**64 - 1), 'usize': (0, 2**64 - 1)}

def to_f32_bits(x):
    """round a python float (f64) to f32 like `as f32` (nearest-even, overflow to infinity)"""
    try:
        return f32bits(x)
    except OverflowError:
        return 0xff800000 if x < 0 else 0x7f800000

def int_to_f32_bits(n):
    """u64/i64 `as f32`: ONE rounding to nearest-even from the exact integer"""
    if n == 0:
        return 0
    s, a = (0x80000000 if n < 0 else 0), abs(n)
    e = a.bit_length() - 1
    if e <= 23:
        mant = a << (23 - e)
    else:
        sh = e - 23
        mant = a >> sh
        rem = a & ((1 << sh) - 1)
        half = 1 << (sh - 1)
        if rem > half or (rem == half and (mant & 1)):
            mant += 1
            if mant == 1 << 24:
                mant >>= 1
                e += 1
    return s | ((e + 127) << 23) | (mant & 0x7fffff)

def ref_eq(val, ty, cmp):
    """what the comparison yields per partial_eq.rs (as_i64 / as_u64 / as_f64 / as_f32 / as_bool / as_str), and whether the Value
    exactly holds the comparand (the literal reading of the property)"""
    if ty in ITY:
        z = int(cmp)
        held = val[0] in 'ui' and val[1] == z
        return held, held
    if ty == 'bool':
        held = val[0] in 'tf' and val[0] == cmp
        return held, held
    if ty == 'str':
        held = val[0] == 's' and val[1] == bytes.fromhex(cmp if cmp != '-' else '')
        return held, held
    if val[0] not in 'uid':
        return False, False
    if ty == 'f64':
        x = bits64(int(cmp, 16))
        mine = float(val[1]) if val[0] in 'ui' else bits64(val[1])       # int -> f64 is correctly rounded in CPython
        code = (mine == x)
        if val[0] in 'ui':
            exact = (x == x) and abs(x) != float('inf') and int(x) == val[1] and x == int(x)
        else:
            exact = code
        return code, exact
    x = bits32(int(cmp, 16))
    mb = int_to_f32_bits(val[1]) if val[0] in 'ui' else to_f32_bits(bits64(val[1]))
    mine = bits32(mb)
    code = (mine == x)
    if val[0] in 'ui':
        exact = (x == x) and abs(x) != float('inf') and x == int(x) and int(x) == val[1]
    else:
        exact = (bits64(val[1]) == x)
    return code, exact

def part_eq(ctx, cfg):
    ap = 'a' in ctx.letters(cfg)
    rng = ctx.rng
    vals = [('n',), ('t',), ('f',), ('s', b''), ('s', b'1'), ('s', b'true'), ('a', []), ('a', [('u', 1)]), ('o', []), ('o', [(b'a', ('u', 1))])]
    vals += [('u', n) for n in INTS] + [('i', n) for n in NEGS] + [('d', f64bits(x)) for x in FLOATS]
    vals += [('u', rng.randrange(0, 2**64)) for _ in range(30)] + [('i', -rng.randrange(1, 2**63)) for _ in range(30)]
    vals += [('d', f64bits(float(n))) for n in (1, 2, 255, 2**31, 2**53)] + [('d', rng.randrange(0, 0x7ff0000000000000)) for _ in range(30)]
    bounds = sorted(set(b + d for lo, hi in ITY.values() for b in (lo, hi, 0) for d in (-1, 0, 1)))
    f64c = [f64bits(x) for x in FLOATS] + [0x7ff8000000000000, 0x7ff0000000000000, 0xfff0000000000000, 1, 0x8000000000000001, f64bits(2.0**53 + 2), f64bits(2.0**64), f64bits(-2.0**63)]
    f32c = sorted(set([to_f32_bits(x) for x in FLOATS] + [0x7fc00000, 0x7f800000, 0xff800000, 1, 0x80000001, 0x7f7fffff, 0x4b800000, 0x4b800001, 0x5f800000, 0x5f000000, 0xdf000000]))
    lines, meta = [], []
    def add(val, ty, cmp):
        lines.append('eq %s %s %s' % (show(val), ty, cmp))
        meta.append((val, ty, cmp))
    for val in vals:
        cands = set(bounds)
        if val[0] in 'ui':
            cands |= {val[1] - 1, val[1], val[1] + 1, -val[1]}
        if val[0] == 'd':
            x = bits64(val[1])
            if abs(x) < 2.0**70:
                cands |= {int(x), int(x) + 1}
        for ty, (lo, hi) in ITY.items():
            for z in cands:
                if lo <= z <= hi:
                    add(val, ty, str(z))
        fc = list(f64c)
        gc = list(f32c)
        if val[0] in 'ui':
            fc += [f64bits(float(val[1])), f64bits(float(val[1])) + 1, max(f64bits(float(val[1])) - 1, 0)]
            b = int_to_f32_bits(val[1])
            gc += [b, b + 1, max(b - 1, 0)]
        if val[0] == 'd':
            fc += [val[1], val[1] ^ 1, val[1] ^ (1 << 63)]
            b = to_f32_bits(bits64(val[1]))
            gc += [b, b ^ 1, b ^ (1 << 31)]
        for c in fc:
            add(val, 'f64', '%016x' % c)
        for c in gc:
            add(val, 'f32', '%08x' % c)
        for c in 'tf':
            add(val, 'bool', c)
        for s in [b'', b'1', b'true', b'null', b'MARK'] + ([val[1], val[1] + b'x', val[1][:-1]] if val[0] == 's' else []):
            add(val, 'str', hx(s))
    io, mo = ctx.both(cfg, lines, impl_name=IMPL, model_name=(MODEL + '_po' if PO[0] else MODEL))
    for ln, (val, ty, cmp), a, m in zip(lines, meta, io, mo):
        code, exact = ref_eq(val, ty, cmp)
        want = 't' if code else 'f'
        ctx.count('eq:' + ty)
        if ap and ty == 'f32':
            continue    # arbitrary_precision: as_f32 parses the literal TEXT as f32 (one rounding of the decimal, non-finite refused) instead of `as f32` of an f64: a different, configuration-specific relation
        if ap and a == want:
            m = a       # the extracted model is the default-build model (numbers as u64 / i64 / f64); under ap only the reference is compared
        if a != want:
            ctx.violations.append(viol('eq-' + ty, ln, 'Value holds the comparand (after the conversion the code documents): ' + want, a))
        elif a != m:
            ctx.violations.append(viol('eq-model-mismatch', ln, 'proved model: ' + m, a))
        else:
            if a == 't':
                ctx.distinct_nontrivial += 1
            if code != exact:
                # the code compares after rounding the stored number to the comparand's float type (theorems C18_eq_f64 / C18_eq_f32)
                ctx.count('eq:%s true although the stored number differs from the comparand (rounding of the stored number)' % ty)
                # literal reading of C18 ("true exactly when the Value holds that value"): known finding F15
                if not any(x.get('what') == 'eq-float-comparand-compared-after-rounding' for x in ctx.violations):
                    ctx.violations.append(dict(viol('eq-float-comparand-compared-after-rounding', ln, 'false: the stored number is not exactly the comparand', a), shrinkable=False))
    ctx.sample({'op': 'eq', 'line': 'eq u9007199254740993 f64 4340000000000000', 'note': 'true: PosInt is compared after `as f64`'})

# ---- json!
RUST_KW_SAFE = True

def jstr(s):
    return json.dumps(s, ensure_ascii=False)

def rust_str(s):
    out = ['"']
    for ch in s:
        if ch == '"':
            out.append('\\"')
        elif ch == '\\':
            out.append('\\\\')
        elif ch == '\n':
            out.append('\\n')
        elif ch == '\t':
            out.append('\\t')
        elif ord(ch) < 0x20 or ord(ch) == 0x7f:
            out.append('\\u{%x}' % ord(ch))
        else:
            out.append(ch)
    out.append('"')
    return ''.join(out)

STRS = ['', 'a', 'b', 'key', 'k 1', 'é', 'q"uote', 'back\\slash', 'line\nbreak', '😀', 'null', '~/', 'A', 'zz']
NICE_FLOATS = [('1.5', 1.5), ('-0.25', -0.25), ('1e10', 1e10), ('2.5e-3', 2.5e-3), ('0.1', 0.1), ('123456.789', 123456.789), ('-0.0', -0.0),
               ('1.0', 1.0), ('6.02e23', 6.02e23), ('0.5', 0.5)]

def pyval_to_json(v):
    t = v[0]
    if t == 'n':
        return 'null'
    if t == 't':
        return 'true'
    if t == 'f':
        return 'false'
    if t in 'ui':
        return str(v[1])
    if t == 'd':
        return repr(bits64(v[1]))
    if t == 's':
        return jstr(v[1].decode())
    if t == 'a':
        return '[' + ','.join(pyval_to_json(x) for x in v[1]) + ']'
    return '{' + ','.join(jstr(k.decode()) + ':' + pyval_to_json(x) for k, x in v[1]) + '}'

def num(n):
    return ('u', n) if n >= 0 else ('i', n)

PREAMBLE = '''
    let vi = 42i32; let vneg = -7i64; let vu = 7u64; let vbig = 18446744073709551615u64; let vs = "str"; let vstring = String::from("own");
    let vv = vec![1, 2, 3]; let vnone: Option<i32> = None; let vsome = Some(2.5f64); let vb = true; let vf = 0.5f32;
    let vval: Value = serde_json::from_str(r#"{"k":[1,{"z":null}]}"#).unwrap(); let vtuple = (1u8, "x"); let vunit = ();
    let mut vmap = std::collections::BTreeMap::new(); vmap.insert("m2".to_string(), 2); vmap.insert("m1".to_string(), 1);
    let _ = (&vi, &vneg, &vu, &vbig, &vs, &vstring, &vv, &vnone, &vsome, &vb, &vf, &vval, &vtuple, &vunit, &vmap);
'''
# (rust expression, value) — multi-token expressions included on purpose: `$e:expr` takes them as one expression
VAL_EXPRS = [('vi', num(42)), ('vi + 1', num(43)), ('vneg', num(-7)), ('vu', num(7)), ('vbig', num(2**64 - 1)), ('vs', ('s', b'str')), ('vstring', ('s', b'own')),
             ('&vstring', ('s', b'own')), ('vv', ('a', [num(1), num(2), num(3)])), ('vv[0]', num(1)), ('vv.len()', num(3)), ('vnone', ('n',)),
             ('vsome', ('d', f64bits(2.5))), ('vb', ('t',)), ('vi == 42', ('t',)), ('!vb', ('f',)), ('vf', ('d', f64bits(0.5))),
             ('vval', ('o', [(b'k', ('a', [num(1), ('o', [(b'z', ('n',))])]))])), ('vval["k"][0]', num(1)), ('vtuple', ('a', [num(1), ('s', b'x')])),
             ('vunit', ('n',)), ('vmap', ('o', [(b'm1', num(1)), (b'm2', num(2))])), ('if vb { 1 } else { 2 }', num(1)), ('vs.len() as u8', num(3)),
             ('Some("x")', ('s', b'x')), ('i64::MIN', num(-2**63)), ('u8::MAX', num(255)), ('vi as f64', ('d', f64bits(42.0)))]
KEY_EXPRS = [('vs', b'str'), ('vstring.clone()', b'own'), ('format!("k{}", 1)', b'k1'), ('vs.to_string()', b'str'), ('"lit".to_owned() + "x"', b'litx'),
             ('String::from("sf")', b'sf')]

def rand_expr(rng):
    """-> (rust source, python value, json text or None)"""
    r = rng.random()
    if r < 0.25:
        n = rng.choice([0, 1, -1, 7, 255, -128, 2**31 - 1, -2**31, rng.randrange(-1000, 1000)])
        if n == 0 and rng.random() < 0.3:
            return '0', num(0), '0'
        return str(n), num(n), str(n)
    if r < 0.35:
        n, suf = rng.choice([(2**31, 'i64'), (2**63 - 1, 'i64'), (-2**63, 'i64'), (2**64 - 1, 'u64'), (2**32, 'u64'), (200, 'u8'), (-5, 'i8'), (2**53 + 1, 'u64')])
        return '%d%s' % (n, suf), num(n), str(n)
    if r < 0.5:
        s, x = rng.choice(NICE_FLOATS)
        return s, ('d', f64bits(x)), s
    if r < 0.75:
        s = rng.choice(STRS)
        return rust_str(s), ('s', s.encode()), jstr(s)
    e, v = rng.choice(VAL_EXPRS)
    return e, v, pyval_to_json(v)

def rand_tree(rng, depth):
    """-> dict(rust=..., toks=..., json=... or None, value=expected python value or None)"""
    r = rng.random()
    if depth <= 0 or r < 0.4:
        k = rng.randrange(6)
        if k == 0:
            return {'rust': 'null', 'toks': 'N', 'json': 'null'}
        if k == 1:
            b = rng.random() < 0.5
            return {'rust': 'true' if b else 'false', 'toks': 'T' if b else 'F', 'json': 'true' if b else 'false'}
        e, v, j = rand_expr(rng)
        if rng.random() < 0.15:
            return {'rust': '(' + e + ')', 'toks': 'P' + show(v) + ';', 'json': j}
        return {'rust': e, 'toks': 'E' + show(v) + ';', 'json': j}
    if r < 0.7:
        n = rng.choice([0, 0, 1, 2, 3, 5])
        items = [rand_tree(rng, depth - 1) for _ in range(n)]
        lead = rng.choice([0] * 12 + [1, 2])
        trail = n > 0 and rng.random() < 0.4
        rust = '[' + ', ' * lead + ', '.join(i['rust'] for i in items) + (',' if trail else '') + ']'
        toks = '[' + ',' * lead + ','.join(i['toks'] for i in items) + (',' if trail else '') + ']'
        js = None if lead or any(i['json'] is None for i in items) else '[' + ','.join(i['json'] for i in items) + ']'
        return {'rust': rust, 'toks': toks, 'json': js, 'lead': lead or any(i.get('lead') for i in items)}
    n = rng.choice([0, 1, 2, 3, 4, 6])
    mem = []
    for _ in range(n):
        q = rng.random()
        if q < 0.6:
            s = rng.choice(STRS[:8])
            kr, kb = rust_str(s), s.encode()
        else:
            kr, kb = rng.choice(KEY_EXPRS)
        paren = rng.random() < 0.2
        mem.append((('(' + kr + ')') if paren else kr, ('P' if paren else 'E') + 's' + hx(kb) + ';', jstr(kb.decode()), rand_tree(rng, depth - 1)))
    trail = n > 0 and rng.random() < 0.4
    rust = '{' + ', '.join(k + ': ' + t['rust'] for k, _, _, t in mem) + (',' if trail else '') + '}'
    toks = '{' + ','.join(kt + ':' + t['toks'] for _, kt, _, t in mem) + (',' if trail else '') + '}'
    js = None if any(t['json'] is None for _, _, _, t in mem) else '{' + ','.join(kj + ':' + t['json'] for _, _, kj, t in mem) + '}'
    return {'rust': rust, 'toks': toks, 'json': js, 'lead': any(t.get('lead') for _, _, _, t in mem)}

FIXED_TREES = [
    {'rust': '[,]', 'toks': '[,]', 'json': None, 'lead': True}, {'rust': '[,1]', 'toks': '[,Eu1;]', 'json': None, 'lead': True},
    {'rust': '[,,null,]', 'toks': '[,,N,]', 'json': None, 'lead': True}, {'rust': '[,[,]]', 'toks': '[,[,]]', 'json': None, 'lead': True},
    {'rust': '{"a": 1, "a": [2,], "b": {"c": null,},}', 'toks': '{Es61;:Eu1;,Es61;:[Eu2;,],Es62;:{Es63;:N,},}', 'json': '{"a":1,"a":[2],"b":{"c":null}}'},
    {'rust': '-0', 'toks': 'Eu0;', 'json': None, 'note': 'Rust integer -0 is 0; the JSON text -0 is the float -0.0'},
    {'rust': '[null, true, false, [], {}, [[]], [{}], {"x": []}]', 'toks': '[N,T,F,[],{},[[]],[{}],{Es78;:[]}]', 'json': '[null,true,false,[],{},[[]],[{}],{"x":[]}]'},
    {'rust': '{("p"): (1), "q": (vs)}', 'toks': '{Ps70;:Pu1;,Es71;:Ps737472;}', 'json': '{"p":1,"q":"str"}'},
]
# (rust tokens, model tokens): must not compile / model: none
NEGATIVE = [('[1,,2]', '[Eu1;,,Eu2;]'), ('[1 2]', '[Eu1;Eu2;]'), ('{,}', '{,}'), ('{"a" 1}', '{Es61;Eu1;}'), ('{"a":}', '{Es61;:}'), ('{"a"}', '{Es61;}'),
            ('{:1}', '{:Eu1;}'), ('{"a":1 "b":2}', '{Es61;:Eu1;Es62;:Eu2;}'), ('{"a":1,,}', '{Es61;:Eu1;,,}'), ('[null null]', '[NN]'),
            ('{"a": null null}', '{Es61;:NN}'), ('[1,2,,]', '[Eu1;,Eu2;,,]'), ('{"a",1}', '{Es61;,Eu1;}'), ('[:]', '[:]'), ('{"a"::1}', '{Es61;::Eu1;}'),
            ('{1:2}', '{Eu1;:Eu2;}'), ('{null:1}', '{N:Eu1;}'), ('null null', 'NN'), ('[,1,,]', '[,Eu1;,,]'), ('[true,,]', '[T,,]'), ('{"a":1,:2}', '{Es61;:Eu1;,:Eu2;}'),
            ('{"a" "b":1}', '{Es61;Es62;:Eu1;}'), ('[[1,,]]', '[[Eu1;,,]]'), ('{"a":[1 2]}', '{Es61;:[Eu1;Eu2;]}'), ('{"a":,}', '{Es61;:,}'), ('[1,:]', '[Eu1;,:]'),
            ('{("a") "b": 1}', '{Ps61;Es62;:Eu1;}'), ('{"k": true false}', '{Es6b;:TF}'), ('{[1]: 2}', '{[Eu1;]:Eu2;}'), ('[{}{}]', '[{}{}]')]

MACRO_DIR = os.path.join(engine.CACHE, 'ptrmacro')

def build_macro_project(cases, negatives, po=False):
    os.makedirs(os.path.join(MACRO_DIR, 'src', 'bin'), exist_ok=True)
    with open(os.path.join(MACRO_DIR, 'Cargo.toml'), 'w') as f:
        f.write('[package]\nname = "ptrmacro"\nversion = "0.0.0"\nedition = "2021"\npublish = false\n\n[workspace]\n\n[dependencies]\n'
                'serde_json = { path = "%s"%s }\n\n[profile.dev]\nopt-level = 0\ndebug = false\n' % (engine.REPO, ', features = ["preserve_order"]' if po else ''))
    shutil.copy(os.path.join(engine.REPO if os.path.exists(os.path.join(engine.REPO, 'Cargo.lock')) else '/repo', 'Cargo.lock'), os.path.join(MACRO_DIR, 'Cargo.lock'))
    for fn in os.listdir(os.path.join(MACRO_DIR, 'src', 'bin')):
        os.remove(os.path.join(MACRO_DIR, 'src', 'bin', fn))
    src = ['#![recursion_limit = "1024"]\n#![allow(warnings)]\n#[path = "%s"] mod canon;\nuse serde_json::{json, Value};\n'
           'fn txt(s: &str) -> String { match serde_json::from_str::<Value>(s) { Ok(v) => canon::show_value(&v), Err(e) => format!("ERR {}", e) } }\n'
           % os.path.join(engine.VERIF, 'harness', 'src', 'canon.rs')]
    per = 20
    nfn = (len(cases) + per - 1) // per
    for k in range(nfn):
        src.append('fn part%d() {%s' % (k, PREAMBLE))
        for idx in range(k * per, min(len(cases), (k + 1) * per)):
            c = cases[idx]
            src.append('    println!("%d {}", canon::show_value(&json!(%s)));' % (idx, c['rust']))
            if c['json'] is not None:
                src.append('    println!("%d= {}", txt(%s));' % (idx, rust_str(c['json'])))
        src.append('}')
    src.append('fn main() {' + ''.join(' part%d();' % k for k in range(nfn)) + ' }')
    with open(os.path.join(MACRO_DIR, 'src', 'bin', 'pos.rs'), 'w') as f:
        f.write('\n'.join(src) + '\n')
    for i, (r, _) in enumerate(negatives):
        with open(os.path.join(MACRO_DIR, 'src', 'bin', 'neg%d.rs' % i), 'w') as f:
            f.write('#![allow(warnings)]\nfn main() { let v: serde_json::Value = serde_json::json!(%s); println!("{}", v); }\n' % r)
    tdir = os.path.join(MACRO_DIR, 'target-po' if po else 'target')
    for i in range(len(negatives) + 40):
        p = os.path.join(tdir, 'debug', 'neg%d' % i)
        if os.path.exists(p):
            os.remove(p)
    p = os.path.join(tdir, 'debug', 'pos')
    if os.path.exists(p):
        os.remove(p)
    rc, out = engine.sh(['cargo', 'build', '--offline', '--keep-going', '--bins', '-j', '8'], cwd=MACRO_DIR, timeout=1500, env={'CARGO_TARGET_DIR': tdir})
    return tdir, out

def part_macro(ctx, cfg):
    rng = ctx.rng
    n = 300 if ctx.tier == 'quick' else 1500
    cases = list(FIXED_TREES)
    while len(cases) < n:
        t = rand_tree(rng, rng.choice([1, 2, 3, 4]))
        if len(t['rust']) < 1500:
            cases.append(t)
    negs = NEGATIVE[:12] if ctx.tier == 'quick' else NEGATIVE
    if PO[0]:
        negs = NEGATIVE[:3]          # what does not compile does not depend on the feature: a token few under preserve_order
    with engine.Lock('ptrmacro'):
        tdir, out = build_macro_project(cases, negs, PO[0])
        posbin = os.path.join(tdir, 'debug', 'pos')
        if not os.path.exists(posbin):
            blocks = re.split(r'\n(?=error)', out)
            errs = [b.split('\n')[0] + ' @' + (re.search(r'src/bin/pos\.rs:\d+', b).group(0)) for b in blocks if 'src/bin/pos.rs' in b][:5] or \
                   [l for l in out.splitlines() if l.startswith('error') and 'neg' not in l][:5]
            ctx.violations.append(viol('macro-program-does-not-compile', 'generated json! program', 'the generated json!(...) invocations compile (they are valid per the model)',
                                       '; '.join(errs)[:600]))
            log(out[-3000:])
            return
        import subprocess
        p = subprocess.run([posbin], stdout=subprocess.PIPE, stderr=subprocess.PIPE, timeout=300)
        neg_built = [os.path.exists(os.path.join(tdir, 'debug', 'neg%d' % i)) for i in range(len(negs))]
    got, txt = {}, {}
    for line in p.stdout.decode('utf-8', 'replace').splitlines():
        a, _, b = line.partition(' ')
        if a.endswith('='):
            txt[int(a[:-1])] = b
        else:
            got[int(a)] = b
    if p.returncode != 0:
        ctx.violations.append(viol('macro-program-crashed', 'generated json! program', 'exit 0', 'rc=%d %s' % (p.returncode, p.stderr.decode('utf-8', 'replace')[-300:])))
    lines = ['jm ' + c['toks'] for c in cases] + ['jm ' + t for _, t in negs]
    mo = ctx.model(lines, name=(MODEL + '_po' if PO[0] else MODEL))
    ctx.evaluations += len(cases) + len(negs)
    for i, c in enumerate(cases):
        a = got.get(i)
        ctx.count('macro:' + ('leading-comma array (accepted by the macro, no JSON equivalent)' if c.get('lead') else 'no-text-equivalent' if c['json'] is None else 'with JSON text'))
        if a is None:
            ctx.violations.append(viol('macro-program-output-missing', 'json!(%s)' % c['rust'], 'one output line per case', 'none'))
            continue
        if c['json'] is not None and txt.get(i) != a:
            ctx.violations.append(viol('macro-differs-from-parsed-text', 'json!(%s)' % c['rust'], 'from_str(%r) = %s' % (c['json'], txt.get(i)), a))
        elif mo[i] != a:
            ctx.violations.append(viol('macro-model-mismatch', 'json!(%s)  [jm %s]' % (c['rust'], c['toks']), 'model of json_internal!: ' + mo[i], a))
        else:
            ctx.distinct_nontrivial += 1
    for i, (r, t) in enumerate(negs):
        ctx.count('macro:rejected-form')
        m = mo[len(cases) + i]
        if neg_built[i] or m != 'none':
            ctx.violations.append(viol('macro-accepts-malformed', 'json!(%s)' % r, 'does not compile (model: %s)' % m, 'compiles' if neg_built[i] else 'rejected'))
    ctx.sample({'op': 'json!', 'rust': cases[len(FIXED_TREES)]['rust'][:300], 'model_tokens': cases[len(FIXED_TREES)]['toks'][:300], 'json_text': cases[len(FIXED_TREES)]['json']})

def run_c18(ctx):
    ctx.rule = ('generated Values (keys drawn from "", "~", "/", "~0", "~1", "~01", "a/b", digits, "-", "+1", non-ASCII ...; arrays up to 12 elements): every existing path x every '
                'escaped/raw spelling of every token, mutated pointers (leading zeros, "+", "-", missing/trailing "/", "~" at end, "~2", huge and non-ASCII digits, index = len), random '
                'pointers, and ALL pointers up to length 6 (thorough 7) over {/,~,0,1,a} against a value holding every awkward key; ops pointer, pointer_mut (marker written through the '
                'reference, whole value printed) and pointer_mut+take; get/get_mut/Index/IndexMut probes (indices 0..len+1, 2^32, 2^64-1; present/absent/near-miss keys) on every sub-value; '
                '== with i8..usize, f32, f64, bool, str comparands at all type boundaries and around the stored number; each compared with an independent RFC 6901 / container-access reference '
                'in the check AND with the extracted Coq model; json!: generated Rust program (literals, nested groups, trailing commas, interpolated multi-token expressions, parenthesised keys, '
                'duplicate keys) compared with from_str of the equivalent text and with the macro model, malformed token trees compiled one by one and required to fail; '
                'non-trivial = lookups that select a node below the root / probes that hit / comparisons that are true / macro cases that agree')
    for cfg in ctx.cfgs:
        PO[0] = 'preserve_order' in engine.CONFIGS[cfg][0]
        part_pointer(ctx, cfg)
        part_index(ctx, cfg)
        part_acc(ctx, cfg)
        part_eq(ctx, cfg)
        part_macro(ctx, cfg)
    for cfg in [c for c in getattr(ctx, 'side_cfgs', []) if c not in ctx.cfgs]:
        # arbitrary_precision side configuration: Value == primitive with numbers held as literal text (partial_eq.rs goes through as_i64 / as_u64 / as_f64 / as_f32)
        PO[0] = False
        part_eq(ctx, cfg)

PTR_TB = ['modelled, not verified: std str::replace / str::split / usize::from_str / slice::get / BTreeMap get+entry, `as` casts between integers and floats (Flocq model of IEEE rounding)',
          'json!: rustc\'s macro_rules matcher and `$e:expr` fragment parser are abstracted (an expression is one token of the model); tied by compiling generated programs',
          'a &mut Value is modelled as the path of the addressed node; tied by writing a marker through the real reference and printing the whole value']

register('C18', cfgs={'quick': ['def', 'po'], 'thorough': ['def', 'po']}, side_cfgs=['ap'], run=run_c18, judge=judge_c18, extended=run_c18, trusted_base=PTR_TB)
