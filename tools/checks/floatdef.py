"""C08 — default-build (no float_roundtrip, no arbitrary_precision) decimal -> f64 / f32 conversion.

Code under test: /repo/src/de.rs parse_integer, parse_number, parse_decimal, parse_exponent, parse_long_integer,
parse_decimal_overflow, parse_exponent_overflow, f64_from_parts, POW10.

Three observers per literal:
  * `pv <letters> b <hex>`  from_slice::<Value>  (harness sjh)   and the extracted Coq model (sjdriver): identical lines required;
  * `tn f64 <hex>`          from_slice::<f64>    (harness sjh_apnum): "the number deserialised as f64" (integers become floats here);
  * `f32 <hex>`             from_slice::<f32>    (harness sjh_apnum), printed as the bits of (x as f64).
The oracle is exact: the literal is turned into a rational N/D of Python big ints and rounded to nearest-even to
binary64 (subnormals included) by integer division; Python's float() is used only as a secondary cross-check of that rounding.

Clauses (what = ...):
  nan-or-inf, wrong-sign, not-exact-on-short-literal (<= 15 digits after dropping leading zeros and |net exponent| <= 22),
  more-than-5-ulp, zero-literal (0eN must be +-0), nonzero-below-subnormal-range (|x| < 2^-1075 must give +-0),
  accepts-overflow (|x| >= 2^1024 - 2^970 must be rejected; known finding F11 when at most 1.5 ulp beyond, else accepts-overflow-more-than-1ulp-beyond), rejects-in-range (rejected although more than 5 ulp below that threshold),
  malformed (any other error on a grammatical literal), value-vs-typed-mismatch (Value and f64 targets differ), wrong-integer,
  f32-not-f64-rounded-once (class integer-literal-converted-directly-to-f32: known finding F14), f32-float-path-not-f64-rounded-once,
  f32-error-mismatch, model-mismatch, crash.
"""
import re, struct, sys
import engine, gen
from gen import hx
from checks import register, log

TOL = 5                      # the property's tolerance in units in the last place
ACCEPT_BEYOND_MILLI_ULP = 1500   # known finding F11: values at most this far (thousandths of 2^971) beyond the overflow threshold may be accepted as MAX
EXACT_DIGITS = 15
EXACT_EXP = 22

MASK63 = (1 << 63) - 1
INF64 = 0x7ff << 52
MAXFIN = INF64 - 1
T_OVF = (1 << 1024) - (1 << 970)          # values >= T_OVF round (nearest-even) to infinity
T_NEAR = T_OVF - TOL * (1 << 971)         # rejecting is allowed from here on
NUM_RE = re.compile(rb'(-?)(0|[1-9][0-9]*)(?:\.([0-9]+))?(?:[eE]([+-]?[0-9]+))?\Z')

_P10 = [1]
def pow10(k):
    while len(_P10) <= k and len(_P10) < 6000:
        _P10.append(_P10[-1] * 10)
    return _P10[k] if k < len(_P10) else 10 ** k

def big_int(s):
    """int(s) for a digit string of any length (CPython limits int(str) to 4300 digits)"""
    if len(s) <= 4000:
        return int(s)
    k = len(s) // 2
    return big_int(s[:k]) * pow10(len(s) - k) + big_int(s[k:])

def dec_str(n):
    """decimal digits of a non-negative int of any size"""
    try:
        return str(n)
    except ValueError:
        k = 2000
        hi, lo = divmod(n, pow10(k))
        return dec_str(hi) + str(lo).rjust(k, '0')

# ------------------------------------------------------------------ exact rounding
def rne_bits(N, D, p=53, qmin=-1074):
    """round-to-nearest-even of the positive rational N/D to a binary format with p significant bits and least
    quantum 2^qmin; returns the bit pattern of the magnitude (exponent field above the p-1 fraction bits; a carry into
    the exponent field is the right answer; patterns >= (all-ones exponent) mean overflow to infinity) and inexact flag"""
    b = N.bit_length() - D.bit_length()
    if b >= 0:
        ge = N >= (D << b)
    else:
        ge = (N << -b) >= D
    q = (b if ge else b - 1) - (p - 1)
    if q < qmin:
        q = qmin
    if q >= 0:
        n, r = divmod(N, D << q)
        den = D << q
    else:
        n, r = divmod(N << -q, D)
        den = D
    r2 = r << 1
    if r2 > den or (r2 == den and (n & 1)):
        n += 1
    return ((q - qmin) << (p - 1)) + n, r != 0

def value_of_bits64(mag):
    """exact value of a finite binary64 magnitude pattern as (n, q): n * 2^q"""
    be, fr = mag >> 52, mag & ((1 << 52) - 1)
    if be == 0:
        return fr, -1074
    return fr | (1 << 52), be - 1075

def f64bits_to_f32_as_f64bits(b):
    """(f64 as f32) as f64, on bit patterns, finite input; returns (bits, overflowed_to_inf)"""
    s = b & (1 << 63)
    mag = b & MASK63
    if mag == 0:
        return b, False
    n, q = value_of_bits64(mag)
    if q >= 0:
        b32, _ = rne_bits(n << q, 1, 24, -149)
    else:
        b32, _ = rne_bits(n, 1 << -q, 24, -149)
    if b32 >= 0x7f800000:
        return s | INF64, True
    be, fr = b32 >> 23, b32 & 0x7fffff
    if be == 0:
        if fr == 0:
            return s, False
        n2, q2 = fr, -149
    else:
        n2, q2 = fr | (1 << 23), be - 150
    if q2 >= 0:
        r, ix = rne_bits(n2 << q2, 1)
    else:
        r, ix = rne_bits(n2, 1 << -q2)
    assert not ix
    return s | r, False

def f32bits_as_f64bits(b32, sign):
    """the f64 bit pattern of the f32 with magnitude pattern b32 and the given sign (finite or infinite)"""
    if b32 >= 0x7f800000:
        return (sign << 63) | INF64
    be, fr = b32 >> 23, b32 & 0x7fffff
    if be == 0:
        if fr == 0:
            return sign << 63
        n2, q2 = fr, -149
    else:
        n2, q2 = fr | (1 << 23), be - 150
    r, _ = rne_bits(n2 << q2, 1) if q2 >= 0 else rne_bits(n2, 1 << -q2)
    return (sign << 63) | r

# ------------------------------------------------------------------ the oracle
class Ora(object):
    __slots__ = ('gram', 'neg', 'zero', 'ndl', 'enet', 'sci', 'kind', 'cbits', 'near', 'isint', 'ival', 'short')

def oracle(lit):
    """exact analysis of one literal (bytes)"""
    o = Ora()
    m = NUM_RE.match(lit)
    if not m:
        o.gram = False
        return o
    o.gram = True
    sg, ip, fp, ex = m.group(1), m.group(2), m.group(3) or b'', m.group(4)
    o.neg = sg == b'-'
    digs = (ip + fp).lstrip(b'0')
    o.ndl = nd = len(digs)
    e = (big_int(ex.decode()) if ex is not None else 0) - len(fp)
    o.enet = e
    o.isint = (not fp) and ex is None
    o.ival = None
    o.zero = nd == 0
    o.short = nd <= EXACT_DIGITS and -EXACT_EXP <= e <= EXACT_EXP
    o.near = False
    if o.zero:
        o.sci = 0
        o.kind, o.cbits = 'fin', 0
        if o.isint:
            o.ival = 0
        return o
    o.sci = sci = nd - 1 + e              # 10^sci <= |x| < 10^(sci+1)
    if sci >= 310:
        o.kind, o.cbits, o.near = 'inf', INF64, True
        return o
    if sci <= -326:                       # |x| < 1e-325 < 2^-1075
        o.kind, o.cbits = 'tiny', 0
        return o
    mm = big_int(digs.decode())
    if o.isint:
        o.ival = -mm if o.neg else mm
    if e >= 0:
        N, D = mm * pow10(e), 1
    else:
        N, D = mm, pow10(-e)
    if sci >= 307:
        if N >= T_OVF * D:
            o.kind, o.cbits, o.near = 'inf', INF64, True
            return o
        o.near = N >= T_NEAR * D
    elif sci <= -323:
        if (N << 1075) < D:
            o.kind, o.cbits = 'tiny', 0
            return o
    o.cbits, _ = rne_bits(N, D)
    o.kind = 'fin'
    return o

def excess_milli_ulp(lit):
    """(|x| - (2^1024-2^970)) / 2^971 in thousandths, rounded down; None when the exponent is absurd"""
    m = NUM_RE.match(lit)
    ip, fp, ex = m.group(2), m.group(3) or b'', m.group(4)
    e = (big_int(ex.decode()) if ex is not None else 0) - len(fp)
    if abs(e) > 5000:
        return None
    mm = big_int((ip + fp).decode())
    N, D = (mm * pow10(e), 1) if e >= 0 else (mm, pow10(-e))
    return ((N - T_OVF * D) * 1000) // ((1 << 971) * D)

def python_float_bits(lit):
    """secondary cross-check only: CPython's correctly rounded strtod"""
    try:
        x = float(lit)
    except (ValueError, OverflowError):
        return None
    return struct.unpack('<Q', struct.pack('<d', x))[0] & MASK63

def band(e, pfx):
    if e < -450:
        return '%s[..-450)' % pfx
    if e >= 450:
        return '%s[450..)' % pfx
    lo = (e // 50) * 50
    return '%s[%d..%d)' % (pfx, lo, lo + 50)

# ------------------------------------------------------------------ judge
def _viol(what, cfg, lit, expected, actual, **kw):
    v = {'what': what, 'cfg': cfg, 'input': hx(lit), 'expected': expected, 'actual': actual, 'literal': lit[:120].decode('latin-1') + ('...(%d bytes)' % len(lit) if len(lit) > 120 else '')}
    v.update(kw)
    return v

def _state(ctx):
    st = getattr(ctx, '_c08', None)
    if st is None:
        st = ctx._c08 = {'max': -1, 'maxlit': None}
    return st

def _judge(ctx, cfg, inputs, oras=None, model_cache=None, model_stride=1, tol=TOL, count_distinct=False):
    """inputs: list of literals (bytes).  oras: precomputed oracle objects; model_cache: dict letters -> (stride, outputs)"""
    st = _state(ctx)
    L = ctx.letters(cfg)
    hexes = [hx(d) for d in inputs]
    pv_lines = ['pv %s b %s' % (L, h) for h in hexes]
    ap_lines = []
    for h in hexes:
        ap_lines.append('tn f64 %s' % h)
        ap_lines.append('f32 %s' % h)
    # model (slow: ~1 ms per float case) — reuse the outputs of an identical batch of lines where possible
    if model_cache is not None and L in model_cache:
        stride, mo_s = model_cache[L]
        io = ctx.impl(cfg, pv_lines)
    else:
        stride = model_stride
        if stride == 1:
            io, mo_s = ctx.both(cfg, pv_lines)
        else:
            io = ctx.impl(cfg, pv_lines)
            mo_s = ctx.model(pv_lines[::stride])
        if model_cache is not None:
            model_cache[L] = (stride, mo_s)
    ao = ctx.impl(cfg, ap_lines, name='sjh_apnum')
    if oras is None:
        oras = [oracle(d) for d in inputs]
    v = []
    quiet = ctx.quiet
    for i, d in enumerate(inputs):
        a = io[i]
        t64 = ao[2 * i]
        t32 = ao[2 * i + 1]
        o = oras[i]
        # ---- model vs implementation (every input, grammatical or not)
        if i % stride == 0:
            mline = mo_s[i // stride]
            if mline != 'NOMODEL' and mline != a:
                ctx.disagreements.append({'input': hexes[i], 'impl': a, 'model': mline, 'cfg': cfg})
                v.append(_viol('model-mismatch', cfg, d, 'proved model: ' + mline, a))
        if a == 'PANIC' or a.startswith('CRASH') or t64 == 'PANIC' or t64.startswith('CRASH') or t32 == 'PANIC' or t32.startswith('CRASH'):
            v.append(_viol('crash', cfg, d, 'a value or an error', '%s | %s | %s' % (a, t64, t32)))
            continue
        if not o.gram:
            continue
        sign = 1 if o.neg else 0
        # ---- outcome of "deserialise as f64"
        if t64.startswith('ok '):
            try:
                bits = int(t64[3:], 16)
            except ValueError:
                v.append(_viol('malformed', cfg, d, 'ok <bits>', t64))
                continue
            err = None
        else:
            f = t64.split(' ')
            err = f[1] if len(f) > 1 else t64
            bits = None
            if err != 'NumRange':
                v.append(_viol('malformed', cfg, d, 'a float or "number out of range" for a grammatical number literal', t64))
                continue
        # ---- Value target agrees with the typed target
        if a.startswith('ok d'):
            if err is not None or int(a[4:], 16) != bits:
                v.append(_viol('value-vs-typed-mismatch', cfg, d, 'from_slice::<f64>: ' + t64, 'from_slice::<Value>: ' + a))
        elif a.startswith('ok u') or a.startswith('ok i'):
            iv = int(a[4:])
            if not o.isint or o.ival is None or iv != o.ival or (a[3] == 'i') != (iv < 0):
                v.append(_viol('wrong-integer', cfg, d, 'the integer literal itself', a))
            if err is not None:
                v.append(_viol('value-vs-typed-mismatch', cfg, d, 'from_slice::<Value>: ' + a, 'from_slice::<f64>: ' + t64))
        elif a.startswith('err NumRange'):
            if err is None or ' '.join(t64.split(' ')[:5]) != a:
                v.append(_viol('value-vs-typed-mismatch', cfg, d, 'from_slice::<f64>: ' + t64, 'from_slice::<Value>: ' + a))
        else:
            v.append(_viol('malformed', cfg, d, 'a number or "number out of range" for a grammatical number literal', a))
        # ---- (6) range errors
        if err is not None:
            if o.zero:
                v.append(_viol('zero-literal', cfg, d, '+-0 (a zero significand is never out of range)', t64))
            elif not o.near:
                v.append(_viol('rejects-in-range', cfg, d, 'a float: the exact value is more than %d ulp (2^971) below 2^1024-2^970; correctly rounded bits %016x' % (tol, o.cbits | (sign << 63)),
                               t64, correct_bits='%016x' % (o.cbits | (sign << 63)), ulp=MAXFIN + 1 - o.cbits))
            if not quiet:
                ctx.count('outcome:NumRange')
                if o.kind != 'inf':
                    ctx.count('outcome:NumRange-within-tolerance-below-threshold')
                    x = excess_milli_ulp(d)
                    if x is not None and -x > ctx.hist['overflow:rejected-at-most-this-far-below-threshold(milli-ulp)']:
                        ctx.hist['overflow:rejected-at-most-this-far-below-threshold(milli-ulp)'] = -x
            # f32 must be rejected too
            if not t32.startswith('err NumRange'):
                v.append(_viol('f32-error-mismatch', cfg, d, 'number out of range (the f64 parse is rejected)', t32))
            continue
        mag = bits & MASK63
        # ---- (1) never NaN / inf
        if mag >= INF64:
            v.append(_viol('nan-or-inf', cfg, d, 'a finite float', t64, bits='%016x' % bits))
            continue
        # ---- (2) sign
        if (bits >> 63) != sign:
            v.append(_viol('wrong-sign', cfg, d, 'sign bit %d' % sign, t64, bits='%016x' % bits))
        cb = o.cbits | (sign << 63)
        if o.kind == 'inf':
            # (6) a value that rounds to infinity must be rejected
            x = excess_milli_ulp(d)
            # known finding F11: accepted although at/beyond the threshold by at most ~1 ulp (bound used: 1.5 ulp = the three half-ulp
            # roundings of the algorithm: significand -> f64, table entry, product).  Anything further beyond is a different, hard class.
            what = 'accepts-overflow' if (x is not None and x <= ACCEPT_BEYOND_MILLI_ULP) else 'accepts-overflow-more-than-1ulp-beyond'
            v.append(_viol(what, cfg, d, 'number out of range: |x| >= 2^1024-2^970 rounds to infinity', t64, bits='%016x' % bits,
                           correct_bits='%016x' % cb, ulp=INF64 - mag, beyond_threshold_milli_ulp=x))
            if not quiet:
                ctx.count('outcome:finite-for-a-value-beyond-the-overflow-threshold')
                if x is not None and x > ctx.hist['overflow:accepted-at-most-this-far-beyond-threshold(milli-ulp)']:
                    ctx.hist['overflow:accepted-at-most-this-far-beyond-threshold(milli-ulp)'] = x
        else:
            dist = abs(mag - o.cbits)
            if o.zero:
                if mag != 0:
                    v.append(_viol('zero-literal', cfg, d, '+-0', t64, bits='%016x' % bits, correct_bits='%016x' % cb, ulp=dist))
            elif o.kind == 'tiny' and mag != 0:
                # (5) strictly below half the least subnormal
                v.append(_viol('nonzero-below-subnormal-range', cfg, d, '+-0: |x| < 2^-1075', t64, bits='%016x' % bits, correct_bits='%016x' % cb, ulp=dist))
            elif o.short and dist > 0:
                # (3) exactness on short literals
                v.append(_viol('not-exact-on-short-literal', cfg, d, 'correctly rounded %016x (%d digits, net exponent %d)' % (cb, o.ndl, o.enet), t64,
                               bits='%016x' % bits, correct_bits='%016x' % cb, ulp=dist))
            elif dist > tol:
                # (4)
                v.append(_viol('more-than-5-ulp', cfg, d, 'within %d ulp of the correctly rounded %016x' % (tol, cb), t64,
                               bits='%016x' % bits, correct_bits='%016x' % cb, ulp=dist))
            if not quiet:
                if count_distinct:
                    ctx.distinct_nontrivial += 1
                en = o.enet if -100000 < o.enet < 100000 else (-100000 if o.enet < 0 else 100000)
                k1, k2 = band(en, 'maxulp'), band(o.sci if -100000 < o.sci < 100000 else en, 'maxulp-sci')
                h = ctx.hist
                if h[k1] < dist:
                    h[k1] = dist
                elif k1 not in h:
                    h[k1] = 0
                if h[k2] < dist:
                    h[k2] = dist
                elif k2 not in h:
                    h[k2] = 0
                h['ulp=%d' % dist if dist <= 8 else 'ulp>8'] += 1
                if o.short:
                    h['short-literal(exact clause)'] += 1
                if o.kind == 'tiny':
                    h['below-subnormal-range'] += 1
                elif 0 < o.cbits < (1 << 52):
                    h['subnormal-result'] += 1
                if dist > st['max']:
                    st['max'] = dist
                    st['maxlit'] = {'max_ulp': dist, 'cfg': cfg, 'literal': d[:200].decode('latin-1'), 'input_hex': hexes[i] if len(d) <= 400 else hexes[i][:800] + '...',
                                    'bits': '%016x' % bits, 'correct_bits': '%016x' % cb, 'net_exponent': o.enet, 'digits': o.ndl}
        # ---- (7) f32 = the f64 result rounded once
        if t32.startswith('ok d'):
            want, ovf = f64bits_to_f32_as_f64bits(bits)
            got = int(t32[4:], 16)
            if ovf and not quiet:
                ctx.count('f32:inf')
            if got != want:
                direct = None
                if o.ival is not None:
                    # what `integer as f32` gives (one rounding from the exact integer)
                    b32, _ = rne_bits(abs(o.ival), 1, 24, -149) if o.ival else (0, False)
                    direct = b32
                if a[:4] in ('ok u', 'ok i') and direct is not None and got == f32bits_as_f64bits(direct, bits >> 63):
                    # known finding F14: an integer literal that fits u64/i64 is converted `as f32` directly (one rounding from the exact integer)
                    v.append(_viol('f32-not-f64-rounded-once', cfg, d, '(f64 result %016x) as f32 = %016x' % (bits, want), t32,
                                   bits='%016x' % got, correct_bits='%016x' % want,
                                   **{'class': 'integer-literal-converted-directly-to-f32', 'f32_bits_of_integer_rounded_once': '%08x' % direct}))
                else:
                    # float-path literal (or an integer literal giving neither rounding): hard violation, different class
                    v.append(_viol('f32-float-path-not-f64-rounded-once', cfg, d, '(f64 result %016x) as f32 = %016x' % (bits, want), t32,
                                   bits='%016x' % got, correct_bits='%016x' % want, **{'class': 'float-literal' if a[:4] not in ('ok u', 'ok i') else 'integer-literal-neither-rounding'}))
        else:
            v.append(_viol('f32-error-mismatch', cfg, d, 'a float (the f64 parse succeeds: %s)' % t64, t32))
    return v

def judge(ctx, cfg, inputs, aux=None):
    return _judge(ctx, cfg, list(inputs))

# ------------------------------------------------------------------ literal families
def fmt_exp(rng, w, force=False):
    if w == 0 and not force and rng.random() < 0.5:
        return ''
    s = rng.choice('eE')
    if w < 0:
        s += '-'
    elif rng.random() < 0.3:
        s += '+'
    elif w == 0 and rng.random() < 0.2:
        s += '-'
    a = str(abs(w))
    if rng.random() < 0.05:
        a = '0' * rng.randrange(1, 4) + a
    return s + a

def render(rng, neg, digits, enet, place=None, force_exp=False):
    """a JSON number literal whose value is int(digits) * 10^enet; digits has no leading zero (or is '0')"""
    n = len(digits)
    place = rng.randrange(5) if place is None else place
    sg = '-' if neg else ''
    if place == 0 or (place in (1, 3) and n == 1):
        # integer significand
        return (sg + digits + fmt_exp(rng, enet, force_exp)).encode()
    if place == 1:
        p = rng.randrange(1, n)
        return (sg + digits[:p] + '.' + digits[p:] + fmt_exp(rng, enet + n - p, force_exp)).encode()
    if place == 2:
        z = rng.choice([0, 0, 0, 1, 2, 3, 5, 8, 17, 30])
        return (sg + '0.' + '0' * z + digits + fmt_exp(rng, enet + n + z, force_exp)).encode()
    if place == 3:
        return (sg + digits[0] + '.' + digits[1:] + fmt_exp(rng, enet + n - 1, force_exp)).encode()
    # trailing zeros after the point
    t = rng.choice([1, 1, 2, 3, 6, 12])
    return (sg + digits + '.' + '0' * t + fmt_exp(rng, enet, force_exp)).encode()

def rand_digits(rng, n):
    if n == 1:
        return str(rng.randrange(1, 10))
    s = str(rng.randrange(10 ** (n - 1), 10 ** n))
    if rng.random() < 0.1:
        k = rng.randrange(1, n)
        s = s[:n - k] + '0' * k
    return s

def fam_a(ctx, n):
    rng = ctx.rng
    for _ in range(n):
        nd = rng.randrange(1, 41)
        digits = rand_digits(rng, nd)
        sg = '-' if rng.random() < 0.3 else ''
        w = rng.randrange(-400, 401)          # the WRITTEN exponent is uniform in +-400
        place = rng.randrange(5)
        if place == 0 or (nd == 1 and place in (1, 3)):
            body = digits
        elif place == 1:
            p = rng.randrange(1, nd)
            body = digits[:p] + '.' + digits[p:]
        elif place == 2:
            body = '0.' + '0' * rng.choice([0, 0, 0, 1, 2, 3, 5, 8, 17, 30]) + digits
        elif place == 3:
            body = digits[0] + '.' + digits[1:]
        else:
            body = digits + '.' + '0' * rng.choice([1, 1, 2, 3, 6, 12])
        yield (sg + body + fmt_exp(rng, w)).encode()

def fam_b(ctx):
    rng = ctx.rng
    for k in range(-400, 401):
        sg = '-' if rng.random() < 0.3 else ''
        yield ('%s1e%d' % (sg, k)).encode()
        yield ('%s1.0e%d' % (sg, k)).encode()
        yield ('%s10e%d' % (sg, k - 1)).encode()
        yield ('%s0.1e%d' % (sg, k + 1)).encode()
        yield ('%s1E%s%d' % (sg, '+' if k >= 0 else '', k)).encode()
        yield ('%s100000e%d' % (sg, k - 5)).encode()
        yield ('%s0.00001e%d' % (sg, k + 5)).encode()
        for nines in (1, 14, 15, 16, 17, 19, 20, 24, 40):
            yield ('%s9.%se%d' % (sg, '9' * nines, k - 1)).encode()
        for zeros in (0, 13, 14, 15, 16, 18, 19, 23, 40):
            yield ('%s1.%s1e%d' % (sg, '0' * zeros, k)).encode()

def fam_c(ctx, per):
    """the exactness frontier: digit counts 14..17 x net exponents -25..25"""
    rng = ctx.rng
    for e in range(-25, 26):
        for n in (14, 15, 16, 17):
            ms = [10 ** n - 1, 10 ** (n - 1), 10 ** (n - 1) + 1, 10 ** n - 2, 5 * 10 ** (n - 1), 2 ** 53 - 1, 2 ** 53, 2 ** 53 + 1, 9007199254740993,
                  2 ** 53 + 2, 2 ** 53 + 3, 2 ** 54 + 1, 2 ** 54 + 2, 2 ** 54 + 3, 2 ** 56 + 9]
            ds = [str(m) for m in ms if len(str(m)) == n]
            ds += [rand_digits(rng, n) for _ in range(per)]
            for digs in ds:
                neg = rng.random() < 0.25
                for place in (0, 3, rng.choice([1, 2])):
                    yield render(rng, neg, digs, e, place, force_exp=(place == 0 and rng.random() < 0.7))
    # fewer digits, full exponent range of the clause and just outside
    for e in range(-24, 25):
        for n in range(1, 14):
            for _ in range(max(1, per // 8)):
                yield render(rng, rng.random() < 0.25, rand_digits(rng, n), e, rng.randrange(4), force_exp=True)

def exact_decimal(k, q):
    """k * 2^q exactly as (digits, enet)"""
    if q >= 0:
        return dec_str(k << q), 0
    return dec_str(k * 5 ** (-q)), q

def boundary_forms(rng, neg, digits, e):
    """integer with exponent, 0.000..d with positive exponent, scientific"""
    sg = '-' if neg else ''
    n = len(digits)
    yield (sg + digits + fmt_exp(rng, e, True)).encode()
    yield (sg + digits[0] + ('.' + digits[1:] if n > 1 else '') + fmt_exp(rng, e + n - 1, True)).encode()
    if e + n <= 0:
        z = -(e + n) + rng.randrange(1, 40)
        yield (sg + '0.' + '0' * z + digits + fmt_exp(rng, e + n + z, True)).encode()
    else:
        yield (sg + '0.' + digits + fmt_exp(rng, e + n, True)).encode()

def fam_d(ctx, scale):
    rng = ctx.rng
    bases = [('1', 308), ('17976931348623157', 292), ('17976931348623158', 292), ('1797693134862315807', 290), ('18', 307), ('2', 308), ('1', 309),
             ('179769313486231570', 291), ('17976931348623159', 292), ('1797693134862315708', 290),
             ('179769313486231599', 291), ('17976931348623156225', 289), ('179769313486231581', 291), ('1797693134862315', 293),
             ('22250738585072014', -324), ('22250738585072011', -324), ('22250738585072012', -324), ('22250738585072009', -324), ('2225073858507201', -323),
             ('5', -324), ('49406564584124654', -340), ('24703282292062327', -340), ('24703282292062328', -340), ('1', -324), ('3', -324),
             ('2470328229206232720', -342), ('2470328229206232721', -342), ('25', -325), ('24', -325), ('74', -325), ('75', -325), ('1', -323), ('1', -307), ('1', -308)]
    for digits, e in bases:
        m0 = int(digits)
        for dlt in range(-60, 61):
            mm = m0 + dlt
            if mm <= 0:
                continue
            for lit in boundary_forms(rng, rng.random() < 0.2, str(mm), e):
                yield lit
        for L in (1, 2, 3, 5, 10, 20, 40, 100, 300, 780):
            tails = ['9' * L, '0' * (L - 1) + '1', '0' * L, '5' + '0' * (L - 1)] + [''.join(rng.choice('0123456789') for _ in range(L)) for _ in range(2 * scale)]
            for tl in tails:
                for lit in boundary_forms(rng, rng.random() < 0.2, digits + tl, e - L):
                    yield lit
    # exact dyadic boundaries written in full
    exacts = [((1 << 54) - 1, 970), ((1 << 53) - 1, 971), ((1 << 54) - 3, 970), (1, -1074), (1, -1075), (3, -1075), (1, -1076), (1, -1022), ((1 << 53) - 1, -1075),
              ((1 << 52) - 1, -1074), ((1 << 53) + 1, -1075), (5, -1076), (7, -1076)]
    for k, q in exacts:
        digits, e = exact_decimal(k, q)
        n = len(digits)
        for dlt in (-2, -1, 0, 1, 2):
            ds = dec_str(big_int(digits) + dlt)
            for lit in boundary_forms(rng, rng.random() < 0.2, ds, e):
                yield lit
        for kk in (15, 16, 17, 18, 19, 20, 21, 22, 25, 30, 50, 100, 200, 400, 700):
            if kk < n:
                t = digits[:kk]
                for ds in (t, str(int(t) + 1), str(int(t) - 1)):
                    for lit in boundary_forms(rng, rng.random() < 0.2, ds, e + n - kk):
                        yield lit

def fam_e(ctx):
    big = '99999999999999999999'
    lits = ['1e2147483647', '1e2147483648', '1e-2147483647', '1e-2147483648', '1e-2147483649', '0e' + big, '0.0e-99999999999', '-0e' + big, '-0.000e-' + big,
            '1e+' + big, '1e-' + big, '-1e-' + big, '-1e+' + big, '0.1e-2147483647', '0.1e2147483647', '0.1e2147483648', '10e2147483646', '123.456e2147483640',
            '1' + '0' * 400 + 'e-400', '0.' + '0' * 400 + '1e400', '-1' + '0' * 400 + 'e-400', '1' + '0' * 400 + 'e-401', '0.' + '0' * 400 + '1e401',
            '1' + '0' * 400 + 'E-2147483647', '0.' + '0' * 400 + '1e2147483647', '1' + '0' * 700 + 'e-1000', '0.' + '0' * 700 + '1e1000', '1' + '0' * 307, '1' + '0' * 308, '1' + '0' * 309,
            '9' * 308, '9' * 309, '1' + '0' * 308 + '.0', '1' + '0' * 309 + '.5e-1', '1' + '0' * 320 + 'e-12', '1' + '0' * 320 + 'e-11',
            '0e0', '0E+0', '-0', '-0.0', '-0e5', '-0e-5', '0.0', '0', '-0.0e0', '-1e-400', '1e-400', '-1e-324', '1e400', '-1e400', '0.' + '0' * 30 + 'e999', '0.000e2147483647', '0e2147483648',
            '1e00000000000000000000308', '1e-00000000000000000000308', '1e0000000000000000000000', '4294967297e-4294967296', '1e4294967296', '1e-4294967296', '1e4294967304', '1e-4294967304',
            '1e9223372036854775807', '1e-9223372036854775808', '1e18446744073709551616', '0e18446744073709551616', '1.5e2147483639', '15e2147483646', '0.0000000001e2147483647']
    for s in lits:
        yield s.encode()
    # exponents AT the i32 boundaries combined with mantissa exponents of either sign (integer digits beyond 20, fraction digits):
    # the sum of the written exponent and the mantissa's contribution must saturate, not wrap
    for x in gen.number_literals(ctx.rng, 0):
        if b'e' in x.lower() and any(str(e_).encode() in x for e_ in gen.I32_EDGES):
            yield x

def bits_to_float(b):
    return struct.unpack('<d', struct.pack('<Q', b))[0]

def fam_f(ctx, per, mids):
    rng = ctx.rng
    for be in range(0, 2047):
        fr = [0, 1, (1 << 52) - 1] + [rng.randrange(1 << 52) for _ in range(per)]
        for f in fr:
            b = (be << 52) | f
            x = bits_to_float(b)
            sg = '-' if rng.random() < 0.2 else ''
            yield (sg + repr(x)).encode()
            yield (sg + '%.16e' % x).encode()
            r = rng.random()
            if r < 0.5:
                yield (sg + '%.15e' % x).encode()
            elif r < 0.8:
                yield (sg + '%.17e' % x).encode()
            else:
                yield (sg + '%.19e' % x).encode()
        for _ in range(mids):
            f = rng.randrange(1 << 52)
            mag = (be << 52) | f
            if mag == 0:
                mag = 1
            n, q = value_of_bits64(mag)
            digits, e = exact_decimal(2 * n + 1, q - 1)       # the midpoint above
            sg = '-' if rng.random() < 0.2 else ''
            nd = len(digits)
            yield (sg + digits[0] + '.' + digits[1:] + 'e%d' % (e + nd - 1)).encode()
            ds = dec_str(big_int(digits) + rng.choice([-1, 1]))
            yield (sg + ds + 'e%d' % e).encode()
            k = rng.choice([17, 18, 19, 20, 21, 25])
            if k < nd:
                yield (sg + digits[:k] + 'e%d' % (e + nd - k)).encode()

def fam_g(ctx, n):
    rng = ctx.rng
    specials = [2 ** 64, 2 ** 64 - 1, 2 ** 64 + 1, 2 ** 63, 2 ** 63 - 1, 2 ** 63 + 1, 10 ** 19, 10 ** 20, 10 ** 20 - 1, 10 ** 19 - 1, 2 ** 53, 2 ** 53 + 1, 2 ** 53 - 1, 9007199254740993,
                18446744073709551610, 18446744073709551619, 18446744073709551620, 184467440737095516150, 184467440737095516160, 1844674407370955161, 1844674407370955162,
                9007199791611905, 2 ** 65, 2 ** 70 + 1, 2 ** 100, 2 ** 127, 2 ** 128, 10 ** 22, 10 ** 23, 10 ** 38, 10 ** 39, 7, 1, 0, 255, 16777216, 16777217, 16777219, 2 ** 31, 2 ** 32]
    for m in specials:
        for dlt in (-2, -1, 0, 1, 2):
            if m + dlt >= 0:
                yield str(m + dlt).encode()
                yield ('-' + str(m + dlt)).encode()
    for _ in range(n):
        yield (('-' if rng.random() < 0.3 else '') + rand_digits(rng, rng.randrange(20, 41))).encode()
    for _ in range(n // 4):
        yield (('-' if rng.random() < 0.4 else '') + rand_digits(rng, rng.randrange(16, 21))).encode()
    for _ in range(n // 8):
        # up to 1000 digits
        yield (('-' if rng.random() < 0.3 else '') + rand_digits(rng, rng.randrange(41, 330))).encode()
    # integers in u64/i64 range on which rounding first to f64 and then to f32 differs from rounding once to f32:
    # just above an odd multiple of half an f32 ulp, by at most half an f64 ulp
    for _ in range(max(8, n // 400)):
        b = rng.randrange(54, 65)                    # bit length of the integer
        j = rng.randrange(1 << 23, 1 << 24)
        tie = (2 * j + 1) << (b - 25)
        half = 1 << (b - 54)
        m = tie + rng.randrange(1, half + 1)
        if m < 2 ** 64:
            yield str(m).encode()
        if m < 2 ** 63:
            yield ('-' + str(m)).encode()

def fam_h(ctx, n):
    """two-step scaling (net exponent below -308) with 16-20 digit significands giving normal or large-subnormal results; and the top end"""
    rng = ctx.rng
    for _ in range(n):
        nd = rng.randrange(15, 22)
        digits = rand_digits(rng, nd)
        r = rng.random()
        if r < 0.7:
            e = rng.randrange(-345, -300)
        elif r < 0.85:
            e = rng.randrange(270, 309) - nd + 1
        else:
            e = rng.randrange(-308, 1)
        yield render(rng, rng.random() < 0.2, digits, e, rng.choice([0, 0, 3, 1, 2]), force_exp=True)

FAMILIES = ['a', 'b', 'c', 'd', 'e', 'f', 'g', 'h']

def family_iter(ctx, fam):
    q = ctx.tier == 'quick'
    if fam == 'a':
        return fam_a(ctx, 100000 if q else 1150000)
    if fam == 'b':
        return fam_b(ctx)
    if fam == 'c':
        return fam_c(ctx, 30 if q else 400)
    if fam == 'd':
        return fam_d(ctx, 1 if q else 6)
    if fam == 'e':
        return fam_e(ctx)
    if fam == 'f':
        return fam_f(ctx, 2 if q else 36, 1 if q else 6)
    if fam == 'g':
        return fam_g(ctx, 8000 if q else 80000)
    return fam_h(ctx, 50000 if q else 600000)

FAMILY_DESC = {
    'a': 'random 1-40 digit mantissas, any point placement, written exponent uniform in +-400',
    'b': 'every power of ten 1e-400..1e400 in 7 spellings, 9.99..e(k-1), 1.00..01ek',
    'c': 'exactness frontier: 14-17 digits x net exponent -25..25 (extremes 10^k-1, 10^k, 2^53+-1, ...) and 1-13 digits x -24..24',
    'd': 'overflow threshold, least normal, least subnormal and half of it: last-digit perturbations, long tails (to 800 digits), exact dyadic expansions',
    'e': 'exponents overflowing i32/i64/u64, zero significands with huge exponents, long mantissas with huge opposite exponents, signed zeros',
    'f': 'shortest repr / 16-20 significant digits of doubles from every binade (biased exponent 0..2046), exact midpoints between adjacent doubles',
    'g': 'integers as floats: 16-330 digit integers, u64/i64 boundaries, integers where (n as f64) as f32 != n as f32',
    'h': '15-21 digit significands with net exponent -345..-300 (two-step division), near the top of the range, and -308..0',
}

def run(ctx, tol=TOL):
    ctx.rule = ('number literals from 8 families (' + '; '.join('%s: %s' % (k, FAMILY_DESC[k]) for k in FAMILIES) + '); each through from_slice::<Value> (also the extracted Coq model, '
                'identical line required), from_slice::<f64> and from_slice::<f32>; the result bits are compared with an exact big-integer round-to-nearest-even oracle '
                '(cross-checked against CPython float()); ulp distance = distance of the ordered bit patterns; hist maxulp[lo..hi) = maximum distance observed per band of net '
                'decimal exponent (written exponent - fraction digits), maxulp-sci = per band of the value\'s decimal magnitude; distinct_nontrivial = distinct grammatical literals '
                'whose float result was compared with the oracle')
    st = _state(ctx)
    first = ctx.cfgs[0]
    nsamp = 0
    seen = set()                 # distinct literals over all families
    for fam in FAMILIES:
        it = family_iter(ctx, fam)
        batch = []
        def flush(batch):
            # oracle once per batch, shared by all configurations
            oras = [oracle(d) for d in batch]
            selfcheck(ctx, batch, oras)
            cache = {}
            for cfg in ctx.cfgs:
                stride = 1 if cfg == first else 8
                ctx.violations += _judge(ctx, cfg, batch, oras=oras, model_cache=cache, model_stride=stride, tol=tol, count_distinct=(cfg == first))
        total = 0
        for lit in it:
            if lit in seen:
                continue
            seen.add(lit)
            batch.append(lit)
            if len(batch) >= 150000:
                total += len(batch)
                flush(batch)
                batch = []
        if batch:
            total += len(batch)
            if nsamp < 8:
                ctx.sample({'family': fam, 'literal': batch[len(batch) // 2][:100].decode('latin-1'), 'input_hex': hx(batch[len(batch) // 2][:100])})
                nsamp += 1
            flush(batch)
        ctx.count('family:' + fam, total)
        log('C08 family %s: %d literals, violations so far %d, max ulp so far %d' % (fam, total, len(ctx.violations), st['max']))
    if st['maxlit'] is not None:
        ctx.samples = ctx.samples[:11]
        ctx.sample(dict(st['maxlit'], note='literal attaining the maximum observed ulp distance'))
    ctx.hist['maxulp:overall'] = st['max']

def selfcheck(ctx, batch, oras):
    """the exact oracle against CPython's strtod (secondary); a difference means the ORACLE is wrong, reported loudly"""
    for d, o in zip(batch, oras):
        if not o.gram or len(d) > 1100:
            continue
        pb = python_float_bits(d.decode('latin-1'))
        if pb is None:
            continue
        if pb != o.cbits:
            ctx.violations.append(_viol('oracle-selfcheck', ctx.cfgs[0], d, 'CPython float(): %016x' % pb, 'big-int oracle: %016x' % o.cbits, shrinkable=False))

TRUSTED = ['the check\'s oracle: Python big-integer arithmetic (exact rational of the literal, round-to-nearest-even by integer division), cross-checked against CPython float()',
           'the Rust harness binaries sjh (from_slice::<Value>) and sjh_apnum (from_slice::<f64>, from_slice::<f32>; floats printed as bit patterns)',
           'rustc/LLVM: f64 multiplication/division and u64->f64, f64->f32 casts are IEEE 754 round-to-nearest-even; the POW10 literals are correctly rounded by rustc',
           'modelled, not verified: IEEE arithmetic of f64 in the Coq model (Flocq BinarySingleNaN), tied to the code by bit-identical outputs on every literal of this check']

register('C08', cfgs={'quick': ['def'], 'thorough': ['def', 'po', 'raw']}, run=run, judge=judge, extended=run, trusted_base=TRUSTED)
