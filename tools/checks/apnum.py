"""C20 — arbitrary_precision keeps every number literal verbatim.

Layers per case:
  implementation (sjh_apnum / sjh on the real crate, built with arbitrary_precision)
    ==  extracted Coq model (sjdriver_apnum: Model/NumberM.v, proved in Properties/C20.v; sjdriver for `pv`)
    ==  an independent oracle written here (RFC 8259 number regex, Python big ints, Python's correctly rounded float(),
        a re-implementation of the compact serializer on top of Python's json tokenizer).
  typed targets: the same `tn` case run on the build WITHOUT the feature (def / fr) must print the identical line
  (implementation-vs-implementation across builds)."""
import re, json, struct, itertools
import engine, gen
from gen import hx
from checks import register, log

IMPL, MODEL = 'sjh_apnum', 'sjdriver_apnum'
NUM_RE = re.compile(rb'-?(?:0|[1-9][0-9]*)(?:\.[0-9]+)?(?:[eE][+-]?[0-9]+)?\Z')
INT_RE = re.compile(rb'-?[0-9]+\Z')
ALPHABET = [b'0', b'1', b'9', b'-', b'+', b'.', b'e', b'E']
U64, I64, U128, I128 = (0, 2**64 - 1), (-2**63, 2**63 - 1), (0, 2**128 - 1), (-2**127, 2**127 - 1)
TYPES = ['i8', 'i16', 'i32', 'i64', 'i128', 'u8', 'u16', 'u32', 'u64', 'u128', 'f32', 'f64']
NOFEATURE = {'ap': 'def', 'frap': 'fr'}

def f64bits(x):
    return struct.unpack('<Q', struct.pack('<d', x))[0]

def chunks(l, n):
    for i in range(0, len(l), n):
        yield l[i:i + n]

# ------------------------------------------------------------------ oracle for one literal
def in_rng(v, r):
    return r[0] <= v <= r[1]

def oracle_accessors(lit):
    """expected `ok ...` line of op nf for a literal of the RFC grammar (written from the documentation of the accessors)"""
    u64 = i64 = u128 = i128 = None
    if INT_RE.match(lit):
        v = int(lit)
        neg = lit.startswith(b'-')
        if not neg:
            u64 = v if in_rng(v, U64) else None
            u128 = v if in_rng(v, U128) else None
        i64 = v if in_rng(v, I64) else None
        i128 = v if in_rng(v, I128) else None
    try:
        f = float(lit)                       # CPython: correctly rounded (David Gay), any length
    except (OverflowError, ValueError):
        f = float('inf')
    fb = None if f in (float('inf'), float('-inf')) or f != f else f64bits(f)
    is_float = any(c in lit for c in b'.eE')
    o = lambda x: '-' if x is None else str(x)
    return 'ok %s %s %s %s %s %s %d%d%d' % (hx(lit), o(u64), o(i64), o(u128), o(i128), '-' if fb is None else '%016x' % fb,
                                           u64 is not None, i64 is not None, is_float and fb is not None)

def viol(what, cfg, data, expected, actual, **kw):
    d = {'what': what, 'cfg': cfg, 'input': hx(data), 'expected': expected, 'actual': actual}
    d.update(kw)
    return d

# ------------------------------------------------------------------ nf: Number::from_str on candidate strings
def judge_nf(ctx, cfg, inputs, aux=None):
    inputs = [d for d in inputs if gen.is_utf8(d)]
    lines = ['nf ' + hx(d) for d in inputs]
    io, mo = ctx.both(cfg, lines, impl_name=IMPL, model_name=MODEL)
    v = []
    for d, a, m in zip(inputs, io, mo):
        gram = bool(NUM_RE.match(d))
        ok = a.startswith('ok')
        if a == 'PANIC' or a.startswith('CRASH'):
            v.append(viol('from_str-panic', cfg, d, m, a))
        elif ok and not gram:
            v.append(viol('from_str-accepts-non-number', cfg, d, 'rejected: not an RFC 8259 number (independent regex); model: ' + m, a))
        elif gram and not ok:
            v.append(viol('from_str-rejects-number', cfg, d, 'accepted: RFC 8259 number (independent regex); model: ' + m, a))
        elif ok and a != oracle_accessors(d):
            f = a.split(' ')
            what = 'from_str-not-verbatim' if f[1] != hx(d) else 'accessor-wrong'
            v.append(viol(what, cfg, d, 'literal kept verbatim, accessors per documentation: ' + oracle_accessors(d), a))
        elif a != m:
            v.append(viol('from_str-model-mismatch', cfg, d, 'proved model: ' + m, a))
        elif ok and not ctx.quiet:
            ctx.distinct_nontrivial += 1
    return v

def judge_na(ctx, cfg, inputs):
    """accessors on arbitrary texts (from_string_unchecked): ties the ASSUMED std parse::<uN/iN/f64> behaviour of the model"""
    inputs = [d for d in inputs if gen.is_utf8(d) and d]
    lines = ['na ' + hx(d) for d in inputs]
    io, mo = ctx.both(cfg, lines, impl_name=IMPL, model_name=MODEL)
    return [viol('accessor-model-mismatch', cfg, d, 'model of str::parse (assumed std behaviour): ' + m, a, shrinkable=False)
            for d, a, m in zip(inputs, io, mo) if a != m]

# ------------------------------------------------------------------ nd: Display / Debug / to_string / to_value / from_value round trips
def judge_nd(ctx, cfg, lits):
    lines = ['nd ' + hx(d) for d in lits]
    io = ctx.impl(cfg, lines, name=IMPL)
    v = []
    for d, a in zip(lits, io):
        h = hx(d)
        want = 'ok %s %s %s %s l%s %s %s %s' % (h, hx(b'Number(' + d + b')'), h, h, h, h, h, h)
        if a == want:
            continue
        f, w = a.split(' '), want.split(' ')
        if len(f) == len(w) and f[:6] + f[7:] == w[:6] + w[7:]:
            # only the way back  Value::Number -> Number  (impl Deserializer for Number::deserialize_any) differs
            # (recorded observation, outside the claim: C20 speaks of literals parsed from text; the forwarding to
            #  visit_u64/i64/f64 in that Deserializer is deliberate.  `-0` -> `0`, `0.00000006` -> `6e-8`, 1<39 zeros> -> `1e39`.)
            got = bytes.fromhex(f[6]).decode('utf-8', 'replace') if not f[6].startswith('E') else f[6]
            if not ctx.quiet:
                if ctx.hist['observation:value-to-number-respelled'] == 0:
                    ctx.sample({'observation': 'from_value::<Number>(to_value(&n)) re-spells the text (outside the claim)', 'literal': d.decode('ascii', 'replace')[:80], 'becomes': got[:80]})
                ctx.count('observation:value-to-number-respelled')
        else:
            v.append(viol('number-text-not-verbatim', cfg, d, 'Display, Debug, to_string, to_vec_pretty, to_value, from_value, from_str::<Number>, Value::to_string all reproduce the literal: ' + want, a, shrinkable=False))
    return v

# ------------------------------------------------------------------ documents: independent tokenizer + serializer
class Lit(object):
    __slots__ = ('s',)
    def __init__(self, s):
        self.s = s

def _bad_const(c):
    raise ValueError(c)

def py_parse(doc):
    """doc (bytes) -> tree with number literals kept as text, objects as BTreeMap (sorted by UTF-8 key, last duplicate wins)"""
    def pairs(ps):
        m = {}
        for k, x in ps:
            m[k.encode('utf-8', 'surrogatepass')] = x
        return ('o', sorted(m.items()))
    return json.loads(doc.decode('utf-8'), parse_int=Lit, parse_float=Lit, parse_constant=_bad_const, object_pairs_hook=pairs)

ESC = {0x22: b'\\"', 0x5c: b'\\\\', 0x08: b'\\b', 0x09: b'\\t', 0x0a: b'\\n', 0x0c: b'\\f', 0x0d: b'\\r'}

def py_ser_str(b):
    out = bytearray(b'"')
    for c in b:
        if c in ESC:
            out += ESC[c]
        elif c < 0x20:
            out += b'\\u%04x' % c
        else:
            out.append(c)
    out += b'"'
    return bytes(out)

def py_ser(t):
    if t is None:
        return b'null'
    if t is True:
        return b'true'
    if t is False:
        return b'false'
    if isinstance(t, Lit):
        return t.s.encode()
    if isinstance(t, str):
        return py_ser_str(t.encode('utf-8', 'surrogatepass'))
    if isinstance(t, list):
        return b'[' + b','.join(py_ser(x) for x in t) + b']'
    return b'{' + b','.join(py_ser_str(k) + b':' + py_ser(x) for k, x in t[1]) + b'}'

def py_show(t):
    if t is None:
        return 'n'
    if t is True:
        return 't'
    if t is False:
        return 'f'
    if isinstance(t, Lit):
        return 'l' + hx(t.s.encode())
    if isinstance(t, str):
        return 's' + hx(t.encode('utf-8', 'surrogatepass'))
    if isinstance(t, list):
        return 'a(' + ','.join(py_show(x) for x in t) + ')'
    return 'o(' + ','.join(hx(k) + ':' + py_show(x) for k, x in t[1]) + ')'

def strip_ws(doc):
    """remove whitespace outside strings"""
    out = bytearray()
    ins = esc = False
    for c in doc:
        if ins:
            out.append(c)
            if esc:
                esc = False
            elif c == 0x5c:
                esc = True
            elif c == 0x22:
                ins = False
        elif c in b' \t\r\n':
            continue
        else:
            out.append(c)
            if c == 0x22:
                ins = True
    return bytes(out)

def judge_docs(ctx, cfg, docs, aux=None, canonical=False):
    """documents: parse as Value (show: every number must be the literal), then to_string; model and oracle"""
    L = ctx.letters(cfg)
    v = []
    io, mo = ctx.both(cfg, ['pv %s b %s' % (L, hx(d)) for d in docs])
    ro, rm = ctx.both(cfg, ['rs ' + hx(d) for d in docs], impl_name=IMPL, model_name=MODEL)
    for d, a, m, ra, rmo in zip(docs, io, mo, ro, rm):
        if a == 'PANIC' or a.startswith('CRASH') or ra == 'PANIC' or ra.startswith('CRASH'):
            v.append(viol('doc-panic', cfg, d, m, a + ' / ' + ra))
            continue
        if a != m:
            v.append(viol('doc-value-model-mismatch', cfg, d, 'proved model (every number literal verbatim): ' + m, a))
            continue
        if ra != rmo:
            v.append(viol('reserialise-model-mismatch', cfg, d, 'model: ' + rmo, ra))
            continue
        if not a.startswith('ok'):
            if ra.startswith('ok'):
                v.append(viol('reserialise-inconsistent', cfg, d, a, ra))
            continue
        try:
            t = py_parse(d)
        except (ValueError, RecursionError):
            ctx.count('docs:accepted but outside the Python oracle (skipped)')
            continue
        if a != 'ok ' + py_show(t):
            v.append(viol('doc-number-not-verbatim', cfg, d, 'independent tokenizer, number literals as written: ok ' + py_show(t), a))
        elif ra != 'ok ' + hx(py_ser(t)):
            v.append(viol('reserialise-changes-text', cfg, d, 'independent serializer, number literals as written: ' + py_ser(t).decode('utf-8', 'replace'),
                          bytes.fromhex(ra[3:]).decode('utf-8', 'replace') if ra.startswith('ok ') and ra != 'ok -' else ra))
        elif canonical and ra != 'ok ' + hx(strip_ws(d)):
            v.append(viol('reserialise-not-identity-modulo-whitespace', cfg, d, 'the input with whitespace outside strings removed', ra))
        elif not ctx.quiet:
            ctx.distinct_nontrivial += 1
    return v

# ------------------------------------------------------------------ typed targets across builds
def judge_typed(ctx, cfg, lits, aux=None):
    base = NOFEATURE[cfg]
    v = []
    lines = ['tn %s %s' % (t, hx(d)) for d in lits for t in TYPES]
    meta = [(t, d) for d in lits for t in TYPES]
    a_out = ctx.impl(cfg, lines, name=IMPL)
    b_out = ctx.impl(base, lines, name=IMPL)
    for (t, d), a, b in zip(meta, a_out, b_out):
        if a != b:
            v.append(viol('typed-differs-with-feature', cfg, d, 'build %s (feature off): %s' % (base, b), a, target=t, aux={'type': t}))
        elif a.startswith('ok') and not ctx.quiet:
            ctx.count('typed:ok')
    # via Value (from_value): observed, recorded, not judged (the Value itself is different by design: string-backed)
    lines = ['tv %s %s' % (t, hx(d)) for d in lits for t in TYPES]
    a_out = ctx.impl(cfg, lines, name=IMPL)
    b_out = ctx.impl(base, lines, name=IMPL)
    for (t, d), a, b in zip(meta, a_out, b_out):
        if a != b and not ctx.quiet:
            key = 'from_value::<%s> differs from build %s: %s -> %s' % (t, base, b.split(' ')[0], a.split(' ')[0])
            if ctx.hist[key] == 0:
                ctx.sample({'observation': key, 'literal': d.decode('ascii', 'replace')[:80], 'with_feature': a, 'without': b})
            ctx.count(key)
    return v

# ------------------------------------------------------------------ literal families
def rand_digits(rng, n, first_nonzero=False):
    s = ''.join(rng.choice('0123456789') for _ in range(n))
    if first_nonzero and s[0] == '0':
        s = rng.choice('123456789') + s[1:]
    return s

def rand_literal(rng, big=False):
    lens = [1, 1, 2, 3, 5, 8, 15, 16, 17, 19, 20, 21, 39, 40] + ([100, 200, 309, 400, 500, 1000] if big else [])
    n = rng.choice(lens)
    ip = '0' if rng.random() < 0.15 else rand_digits(rng, n, True)
    s = ('-' if rng.random() < 0.4 else '') + ip
    r = rng.random()
    if r < 0.55:
        fp = rand_digits(rng, rng.choice(lens))
        if rng.random() < 0.3:
            fp += '0' * rng.randrange(1, 6)                       # trailing zeros
        if rng.random() < 0.2:
            fp = '0' * rng.randrange(1, 30) + fp
        s += '.' + fp
    if rng.random() < (0.5 if r < 0.55 else 0.75):
        el = rng.choice([1, 1, 2, 2, 3, 3, 4, 5, 10, 20] + ([100, 400, 1000] if big else []))
        ed = rand_digits(rng, el)
        if rng.random() < 0.2:
            ed = '0' * rng.randrange(1, 4) + ed
        s += rng.choice('eE') + rng.choice(['', '+', '-', '-']) + ed
    return s.encode()

SPECIAL = [b'0', b'-0', b'-0.0', b'0.0', b'0e0', b'0E0', b'-0e0', b'-0e-0', b'0.0e+00', b'1E+05', b'1e+05', b'1e05', b'1e5', b'1E5', b'1.0', b'1.00', b'1.000000000000000000000',
           b'10', b'100e-2', b'1.0e0', b'1e-0', b'1e+0', b'0.1', b'0.10', b'0.1e1', b'123.456e-7', b'1e400', b'-1e400', b'1e-400', b'-1e-400', b'1e308', b'1.7976931348623157e308',
           b'1.7976931348623158e308', b'1.797693134862315807e308', b'1.797693134862315808e308', b'1.8e308', b'2.2250738585072014e-308', b'2.2250738585072011e-308', b'5e-324', b'4.9e-324', b'2.4703282292062327e-324',
           b'2.4703282292062328e-324', b'2.47032822920623272e-324', b'2.47032822920623273e-324', b'9007199254740993', b'9007199254740992', b'9007199254740993.0', b'0.30000000000000004',
           b'1e2147483647', b'1e2147483648', b'1e-2147483649', b'0e99999999999999999999', b'1e99999999999999999999', b'1e-99999999999999999999', b'8.98846567431158e307',
           b'123456789012345678901234567890', b'-123456789012345678901234567890', b'0.000000000000000000000000000001', b'1' + b'0' * 400, b'1' + b'0' * 400 + b'e-400', b'0.' + b'0' * 400 + b'1e401',
           b'9' * 1000, b'-' + b'9' * 1000, b'1.' + b'3' * 1000, b'1e' + b'7' * 1000, b'1e-' + b'7' * 1000, b'0e-' + b'0' * 999 + b'1', b'9' * 500 + b'.' + b'9' * 500 + b'E+' + b'9' * 100]

def literal_families(ctx):
    rng = ctx.rng
    out = list(SPECIAL)
    ctx.count('family:special spellings', len(SPECIAL))
    n0 = len(out)
    for k in range(0, 129):                                      # around every power of two up to 2^128
        for dlt in (-2, -1, 0, 1, 2):
            n = 2**k + dlt
            if n >= 0:
                out.append(str(n).encode())
                out.append(('-' + str(n)).encode())
    for k in range(0, 41):                                       # around powers of ten
        for dlt in (-1, 0, 1):
            n = 10**k + dlt
            out.append(str(n).encode())
            out.append(('-' + str(n)).encode())
    ctx.count('family:integers around 2^k (k<=128) and 10^k', len(out) - n0)
    n0 = len(out)
    for n in (2**63, 2**64, 2**127, 2**128, 2**31, 2**53):        # integer spelled as float
        for sfx in ('.0', 'e0', 'E+0', '.000', 'e-0'):
            out.append((str(n) + sfx).encode())
            out.append(('-' + str(n - 1) + sfx).encode())
    ctx.count('family:integers spelled as floats', len(out) - n0)
    n0 = len(out)
    nrand = 6000 if ctx.tier == 'quick' else 60000
    for i in range(nrand):
        out.append(rand_literal(rng, big=(i % 12 == 0)))
    ctx.count('family:random literals (1-40 digit parts; every 12th with 100-1000 digit parts)', nrand)
    n0 = len(out)
    nf = 3000 if ctx.tier == 'quick' else 30000
    for i in range(nf):                                          # C07 family: shortest / 17-digit representations of doubles across all exponents
        bits = (rng.randrange(0, 2047) << 52) | rng.getrandbits(52)
        x = struct.unpack('<d', struct.pack('<Q', bits))[0]
        s = repr(x) if i % 2 else '%.17g' % x
        if 'e' not in s and '.' not in s:
            s += '.0'
        out.append(s.replace('e+', rng.choice(['e', 'e+', 'E+', 'E'])).encode())
    ctx.count('family:representations of random doubles across all binary exponents', nf)
    n0 = len(out)
    for i in range(300 if ctx.tier == 'quick' else 3000):        # exact midpoints between adjacent doubles (long literals)
        e = rng.randrange(-60, 60)
        m = rng.getrandbits(53) | (1 << 52)
        num = 2 * m + 1
        if e >= 1:
            s = str(num * 2**(e - 1))
        else:
            q = num * 5**(1 - e)
            s = str(q).rjust(2 - e, '0')
            s = s[:len(s) - (1 - e)] + '.' + s[len(s) - (1 - e):]
        out.append(s.encode())
    ctx.count('family:exact midpoints between adjacent doubles', len(out) - n0)
    return out

def near_misses(ctx, lits):
    """every string up to length 6 over the number alphabet + single-edit mutations of valid literals"""
    rng = ctx.rng
    out = []
    for k in range(0, 7):
        for c in itertools.product(ALPHABET, repeat=k):
            out.append(b''.join(c))
    ctx.count('near-miss:exhaustive strings of length <=6 over 0 1 9 - + . e E', len(out))
    extra = [b' ', b'x', b'a', b'\n', b'\x00', b',', b'\xd9\xa3', b'_', b'f', b'I', b'N']
    n0 = len(out)
    for d in rng.sample(lits, min(len(lits), 1500 if ctx.tier == 'quick' else 15000)):
        if len(d) > 60:
            continue
        for _ in range(6):
            i = rng.randrange(len(d) + 1)
            c = rng.choice(ALPHABET + extra)
            r = rng.random()
            out.append(d[:i] + c + d[i:] if r < 0.4 else d[:i] + c + d[i + 1:] if r < 0.7 else d[:i] + d[i + 1:])
        out.append(b' ' + d)
        out.append(d + b' ')
        out.append(d + b'\n')
        out.append(b'+' + d)
    ctx.count('near-miss:single edits of valid literals, surrounding whitespace, leading +', len(out) - n0)
    return out

# ---- documents
def canon_string(rng):
    """a JSON string literal in the spelling the serializer itself produces"""
    n = rng.choice([0, 1, 1, 2, 3, 5, 9])
    chars = [rng.choice(['"', '\\', '\n', '\t', '\b', '\f', '\r', '\x01', '\x1f', '\x7f', 'a', 'Z', ' ', '/', 'é', '€', '😀', '0', '-', 'e']) for _ in range(n)]
    return py_ser_str(''.join(chars).encode('utf-8')), ''.join(chars)

def canon_doc(rng, depth, lits):
    """document whose only non-canonical aspect is whitespace: sorted distinct keys, serializer spelling of strings, arbitrary number literals"""
    r = rng.random()
    if depth <= 0 or r < 0.4:
        k = rng.randrange(8)
        if k == 0:
            return rng.choice([b'null', b'true', b'false'])
        if k == 1:
            return canon_string(rng)[0]
        return rng.choice(lits)
    ws = gen.rand_ws
    if r < 0.7:
        n = rng.choice([0, 1, 2, 3, 5])
        if n == 0:
            return b'[' + ws(rng) + b']'
        return b'[' + b','.join(ws(rng) + canon_doc(rng, depth - 1, lits) + ws(rng) for _ in range(n)) + b']'
    n = rng.choice([0, 1, 2, 3, 4])
    keys = {}
    for _ in range(n):
        lit, s = canon_string(rng)
        keys[s.encode('utf-8')] = lit
    if not keys:
        return b'{' + ws(rng) + b'}'
    return b'{' + b','.join(ws(rng) + keys[k] + ws(rng) + b':' + ws(rng) + canon_doc(rng, depth - 1, lits) + ws(rng) for k in sorted(keys)) + b'}'

def nested_docs(ctx, lits):
    rng = ctx.rng
    small = [d for d in lits if len(d) <= 80]
    canon, free = [], []
    n = 4000 if ctx.tier == 'quick' else 40000
    for _ in range(n):
        canon.append(gen.rand_ws(rng) + canon_doc(rng, rng.choice([1, 2, 3, 4]), small) + gen.rand_ws(rng))
    for d in lits:                                               # every literal standing alone and inside containers
        free.append(d)
        if len(d) <= 1100:
            canon.append(b' [' + d + b' ,\n' + d + b'] ')
            canon.append(b'{"k" : ' + d + b'\t}')
    for _ in range(n):                                           # gen.rand_doc: arbitrary escape spellings, duplicate keys
        free.append(gen.rand_top(rng, depth=rng.choice([1, 2, 3, 4])))
    ctx.count('docs:canonical spelling (identity modulo whitespace expected)', len(canon))
    ctx.count('docs:literals standing alone + gen.rand_doc documents', len(free))
    return canon, free

# ------------------------------------------------------------------ run
def judge_c20(ctx, cfg, inputs, aux=None):
    """single-input judge for shrinking / replay: a candidate string for Number::from_str and as a document"""
    if aux and 'type' in aux:
        return [x for x in judge_typed(ctx, cfg, inputs) if x.get('target') == aux['type']]
    return judge_nf(ctx, cfg, inputs) + judge_docs(ctx, cfg, inputs)

MODEL_TARGETS = ['theories/Extract/Extract_apnum.vo']
MODEL_SOURCES = ['theories/Model/NumberM.v', 'theories/Extract/Driver_apnum.v', 'theories/Extract/Extract_apnum.v', 'theories/Model/Num.v', 'theories/Model/De.v',
                 'theories/Gen/Tables.v']

def ensure_model(ctx):
    """the model driver of this property (ocaml/sjdriver_apnum) is extracted from Extract/Extract_apnum.v; (re)build it when it is
    missing or older than its sources (run_check builds only Extract.vo and Properties/C20.vo)"""
    import os
    exe = os.path.join(engine.VERIF, 'ocaml', MODEL)
    srcs = [os.path.join(engine.COQ, f) for f in MODEL_SOURCES] + [os.path.join(engine.VERIF, 'ocaml', 'driver_apnum.ml')]
    stale = not os.path.exists(exe) or any(os.path.exists(f) and os.path.getmtime(f) > os.path.getmtime(exe) for f in srcs)
    if stale and ctx.model_ok:
        ok, out = engine.build_model(MODEL_TARGETS)
        if not ok or not os.path.exists(exe):
            log('C20: building %s failed: %s' % (MODEL, out[-1500:]))
            ctx.violations.append({'what': 'model-driver-build-failed', 'cfg': ctx.cfgs[0], 'expected': 'ocaml/%s builds from Extract/Extract_apnum.v' % MODEL,
                                   'actual': out[-600:], 'shrinkable': False})

def run_c20(ctx):
    ctx.rule = ('number literals: special spellings (-0, -0.0, 0e0, 1E+05, trailing zeros, exponents beyond i32, 1000-digit mantissas/exponents), integers around every 2^k (k<=128) and 10^k, '
                'random literals with 1-40 (every 12th: 100-1000) digit integer/fraction/exponent parts, shortest and 17-digit representations of doubles across all binary exponents, exact '
                'midpoints between doubles; near-misses: EVERY string of length <=6 over {0,1,9,-,+,.,e,E} and single edits of valid literals; each as Number::from_str candidate (op nf: verbatim '
                'text + as_u64/as_i64/as_u128/as_i128/as_f64/is_*), as accessor subject through from_string_unchecked (op na, ties the assumed std parse behaviour), through Display/Debug/to_string/'
                'to_value/from_value (op nd), standing alone and nested in documents (ops pv, rs: canonical-spelling documents must re-serialise to the input minus whitespace; arbitrary documents '
                'compared with an independent tokenizer/serializer), and as typed targets i8..u128,f32,f64 compared line by line with the build without the feature; implementation == extracted '
                'Coq model == independent oracle; non-trivial = accepted literals / accepted documents')
    ensure_model(ctx)
    need = sorted(set(NOFEATURE[c] for c in ctx.cfgs))
    res = engine.build_harness(need)
    for c, (ok, out) in res.items():
        if not ok:
            ctx.violations.append({'what': 'harness-build-failed', 'cfg': c, 'expected': 'builds', 'actual': out[-600:], 'shrinkable': False})
            return
    lits = literal_families(ctx)
    lits = list(dict.fromkeys(lits))
    miss = near_misses(ctx, lits)
    canon, free = nested_docs(ctx, lits)
    short = [d for d in lits if len(d) <= 45]
    typed_in = short[::(3 if ctx.tier == 'quick' else 1)] + [d for d in miss if len(d) <= 4] + [b' ' + d + b' ' for d in short[::50]]
    for cfg in ctx.cfgs:
        # (the literal families are run apart from the near-misses: the model's exact as_f64 oracle costs ~2 ms per literal,
        #  and the engine shards contiguous slices)
        ctx.violations += judge_nf(ctx, cfg, lits)
        for batch in chunks(miss, 200000):
            ctx.violations += judge_nf(ctx, cfg, batch)
        ctx.violations += judge_na(ctx, cfg, lits[::2])
        ctx.violations += judge_na(ctx, cfg, miss[::3])
        ctx.violations += judge_nd(ctx, cfg, lits)
        for batch in chunks(canon, 100000):
            ctx.violations += judge_docs(ctx, cfg, batch, canonical=True)
        for batch in chunks(free + miss, 200000):
            ctx.violations += judge_docs(ctx, cfg, batch)
        for batch in chunks(typed_in, 20000):
            ctx.violations += judge_typed(ctx, cfg, batch)
        ctx.count('typed:literals x 12 targets compared across builds', len(typed_in))
        from checks import ntarget
        ctx.violations += ntarget.judge_number_target(ctx, cfg, 1500 if ctx.tier == 'quick' else 8000)
        # typed targets reading non-canonical spellings out of a Value (owned and by reference) must agree with the text route, as without the feature
        from checks import fv
        ctx.violations += fv.judge_cases(ctx, cfg, fv.ap_spelling_cases())
    for d in (lits[3], lits[len(lits) // 2], miss[1000], canon[0], free[-1]):
        ctx.sample({'input': d.decode('utf-8', 'replace')[:200], 'input_hex': hx(d)[:400]})

AP_TB = ['ASSUMED (modelled, not verified; tied by op `na` on arbitrary texts): std str::parse::<u64/i64/u128/i128> (optional sign, ASCII digits, range) and str::parse::<f64> (correct rounding, any length)',
         'itoa for u64/i64 prints the minimal decimal digits (model: itoa); ryu is never reached for parsed numbers (proved: parse_any_number yields no F64 in this build)',
         'String push/parse and the serde struct-token plumbing (NumberDeserializer, NumberKey, NumberFromString, Compound::Number, NumberStrEmitter, NumberValueEmitter) are abstracted to: the text is handed over unchanged and '
         're-validated with Number::from_str where the code does so; tied by ops nd / rs',
         'oracle side: CPython float() (correctly rounded), json tokenizer, big ints']

register('C20', cfgs={'quick': ['ap'], 'thorough': ['ap', 'frap']}, run=run_c20, judge=judge_c20, extended=run_c20, trusted_base=AP_TB,
         model_targets=MODEL_TARGETS)
