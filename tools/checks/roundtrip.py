"""C04 — serialise then deserialise is the identity.
Values: evaluated directly on the implementation: v := from_slice(doc); out := to_vec(v) / to_vec_pretty(v) (harness sjh_ser `sv`, which also
checks that to_string/to_vec/to_writer and Display agree); from_slice(out) (harness) and from_slice/from_reader(out) (sjh `pv`) must be v.
Typed data: the universal-seed round trip of the typed development (checks.typed.run_c04_typed) when integrated.
The theorem side is Properties/C04.v (from the serializer + parser developments)."""
import re, itertools
import engine, gen
from gen import hx
from checks import register, log
from checks import parser as P

NUMTOK = re.compile(rb'-?(?:0|[1-9][0-9]*)(\.[0-9]+)?([eE][-+]?[0-9]+)?')

def floats_short(out):
    """outside float_roundtrip the claim covers data whose f64 values print as short literals: <= 15 significant digits, decimal exponent within +-22"""
    # strip strings first
    s = re.sub(rb'"(?:[^"\\]|\\.)*"', b'""', out)
    for m in NUMTOK.finditer(s):
        t = m.group(0)
        if not m.group(1) and not m.group(2):
            continue
        mant = re.sub(rb'[eE].*$', b'', t).lstrip(b'-')
        ip, _, fp = mant.partition(b'.')
        digs = (ip + fp).lstrip(b'0')
        e = int(m.group(2)[1:]) if m.group(2) else 0
        net = e - len(fp)
        # digits are counted as C08 counts them: after dropping LEADING zeros only (trailing zeros are digits the parser accumulates)
        if len(digs) > 15 or not (-22 <= net <= 22):
            return False
    return True

def judge_c04_values(ctx, cfg, docs, aux=None):
    from checks import ser
    L = ctx.letters(cfg)
    fr = 'f' in L
    ap = 'a' in L
    base = ctx.impl(cfg, ['pv %s b %s' % (L, hx(d)) for d in docs])
    good = [(d, b) for d, b in zip(docs, base) if b.startswith('ok ')]
    ctx.quiet = True
    fj = ctx.impl(cfg, ['fj ' + hx(d) for d, _ in good], ser.IMPL)
    ctx.quiet = False
    lines, meta = [], []
    for (d, b), f in zip(good, fj):
        if not f.startswith('ok '):
            continue
        for fmt in ('c', 'p2020', 'p09'):
            lines.append('sv %s %s %s %s' % (L, fmt, f[3:], hx(d)))
            meta.append((d, b, fmt))
    outs = ctx.impl(cfg, lines, ser.IMPL)
    v = []
    again, ameta = [], []
    for (d, b, fmt), a in zip(meta, outs):
        head, ex = ser.split_ans(a)
        if not head.startswith('ok '):
            v.append({'what': 'value-not-serialisable', 'cfg': cfg, 'input': hx(d), 'expected': 'ok', 'actual': a[:300], 'fmt': fmt})
            continue
        out = bytes.fromhex(head.split(' ')[1])
        if not (fr or ap) and not floats_short(out):
            ctx.count('skipped: long float literal outside float_roundtrip')
            continue
        want = b[3:]
        if ex.get('p') != want:
            v.append({'what': 'roundtrip-value', 'cfg': cfg, 'input': hx(d), 'fmt': fmt, 'expected': 'from_slice(to_vec(v)) = v = ' + want, 'actual': 'text %s parsed back as %s' % (hx(out), ex.get('p'))})
        else:
            if not ctx.quiet:
                ctx.distinct_nontrivial += 1
            again.append(out)
            ameta.append((d, want, fmt))
    # the other reader pairs: from_reader and from_str on the emitted text
    for src in ('r1', 's'):
        res = ctx.impl(cfg, ['pv %s %s %s' % (L, src, hx(o)) for o in again])
        for (d, want, fmt), o, r in zip(ameta, again, res):
            if r != 'ok ' + want:
                v.append({'what': 'roundtrip-value-' + src, 'cfg': cfg, 'input': hx(d), 'fmt': fmt, 'expected': 'ok ' + want, 'actual': r[:300]})
    return v

def run_c04(ctx):
    ctx.rule = ('Values: generated documents (all kinds, escapes, duplicate keys, integer boundaries, empty and deep containers; floats restricted to short literals outside float_roundtrip) '
                'parsed to a Value, serialised compact and pretty (two indents) through to_string/to_vec/to_writer (all must agree), parsed back from slice, reader and str; the '
                'result must equal the original Value (canonical form, floats by bit pattern, objects in iteration order). Typed data: random typed trees over the schema universe '
                '(bool, ints to 128 bits, f32, char, strings, options, units, newtypes, seqs, tuples, maps with string/int/bool/char keys, structs, four variant kinds) through the '
                'universal Serialize/DeserializeSeed pair, three writer/reader pairs, both formatters; distinct_nontrivial = round trips compared')
    for cfg in ctx.cfgs:
        n = 4000 if ctx.tier == 'quick' else 40000
        docs = list(P.value_docs(ctx, n))
        docs += [gen.nested('[{' * 60, b'1'), gen.nested('[' * 127, b''), b'[]', b'{}', b'[[],{}]', b'""', b'"\\u0000\\u001f\\u007f\\u2028\\ud83d\\ude00"']
        P.note_dist(ctx, docs)
        for batch in P.chunks(docs, 20000):
            ctx.violations += judge_c04_values(ctx, cfg, batch)
        for d in docs[:4]:
            ctx.sample({'kind': 'Value', 'cfg': cfg, 'doc_hex': hx(d)})
    for cfg in ctx.cfgs:
        ctx.violations += P.judge_typed_budget(ctx, cfg)      # long flat collections of every container/variant kind read back
        # data read back item by item from one Deserializer (a stream of serialised values, some rejected by a lenient reader): what is read back must not
        # depend on the types requested before
        ctx.violations += P.judge_state_isolation(ctx, cfg, 800 if ctx.tier == 'quick' else 8000)
    try:
        from checks import typed as T
        if hasattr(T, 'run_c04_typed'):
            T.run_c04_typed(ctx)
    except ImportError:
        ctx.count('typed round trip: typed development not integrated yet')

register('C04', cfgs={'quick': ['def', 'fr'], 'thorough': ['def', 'fr', 'po', 'ap', 'raw']}, run=run_c04, judge=judge_c04_values, extended=run_c04,
         trusted_base=['ryu (float printing) and itoa are external crates; the round trip of floats is CHECKED on every float met (and on all 2^32 f32 patterns by the C07 check), not proved',
                       'the relation is evaluated on the implementation itself (no model needed to decide it); the theorems are about the model'])
