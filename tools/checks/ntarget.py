"""`serde_json::Number` as a deserialization target (number.rs impl Deserialize for Number, NumberVisitor; Model/NumberTarget.v), text route (str / slice / readers) and
Value route (from_value / Number::deserialize(&v)); implementation sjh_ntarget vs extracted model sjdriver_ntarget.  Used as a family by C16 and C20."""
import random
import engine
import ntarget_gen as G
from gen import hx

def judge_number_target(ctx, cfg, n_random):
    rng = random.Random(ctx.rng.random())
    L = ctx.letters(cfg)
    ap = 'a' in L
    seen, docs = set(), []
    for fam, d in G.gen_docs(rng, n_random):
        if d not in seen:
            seen.add(d)
            docs.append((fam, d))
    ftabs = ctx.impl(cfg, ['nvf ' + hx(d) for _, d in docs], name='sjh_ntarget') if ap else ['-'] * len(docs)
    cases = []
    for i, (fam, d) in enumerate(docs):
        h = hx(d)
        srcs = ['b', 'r1'] + (['s'] if G.is_utf8(d) else []) + (['r3'] if i % 3 == 0 else []) + (['rx%d' % (i % 7)] if i % 5 == 0 else [])
        for src in srcs:
            cases.append((fam, d, 'nt %s %s %s' % (L, src, h)))
        cases.append((fam, d, 'nv %s %s %s' % (L, h, ftabs[i])))
    lines = [c[2] for c in cases]
    io, mo = ctx.both(cfg, lines, impl_name='sjh_ntarget', model_name='sjdriver_ntarget')
    v = []
    for (fam, d, line), a, m in zip(cases, io, mo):
        ctx.count('number-target:' + fam)
        if a == 'SKIP':
            continue
        if a == m:
            if a.startswith('ok'):
                ctx.distinct_nontrivial += 1
            continue
        if line.startswith('nv ') and ap and G.TOKEN in d:
            continue        # the VALUE handed to the Value route already differs: Model/De.v reads the private token as an ordinary key (known finding F23)
        v.append({'what': 'number-target-differs-from-model', 'cfg': cfg, 'op': line.split(' ')[0], 'src': line.split(' ')[2] if line.startswith('nt') else 'value',
                  'input': hx(d), 'expected': 'proved model (Model/NumberTarget.v): ' + m[:300], 'actual': a[:300], 'shrinkable': False})
    return v
