"""Serialiser properties: C03 (text serialiser), C15 (to_value agrees with it), writer half of C13 (run_c13_writer).

The implementation is driven by `sjh_ser` (universal `Serialize` impl walking a call tree), the proved model by
`sjdriver_ser` (extracted from Model/Ser.v, Model/ValueSer.v).  Float texts come from the real ryu (op `ft` / `fj`) and are
handed to the model as data.  Besides model-vs-implementation equality (bytes AND write_all buffer boundaries), the
implementation's own outputs are checked directly against independent Python renderings of the specification:
data-model image, compact = no whitespace, pretty = layout of the same tokens, hints irrelevant, entry points agree."""
import os, re, struct, itertools
import engine, gen
from gen import hx
from checks import register, log

IMPL = 'sjh_ser'
MODEL = 'sjdriver_ser'

# ------------------------------------------------------------------ call trees
INT_T = {'i8': ('a', -2**7, 2**7 - 1), 'i16': ('b', -2**15, 2**15 - 1), 'i32': ('c', -2**31, 2**31 - 1),
         'i64': ('d', -2**63, 2**63 - 1), 'i128': ('e', -2**127, 2**127 - 1),
         'u8': ('f', 0, 2**8 - 1), 'u16': ('g', 0, 2**16 - 1), 'u32': ('h', 0, 2**32 - 1),
         'u64': ('i', 0, 2**64 - 1), 'u128': ('j', 0, 2**128 - 1)}

def hs(b):
    return (b.hex() if b else '-') + ';'

def enc(v):
    t = v[0]
    if t == 'bool': return 'T' if v[1] else 'F'
    if t == 'int': return 'I%s%d;' % (INT_T[v[1]][0], v[2])
    if t == 'f32': return 'f%08x' % v[1]
    if t == 'f64': return 'd%016x' % v[1]
    if t == 'char': return 'c%x;' % v[1]
    if t == 'str': return 's' + hs(v[1])
    if t == 'bytes': return 'y' + hs(v[1])
    if t == 'none': return 'N'
    if t == 'some': return 'O' + enc(v[1])
    if t == 'unit': return 'U'
    if t == 'ustruct': return 'u'
    if t == 'uvar': return 'v' + hs(v[1])
    if t == 'nstruct': return 'n' + enc(v[1])
    if t == 'nvar': return 'w' + hs(v[1]) + enc(v[2])
    if t == 'seq': return 'Q%s(%s)' % ('?' if v[1] is None else str(v[1]), ''.join(enc(x) for x in v[2]))
    if t == 'tuple': return 't(%s)' % ''.join(enc(x) for x in v[1])
    if t == 'tstruct': return 'r(%s)' % ''.join(enc(x) for x in v[1])
    if t == 'tvar': return 'V%s(%s)' % (hs(v[1]), ''.join(enc(x) for x in v[2]))
    if t == 'map': return 'M%s(%s)' % ('?' if v[1] is None else str(v[1]), ''.join(enc(k) + enc(x) for k, x in v[2]))
    if t == 'struct': return 'R(%s)' % ''.join(hs(k) + enc(x) for k, x in v[1])
    if t == 'svar': return 'W%s(%s)' % (hs(v[1]), ''.join(hs(k) + enc(x) for k, x in v[2]))
    if t == 'cstr': return 'C(%s)' % ''.join(hs(c) for c in v[1])
    if t == 'numlit': return 'L' + hs(v[1])
    raise ValueError(t)

def children(v):
    t = v[0]
    if t in ('some', 'nstruct'): return [v[1]]
    if t == 'nvar': return [v[2]]
    if t == 'seq': return list(v[2])
    if t in ('tuple', 'tstruct'): return list(v[1])
    if t == 'tvar': return list(v[2])
    if t == 'map': return [x for kv in v[2] for x in kv]
    if t == 'struct': return [x for _, x in v[1]]
    if t == 'svar': return [x for _, x in v[2]]
    return []

def walk(v):
    yield v
    for c in children(v):
        for x in walk(c):
            yield x

def floats_of(v):
    s = set()
    for x in walk(v):
        if x[0] == 'f32': s.add('f%08x' % x[1])
        elif x[0] == 'f64': s.add('d%016x' % x[1])
    return s

def map_tree(f, v):
    """rebuild v bottom-up applying f to every node"""
    t = v[0]
    if t in ('some', 'nstruct'): w = (t, map_tree(f, v[1]))
    elif t == 'nvar': w = (t, v[1], map_tree(f, v[2]))
    elif t == 'seq': w = (t, v[1], [map_tree(f, x) for x in v[2]])
    elif t in ('tuple', 'tstruct'): w = (t, [map_tree(f, x) for x in v[1]])
    elif t == 'tvar': w = (t, v[1], [map_tree(f, x) for x in v[2]])
    elif t == 'map': w = (t, v[1], [(map_tree(f, k), map_tree(f, x)) for k, x in v[2]])
    elif t == 'struct': w = (t, [(k, map_tree(f, x)) for k, x in v[1]])
    elif t == 'svar': w = (t, v[1], [(k, map_tree(f, x)) for k, x in v[2]])
    else: w = v
    return f(w)

def flip_hints(v):
    def f(w):
        if w[0] in ('seq', 'map'):
            return (w[0], len(w[2]) if w[1] is None else None, w[2])
        return w
    return map_tree(f, v)

def has_hints(v):
    return any(x[0] in ('seq', 'map') for x in walk(v))

# ------------------------------------------------------------------ generators
F64_SPECIAL = [0x0000000000000000, 0x8000000000000000, 0x7ff0000000000000, 0xfff0000000000000, 0x7ff8000000000000,
               0x7ff0000000000001, 0xfff8000000000001, 0x0000000000000001, 0x000fffffffffffff, 0x0010000000000000,
               0x7fefffffffffffff, 0xffefffffffffffff, 0x3ff0000000000000, 0xbff0000000000000, 0x3fb999999999999a,
               0x4341c37937e08000, 0x4340000000000000, 0x3e7ad7f29abcaf48, 0x444b1ae4d6e2ef50, 0x43e158e460913d00,
               0x4330000000000000, 0x433fffffffffffff, 0x3f50624dd2f1a9fc, 0x3ee4f8b588e368f1, 0x3eb0c6f7a0b5ed8d,
               0x4024000000000000, 0x408f400000000000, 0x3ff8000000000000, 0x7e37e43c8800759c, 0x01a56e1fc2f8f359]
F32_SPECIAL = [0x00000000, 0x80000000, 0x7f800000, 0xff800000, 0x7fc00000, 0x7f800001, 0x00000001, 0x007fffff, 0x00800000,
               0x7f7fffff, 0xff7fffff, 0x3f800000, 0xbf800000, 0x3dcccccd, 0x5a0e1bca, 0x33d6bf95, 0x4b800000, 0x4cbebc20,
               0x3a83126f, 0x38d1b717, 0x41200000, 0x3fc00000, 0x7e967699, 0x0da24260]

def f64_bits(x):
    return struct.unpack('<Q', struct.pack('<d', x))[0]

def bits_f64(b):
    return struct.unpack('<d', struct.pack('<Q', b))[0]

def f32_bits(x):
    return struct.unpack('<I', struct.pack('<f', x))[0]

def bits_f32(b):
    return struct.unpack('<f', struct.pack('<I', b))[0]

def rand_f64(rng, short):
    r = rng.random()
    if short:
        if r < 0.2:
            return rng.choice([b for b in F64_SPECIAL[:6]] + [0x3ff0000000000000, 0x3fb999999999999a, 0x4024000000000000])
        m = rng.randrange(0, 10 ** rng.choice([1, 2, 3, 6, 10, 15]))
        e = rng.randrange(-22, 23 - len(str(m)))
        x = float('%de%d' % (m, e))
        if rng.random() < 0.3:
            x = -x
        return f64_bits(x)
    if r < 0.3:
        return rng.choice(F64_SPECIAL)
    if r < 0.6:
        return rng.getrandbits(64)
    if r < 0.8:
        return f64_bits(float('%de%d' % (rng.randrange(0, 10 ** rng.choice([1, 3, 8, 17])), rng.randrange(-330, 310))) if True else 0)
    return f64_bits(rng.choice([1.0, -1.0]) * rng.randrange(0, 2 ** 60) / rng.choice([1, 2, 8, 10, 1000, 3]))

def rand_f32(rng):
    r = rng.random()
    if r < 0.35:
        return rng.choice(F32_SPECIAL)
    if r < 0.7:
        return rng.getrandbits(32)
    try:
        return f32_bits(float('%de%d' % (rng.randrange(0, 10 ** rng.choice([1, 3, 7])), rng.randrange(-40, 38))) * rng.choice([1.0, -1.0]))
    except OverflowError:
        return 0x7f7fffff

def rand_int(rng, ty=None):
    ty = ty or rng.choice(list(INT_T))
    _, lo, hi = INT_T[ty]
    r = rng.random()
    if r < 0.45:
        z = rng.choice([lo, lo + 1, hi, hi - 1, 0, 1, -1, 9, 10, 99, 100, -10, -9, 2**63 - 1, 2**63, 2**64 - 1, 2**64, -2**63, -2**63 - 1,
                        10**19, 10**38, -10**38, 2**53, 2**53 + 1])
    elif r < 0.7:
        z = rng.randrange(lo, hi + 1)
    else:
        z = rng.choice([1, -1]) * rng.randrange(0, 10 ** rng.randrange(1, 40))
    z = max(lo, min(hi, z))
    return ('int', ty, z)

STR_PIECES = ['"', '\\', '/', '\b', '\f', '\n', '\r', '\t', '\x00', '\x01', '\x0b', '\x0e', '\x1f', '\x7f', ' ', 'a', 'Z', '0', 'é', 'ß', '€', '߿',
              'ࠀ', '퟿', '', '￿', '\U00010000', '😀', '\U0010ffff', 'abc', 'key', ' ', '\x1e\x1f ', '""', '\\n', '\\u0000']

def rand_str(rng, maxn=8):
    n = rng.choice([0, 0, 1, 1, 2, 3, 5, maxn])
    return ''.join(rng.choice(STR_PIECES) for _ in range(n)).encode('utf-8')

NAMES = [b'A', b'B', b'Var', b'', b'a"b', b'k\n', 'é'.encode(), b'x', b'y', b'type', b'a', b'b', b'c']

def rand_name(rng):
    return rng.choice(NAMES) if rng.random() < 0.85 else rand_str(rng, 3)

CHARS = [0x22, 0x5c, 0x2f, 0x0, 0x8, 0x9, 0xa, 0xc, 0xd, 0x1f, 0x20, 0x7f, 0x80, 0xe9, 0x7ff, 0x800, 0x20ac, 0xd7ff, 0xe000, 0xffff, 0x10000, 0x1f600, 0x10ffff, 0x61]

class Opts:
    def __init__(self, short_floats=False, bad_keys=False, numlit=False, floats=True):
        self.short_floats, self.bad_keys, self.numlit, self.floats = short_floats, bad_keys, numlit, floats

def rand_scalar(rng, o):
    k = rng.randrange(14)
    if k == 0: return ('bool', rng.random() < 0.5)
    if k in (1, 2, 3): return rand_int(rng)
    if k == 4 and o.floats: return ('f32', rand_f32(rng))
    if k in (5, 6) and o.floats: return ('f64', rand_f64(rng, o.short_floats))
    if k == 7: return ('char', rng.choice(CHARS) if rng.random() < 0.8 else rng.choice([rng.randrange(0, 0xd800), rng.randrange(0xe000, 0x110000)]))
    if k in (8, 9): return ('str', rand_str(rng))
    if k == 10: return ('bytes', bytes(rng.randrange(256) for _ in range(rng.choice([0, 0, 1, 2, 5]))))
    if k == 11: return rng.choice([('none',), ('unit',), ('ustruct',)])
    if k == 12: return ('uvar', rand_name(rng))
    if k == 13:
        if o.numlit and rng.random() < 0.5:
            return ('numlit', rng.choice([b'0', b'-0', b'1', b'-12', b'1.5', b'1e5', b'-0.0', b'123456789012345678901234567890', b'1E+2', b'0.10', b'18446744073709551616']))
        return ('cstr', [rand_str(rng, 4) for _ in range(rng.choice([0, 1, 1, 2, 3]))])
    return ('unit',)

def rand_key(rng, o, depth):
    r = rng.random()
    if r < 0.55 or (not o.bad_keys and r < 0.6):
        return ('str', rng.choice(NAMES) if rng.random() < 0.7 else rand_str(rng, 4))
    # scalar keys that are quoted
    k = rng.randrange(12)
    if k == 0: return ('bool', rng.random() < 0.5)
    if k in (1, 2): return rand_int(rng)
    if k == 3 and o.floats:
        b = rand_f32(rng)
        if not o.bad_keys and (b >> 23) & 0xff == 0xff: b = 0x3fc00000
        return ('f32', b)
    if k == 4 and o.floats:
        b = rand_f64(rng, o.short_floats)
        if not o.bad_keys and (b >> 52) & 0x7ff == 0x7ff: b = 0x3ff8000000000000
        return ('f64', b)
    if k == 5: return ('char', rng.choice(CHARS))
    if k == 6: return ('uvar', rand_name(rng))
    if k == 7: return ('cstr', [rand_str(rng, 3) for _ in range(rng.choice([0, 1, 2]))])
    if k == 8 and depth > 0: return ('some', rand_key(rng, o, depth - 1))
    if k == 9 and depth > 0: return ('nstruct', rand_key(rng, o, depth - 1))
    if o.bad_keys and rng.random() < 0.6:
        # rejected kinds
        return rng.choice([('bytes', b'ab'), ('unit',), ('ustruct',), ('none',), ('nvar', b'V', ('str', b'k')), ('seq', None, []), ('seq', 0, []),
                           ('tuple', [('str', b'k')]), ('tstruct', []), ('tvar', b'V', []), ('map', None, []), ('struct', []), ('svar', b'V', []),
                           ('f64', 0x7ff0000000000000), ('f32', 0x7fc00000), ('f64', 0xfff8000000000000), ('some', ('none',)),
                           ('nstruct', ('some', ('unit',)))] + ([('numlit', b'1')] if o.numlit else []))
    return ('str', rand_str(rng, 4))

def rand_sval(rng, depth, o):
    r = rng.random()
    if depth <= 0 or r < 0.3:
        return rand_scalar(rng, o)
    n = rng.choice([0, 0, 1, 1, 2, 3, 4])
    sub = lambda: rand_sval(rng, depth - 1, o)
    k = rng.randrange(13)
    if k == 0: return ('some', sub())
    if k == 1: return ('nstruct', sub())
    if k == 2: return ('nvar', rand_name(rng), sub())
    if k in (3, 4):
        es = [sub() for _ in range(n)]
        return ('seq', rng.choice([None, len(es)]), es)
    if k == 5: return ('tuple', [sub() for _ in range(n)])
    if k == 6: return ('tstruct', [sub() for _ in range(n)])
    if k == 7: return ('tvar', rand_name(rng), [sub() for _ in range(n)])
    if k in (8, 9):
        kvs = [(rand_key(rng, o, 2), sub()) for _ in range(n)]
        return ('map', rng.choice([None, len(kvs)]), kvs)
    if k == 10: return ('struct', [(rand_name(rng), sub()) for _ in range(n)])
    if k == 11: return ('svar', rand_name(rng), [(rand_name(rng), sub()) for _ in range(n)])
    return rand_scalar(rng, o)

def fixed_svals(o):
    """hand-picked shapes: nested empty containers, Some(0) hints, variants inside maps, every key kind"""
    e = []
    for h in (None, 0):
        e.append(('seq', h, []))
        e.append(('map', h, []))
        e.append(('seq', None, [('seq', h, []), ('map', h, [])]))
        e.append(('map', None, [(('str', b'a'), ('seq', h, [])), (('str', b'b'), ('map', h, []))]))
        e.append(('tvar', b'V', [('seq', h, [])]))
        e.append(('svar', b'V', [(b'f', ('map', h, []))]))
        e.append(('nvar', b'V', ('seq', h, [])))
    e += [('tuple', []), ('tstruct', []), ('tvar', b'V', []), ('struct', []), ('svar', b'V', []), ('bytes', b''), ('bytes', b'\x00\xff'),
          ('nvar', b'V', ('nvar', b'W', ('unit',))), ('tvar', b'V', [('tvar', b'W', [])]), ('svar', b'V', [(b'a', ('svar', b'W', []))]),
          ('map', 1, [(('str', b'k'), ('tvar', b'V', [('int', 'u8', 1), ('map', None, [])]))]),
          ('seq', 2, [('struct', [(b'a', ('none',)), (b'a', ('some', ('unit',)))]), ('cstr', [b'a"', b'', b'\n'])]),
          ('cstr', []), ('cstr', [b'']), ('cstr', [b'ab', b'cd']), ('cstr', ['é'.encode(), b'"']), ('str', b''), ('str', b'\x00'), ('str', b'a\x1fb"c\\d'),
          ('str', bytes(range(0, 128))), ('str', ''.join(chr(c) for c in (0x80, 0x7ff, 0x800, 0xffff, 0x10000, 0x10ffff)).encode()),
          ('map', None, [(('str', b'a'), ('int', 'u8', 1)), (('str', b'a'), ('int', 'u8', 2))]),
          ('map', None, [(('str', b'b'), ('int', 'u8', 1)), (('str', b'a'), ('int', 'u8', 2)), (('str', b'b'), ('int', 'u8', 3))]),
          ('map', None, [(('int', 'i8', 1), ('unit',)), (('str', b'1'), ('bool', True)), (('char', 0x31), ('bool', False))]),
          ('map', None, [(('bool', True), ('unit',)), (('uvar', b'true'), ('unit',)), (('cstr', [b'tr', b'ue']), ('int', 'i8', 0))]),
          ('map', None, [(('some', ('nstruct', ('some', ('int', 'i128', -2**127)))), ('unit',)), (('int', 'u128', 2**128 - 1), ('unit',))])]
    for ty, (c, lo, hi) in INT_T.items():
        e.append(('seq', None, [('int', ty, lo), ('int', ty, hi), ('int', ty, 0)]))
        e.append(('map', None, [(('int', ty, lo), ('int', ty, lo)), (('int', ty, hi), ('int', ty, hi))]))
    if o.floats:
        for b in F64_SPECIAL:
            if o.short_floats and b not in F64_SPECIAL[:6]:
                continue
            e.append(('seq', None, [('f64', b)]))
            e.append(('map', None, [(('f64', b), ('f64', b))]))
        for b in F32_SPECIAL:
            e.append(('seq', None, [('f32', b)]))
            e.append(('map', None, [(('f32', b), ('f32', b))]))
    for bad in [('bytes', b'ab'), ('unit',), ('ustruct',), ('none',), ('nvar', b'V', ('str', b'k')), ('seq', None, []), ('seq', 0, []), ('tuple', []),
                ('tstruct', []), ('tvar', b'V', []), ('map', None, []), ('map', 0, []), ('struct', []), ('svar', b'V', []), ('some', ('none',)),
                ('nstruct', ('unit',)), ('f64', 0x7ff0000000000000), ('f32', 0xff800000), ('f64', 0x7ff8000000000000)]:
        e.append(('map', None, [(bad, ('unit',))]))
        e.append(('map', None, [(('str', b'ok'), ('seq', None, [('int', 'u8', 1)])), (bad, ('unit',)), (('str', b'z'), ('unit',))]))
        e.append(('seq', None, [('int', 'u8', 7), ('map', 1, [(('some', bad), ('unit',))])]))
    if o.numlit:
        e += [('numlit', b'0'), ('numlit', b'-0'), ('numlit', b'1.50'), ('seq', None, [('numlit', b'1e400'), ('numlit', b'-12345678901234567890123')]),
              ('map', None, [(('numlit', b'1'), ('unit',))])]
    return e

INDENTS = [b'  ', b'', b' ', b'\t', b'    ', b' \t', '→'.encode(), b'ab', b'\n', b'\r\n ']

# ------------------------------------------------------------------ float texts from the real ryu
def ftab_lookup(ctx, cfg, keysets):
    """returns dict key -> hex text for all float keys in the given sets (op ft on the implementation)"""
    allk = sorted(set().union(*keysets)) if keysets else []
    tab = {}
    lines = ['ft ' + ','.join(allk[i:i + 40]) for i in range(0, len(allk), 40)]
    ctx.quiet = True
    outs = ctx.impl(cfg, lines, IMPL) if lines else []
    ctx.quiet = False
    for o in outs:
        if not o.startswith('ok '):
            raise RuntimeError('ft failed: ' + o)
        for e in o[3:].split(','):
            k, t = e.split('=')
            tab[k] = t
    return tab

def ftab_field(tab, keys):
    ks = sorted(k for k in keys if tab.get(k, '-') != '-')
    return ','.join('%s=%s' % (k, tab[k]) for k in ks) if ks else '-'

NUM_RE = re.compile(rb'^-?(0|[1-9][0-9]*)(\.[0-9]+)?([eE][+-]?[0-9]+)?$')

def check_float_texts(ctx, cfg, tab):
    """hypotheses about ryu used by the theorems: RFC 8259 number, '.' or 'e' present, ASCII; and it reads back as the same float"""
    v = []
    for k, t in tab.items():
        if t == '-':
            continue
        s = bytes.fromhex(t)
        ok = bool(NUM_RE.match(s)) and (b'.' in s or b'e' in s or b'E' in s) and all(c < 128 for c in s)
        if ok:
            if k[0] == 'd':
                ok = f64_bits(float(s)) == int(k[1:], 16)
            else:
                try:
                    ok = f32_bits(float(s)) == int(k[1:], 16)
                except OverflowError:
                    ok = False
        if not ok:
            v.append({'what': 'ryu-text-hypothesis', 'cfg': cfg, 'input': hx(k.encode()), 'expected': 'RFC 8259 float literal reading back as the same float',
                      'actual': s.decode('latin1'), 'shrinkable': False})
    return v

# ------------------------------------------------------------------ Python rendering of the specification
def exact_float_text(s):
    """does serde_json's default (non float_roundtrip) parser read this literal exactly? (significand < 2^53 and |exponent| <= 22)"""
    m = re.match(rb'^-?([0-9]+)(?:\.([0-9]+))?(?:[eE]([+-]?[0-9]+))?$', s)
    if not m:
        return False
    ip, fp, ep = m.group(1), m.group(2) or b'', int(m.group(3) or b'0')
    sig = int(ip + fp)
    e = ep - len(fp)
    return sig < 2 ** 53 and -22 <= e <= 22

class Rejected(Exception):
    def __init__(self, code):
        self.code = code

def itoa(z):
    return str(z).encode()

def shown_num_from_text(text, letters, st):
    """canonical value of a number literal as the parser reads it (non arbitrary_precision)"""
    if not NUM_RE.match(text):
        return 'NOT-A-NUMBER-TEXT:' + hx(text)      # the float printer's text is no JSON number (reported by check_float_texts; the image then differs from every output)
    if re.match(rb'^-?[0-9]+$', text):
        z = int(text)
        if text[0:1] != b'-' and z <= 2**64 - 1:
            return 'u%d' % z
        if text[0:1] == b'-' and -2**63 <= z < 0:
            return 'i%d' % z
        if 'f' not in letters:
            st['inexact'] = True
        return 'd%016x' % f64_bits(float(z) if z != 0 else -0.0)
    if 'f' not in letters and not exact_float_text(text):
        st['inexact'] = True
    return 'd%016x' % f64_bits(float(text))

def image(v, letters, tab, st):
    """canonical printing (canon.rs show_value) of the data-model image; raises Rejected for unserialisable map keys.
       st['inexact'] is set when a float literal is involved that the default parser need not read exactly."""
    ap = 'a' in letters
    po = 'p' in letters
    t = v[0]
    def num_int(z):
        if ap: return 'l' + hx(itoa(z))
        return shown_num_from_text(itoa(z), letters, st)
    def num_float(key, finite):
        if not finite: return 'n'
        text = bytes.fromhex(tab[key])
        if ap: return 'l' + hx(text)
        return shown_num_from_text(text, letters, st)
    def obj(entries):
        if po:
            d = {}
            for k, x in entries:
                d[k] = x          # dict keeps the first insertion slot, replaces the value
            items = list(d.items())
        else:
            d = {}
            for k, x in entries:
                d[k] = x
            items = sorted(d.items())
        return 'o(%s)' % ','.join('%s:%s' % (hx(k), x) for k, x in items)
    if t == 'bool': return 't' if v[1] else 'f'
    if t == 'int': return num_int(v[2])
    if t == 'f64': return num_float('d%016x' % v[1], (v[1] >> 52) & 0x7ff != 0x7ff)
    if t == 'f32': return num_float('f%08x' % v[1], (v[1] >> 23) & 0xff != 0xff)
    if t == 'char': return 's' + hx(chr(v[1]).encode('utf-8'))
    if t == 'str': return 's' + hx(v[1])
    if t == 'bytes': return 'a(%s)' % ','.join(num_int(b) for b in v[1])
    if t in ('none', 'unit', 'ustruct'): return 'n'
    if t in ('some', 'nstruct'): return image(v[1], letters, tab, st)
    if t == 'uvar': return 's' + hx(v[1])
    if t == 'nvar': return obj([(v[1], image(v[2], letters, tab, st))])
    if t == 'seq': return 'a(%s)' % ','.join(image(x, letters, tab, st) for x in v[2])
    if t in ('tuple', 'tstruct'): return 'a(%s)' % ','.join(image(x, letters, tab, st) for x in v[1])
    if t == 'tvar': return obj([(v[1], 'a(%s)' % ','.join(image(x, letters, tab, st) for x in v[2]))])
    if t == 'map':
        es = []
        for k, x in v[2]:
            ks = key_text(k, tab)
            es.append((ks, image(x, letters, tab, st)))
        return obj(es)
    if t == 'struct': return obj([(k, image(x, letters, tab, st)) for k, x in v[1]])
    if t == 'svar': return obj([(v[1], obj([(k, image(x, letters, tab, st)) for k, x in v[2]]))])
    if t == 'cstr': return 's' + hx(b''.join(v[1]))
    if t == 'numlit':
        if ap: return 'l' + hx(v[1])
        return obj([(b'$serde_json::private::Number', 's' + hx(v[1]))])
    raise ValueError(t)

def key_text(k, tab):
    t = k[0]
    if t == 'str': return k[1]
    if t == 'uvar': return k[1]
    if t in ('some', 'nstruct'): return key_text(k[1], tab)
    if t == 'bool': return b'true' if k[1] else b'false'
    if t == 'int': return itoa(k[2])
    if t == 'f64':
        if (k[1] >> 52) & 0x7ff == 0x7ff: raise Rejected('FloatKey')
        return bytes.fromhex(tab['d%016x' % k[1]])
    if t == 'f32':
        if (k[1] >> 23) & 0xff == 0xff: raise Rejected('FloatKey')
        return bytes.fromhex(tab['f%08x' % k[1]])
    if t == 'char': return chr(k[1]).encode('utf-8')
    if t == 'cstr': return b''.join(k[1])
    raise Rejected('KeyString')

def tokenize(b):
    """JSON-ish tokens of an output: (tokens, saw whitespace outside strings)"""
    toks, ws, i, n = [], False, 0, len(b)
    while i < n:
        c = b[i:i + 1]
        if c in b' \t\n\r':
            ws = True
            i += 1
        elif c in b'[]{},:':
            toks.append(c)
            i += 1
        elif c == b'"':
            j = i + 1
            while j < n and b[j:j + 1] != b'"':
                j += 2 if b[j:j + 1] == b'\\' else 1
            toks.append(b[i:j + 1])
            i = j + 1
        else:
            j = i
            while j < n and b[j:j + 1] not in b' \t\n\r[]{},:"':
                j += 1
            toks.append(b[i:j])
            i = j
    return toks, ws

def layout(toks, ind):
    """the pretty layout of a token stream: one element per line, depth x indent, ': ' after keys, [] / {} for empty containers"""
    out, depth, i = [], 0, 0
    while i < len(toks):
        t = toks[i]
        if t in (b'[', b'{'):
            close = b']' if t == b'[' else b'}'
            if i + 1 < len(toks) and toks[i + 1] == close:
                out.append(t + close)
                i += 2
                continue
            depth += 1
            out.append(t + b'\n' + ind * depth)
        elif t in (b']', b'}'):
            depth -= 1
            out.append(b'\n' + ind * depth + t)
        elif t == b',':
            out.append(b',\n' + ind * depth)
        elif t == b':':
            out.append(b': ')
        else:
            out.append(t)
        i += 1
    return b''.join(out)

def split_ans(line):
    if ' ! ' in line:
        a, b = line.split(' ! ', 1)
        return a, dict((x.split('=', 1) + [''])[:2] if '=' in x else (x, '') for x in b.split(' '))
    return line, {}

# ------------------------------------------------------------------ shape checks on src/ser.rs (literals hard-coded in Model/Ser.v)
SER_LITERALS = [
    # (the Formatter method bodies — brackets, separators, indentation, has_value / current_indent bookkeeping, write_null, the
    #  string quotes, fn indent, write_bool — are no longer pinned here: tools/translate_fmt.py translates them into
    #  Gen/FmtTables.v on every run and Proofs/SerFmt.v proves Model/Ser.v equal to them)
    (1, 'Quote => b"\\\\\\"",'), (1, 'ReverseSolidus => b"\\\\\\\\",'), (1, 'Backspace => b"\\\\b",'), (1, 'FormFeed => b"\\\\f",'),
    (1, 'LineFeed => b"\\\\n",'), (1, 'CarriageReturn => b"\\\\r",'), (1, 'Tab => b"\\\\t",'),
    (1, 'static HEX_DIGITS: [u8; 16] = *b"0123456789abcdef";'), (1, "b'\\\\',"), (1, "b'u',"), (2, "b'0',"),
    (1, 'HEX_DIGITS[(byte >> 4) as usize],'), (1, 'HEX_DIGITS[(byte & 0xF) as usize],'),
    (2, 'if len == Some(0) {'), (1, 'PrettyFormatter::with_indent(b"  ")'),
    (1, 'self::BB => CharEscape::Backspace,'), (1, 'self::TT => CharEscape::Tab,'), (1, 'self::NN => CharEscape::LineFeed,'),
    (1, 'self::FF => CharEscape::FormFeed,'), (1, 'self::RR => CharEscape::CarriageReturn,'), (1, 'self::QU => CharEscape::Quote,'),
    (1, 'self::BS => CharEscape::ReverseSolidus,'), (1, 'self::UU => CharEscape::AsciiControl(byte),'),
]

def shape_check(ctx):
    src = open(os.path.join(engine.REPO, 'src', 'ser.rs'), encoding='utf-8').read()
    lines = [l.strip() for l in src.split('\n')]
    v = []
    for cnt, lit in SER_LITERALS:
        got = sum(1 for l in lines if l == lit)
        if got != cnt:
            # a literal Model/Ser.v hard-codes no longer appears in the source as it did: the TIE is broken (not, by itself, a violation):
            # reported as no-failing-input-found unless the correspondence below finds an input on which the output really differs
            if not hasattr(ctx, 'ties_broken'):
                ctx.ties_broken = []
            ctx.ties_broken.append('shape:src/ser.rs no longer has %d line(s) reading exactly `%s` (%d found)' % (cnt, lit, got))
    return v

# ------------------------------------------------------------------ C03
def sval_cases(ctx, cfg, n):
    rng = ctx.rng
    L = ctx.letters(cfg)
    o_ok = Opts(short_floats=False, bad_keys=False, numlit='a' in L)
    o_bad = Opts(short_floats=False, bad_keys=True, numlit='a' in L)
    vs = list(fixed_svals(o_bad))
    for i in range(n):
        o = o_bad if i % 3 == 0 else o_ok
        vs.append(rand_sval(rng, rng.choice([1, 2, 2, 3, 3, 4]), o))
    return vs

def judge_se(ctx, cfg, svals, indents=None, tally=True):
    """se on every sval: compact, one pretty indent, and the hint-flipped twin; model vs implementation + direct checks"""
    rng = ctx.rng
    L = ctx.letters(cfg)
    tab = ftab_lookup(ctx, cfg, [floats_of(s) for s in svals])
    viol = check_float_texts(ctx, cfg, tab)
    lines, meta = [], []
    for s in svals:
        ft = ftab_field(tab, floats_of(s))
        e = enc(s)
        ind = rng.choice(INDENTS) if indents is None else rng.choice(indents)
        variants = [('c', e, 'orig'), ('p' + (ind.hex() or '-'), e, 'orig')]
        if has_hints(s):
            e2 = enc(flip_hints(s))
            variants += [('c', e2, 'flip'), ('p' + (ind.hex() or '-'), e2, 'flip')]
        for fmt, ee, kind in variants:
            lines.append('se %s %s %s %s' % (L, fmt, ft, ee))
            meta.append((s, fmt, ind, kind, ee))
    io, mo = ctx.both(cfg, lines, impl_name=IMPL, model_name=MODEL)
    groups = {}
    for (s, fmt, ind, kind, ee), line, a, m in zip(meta, lines, io, mo):
        head, ex = split_ans(a)
        def bad(what, expected, actual):
            viol.append({'what': what, 'cfg': cfg, 'input': hx(ee.encode()), 'expected': expected, 'actual': actual, 'shrinkable': False,
                         'aux': {'op': 'se', 'fmt': fmt}, 'case': line})
        if a == 'PANIC' or a.startswith('CRASH') or a == 'BADCASE':
            bad('crash', m, a)
            continue
        hf, mf = head.split(' '), m.split(' ')
        if head != m:
            if hf[0] != mf[0] or (hf[0] == 'err' and hf[1] != mf[1]):
                bad('outcome-differs-from-model', m, head)
            elif hf[0] == 'ok' and hf[1] != mf[1]:
                bad('bytes-differ-from-model', m, head)
            elif hf[0] == 'err' and hf[2] != mf[2]:
                bad('bytes-before-error-differ-from-model', m, head)
            else:
                bad('write_all-buffers-differ-from-model', m, head)
        if tally:
            ctx.count('se:' + hf[0] + ('-' + hf[1] if hf[0] == 'err' else ''))
        if ex.get('u') != '11':
            bad('not-utf8', 'every buffer handed to write_all and the whole output valid UTF-8', 'u=' + str(ex.get('u')))
        if 'agree' not in ex:
            bad('entry-points-disagree', 'to_vec / to_string / to_writer (and pretty forms) give the same bytes', a.split(' ! ')[-1])
        # expected outcome per the data-model image
        st = {}
        try:
            img = image(s, L, tab, st)
            rej = None
        except Rejected as r:
            img, rej = None, r.code
        if rej is not None:
            if hf[0] != 'err' or hf[1] != rej:
                bad('key-rejection', 'err ' + rej, head)
        elif hf[0] != 'ok':
            bad('unexpected-error', 'ok', head)
        else:
            out = bytes.fromhex(hf[1]) if hf[1] != '-' else b''
            groups.setdefault(id(s), {})[(fmt[0], kind)] = out
            ws_indent = all(c in b' \t\n\r' for c in ind)
            if fmt == 'c' or ws_indent:
                p = ex.get('p', '')
                if p.startswith('ERR'):
                    # legitimate only beyond the parser's depth limit
                    if depth_of(tokenize(out)[0]) <= 127 or 'RecLimit' not in p:
                        bad('output-does-not-parse', 'exactly one JSON text', p)
                elif p != img and not st.get('inexact'):
                    bad('wrong-denotation', img, p)
                elif p != img:
                    ctx.count('image-compare-skipped-inexact-float')
            if fmt == 'c':
                toks, ws = tokenize(out)
                if ws:
                    bad('compact-has-whitespace', 'no whitespace outside strings', hf[1])
    # pretty = layout of the compact tokens ; hints irrelevant
    for (s, fmt, ind, kind, ee), line in zip(meta, lines):
        g = groups.get(id(s))
        if not g or fmt != 'c' or kind != 'orig':
            continue
        if ('c', 'orig') in g and ('p', 'orig') in g:
            toks, _ = tokenize(g[('c', 'orig')])
            want = layout(toks, ind)
            if want != g[('p', 'orig')]:
                viol.append({'what': 'pretty-layout', 'cfg': cfg, 'input': hx(ee.encode()), 'expected': hx(want), 'actual': hx(g[('p', 'orig')]),
                             'shrinkable': False, 'aux': {'op': 'se', 'fmt': 'p' + (ind.hex() or '-')}})
        for f in ('c', 'p'):
            if (f, 'orig') in g and (f, 'flip') in g and g[(f, 'orig')] != g[(f, 'flip')]:
                viol.append({'what': 'hint-changes-output', 'cfg': cfg, 'input': hx(ee.encode()), 'expected': hx(g[(f, 'orig')]), 'actual': hx(g[(f, 'flip')]),
                             'shrinkable': False, 'aux': {'op': 'se', 'fmt': f}})
    if tally:
        ctx.distinct_nontrivial += len(set(l for l, a in zip(lines, io) if a.startswith('ok') and len(a) > 40))
    return viol

def depth_of(toks):
    d = m = 0
    for t in toks:
        if t in (b'[', b'{'):
            d += 1
            m = max(m, d)
        elif t in (b']', b'}'):
            d -= 1
    return m

def judge_sv(ctx, cfg, docs, tally=True):
    """Values parsed from JSON text: serialise compact and pretty; Display / {:#} / to_string / to_vec / to_writer agree; model equal"""
    rng = ctx.rng
    L = ctx.letters(cfg)
    ctx.quiet = True
    fj = ctx.impl(cfg, ['fj ' + hx(d) for d in docs], IMPL)
    ctx.quiet = False
    lines, meta = [], []
    for d, f in zip(docs, fj):
        if not f.startswith('ok '):
            continue
        ft = f[3:]
        ind = rng.choice(INDENTS)
        for fmt in ('c', 'p2020', 'p' + (ind.hex() or '-')):
            lines.append('sv %s %s %s %s' % (L, fmt, ft, hx(d)))
            meta.append((d, fmt, ind))
    io, mo = ctx.both(cfg, lines, impl_name=IMPL, model_name=MODEL)
    viol = []
    outs = {}
    for (d, fmt, ind), line, a, m in zip(meta, lines, io, mo):
        head, ex = split_ans(a)
        def bad(what, expected, actual):
            viol.append({'what': what, 'cfg': cfg, 'input': hx(d), 'expected': expected, 'actual': actual, 'shrinkable': False,
                         'aux': {'op': 'sv', 'fmt': fmt}, 'case': line})
        if a == 'PANIC' or a.startswith('CRASH') or a == 'BADCASE':
            bad('crash', m, a)
            continue
        if head != m:
            hf, mf = head.split(' '), m.split(' ')
            bad('value-bytes-differ-from-model' if hf[:2] != mf[:2] else 'value-buffers-differ-from-model', m, head)
        if not head.startswith('ok '):
            bad('value-serialisation-failed', 'ok', head)
            continue
        if ex.get('u') != '11':
            bad('not-utf8', 'valid UTF-8 buffers', str(ex.get('u')))
        if 'agree' not in ex:
            bad('display-or-entry-points-disagree', 'Display / {:#} / to_string(_pretty) / to_vec(_pretty) / to_writer(_pretty) give the same bytes', a.split(' ! ')[-1])
        out = bytes.fromhex(head.split(' ')[1])
        outs[(id(d), fmt)] = out
        if tally:
            ctx.count('sv:ok')
        if fmt == 'c':
            toks, ws = tokenize(out)
            if ws:
                bad('compact-has-whitespace', 'no whitespace outside strings', hx(out))
            # a Value round-trips: parsing the output gives the same Value as parsing the original text
        else:
            c = outs.get((id(d), 'c'))
            if c is not None:
                want = layout(tokenize(c)[0], bytes.fromhex(fmt[1:]) if fmt[1:] != '-' else b'')
                if want != out:
                    bad('pretty-layout', hx(want), hx(out))
    if tally:
        ctx.distinct_nontrivial += len(set(l for l, a in zip(lines, io) if a.startswith('ok') and len(a) > 40))
    return viol

def judge_c03(ctx, cfg, inputs, aux=None):
    """replay entry: inputs are <sval> texts (aux op se) or JSON texts (aux op sv)"""
    if aux and aux.get('op') == 'sv':
        return judge_sv(ctx, cfg, list(inputs), tally=False)
    return judge_lines(ctx, cfg, inputs, aux or {'op': 'se', 'fmt': 'c'})

def judge_lines(ctx, cfg, inputs, aux):
    """re-run raw <sval> texts: model vs implementation only (used by --replay)"""
    L = ctx.letters(cfg)
    v = []
    for e in inputs:
        e = e.decode()
        keys = set(re.findall(r'd[0-9a-f]{16}|f[0-9a-f]{8}', e))
        tab = ftab_lookup(ctx, cfg, [keys])
        ft = ftab_field(tab, keys)
        if aux.get('op') == 'tv':
            line = 'tv %s %s %s' % (L, ft, e)
        elif aux.get('op') == 'wf':
            line = 'wf %s %s %s %s %s %s %s' % (L, aux.get('fmt', 'c'), ft, aux.get('k', '-'), aux.get('kind', '1'), aux.get('chunking', 'a'), e)
        else:
            line = 'se %s %s %s %s' % (L, aux.get('fmt', 'c'), ft, e)
        io, mo = ctx.both(cfg, [line], impl_name=IMPL, model_name=MODEL)
        if split_ans(io[0])[0] != mo[0]:
            v.append({'what': 'differs-from-model', 'cfg': cfg, 'input': hx(e.encode()), 'expected': mo[0], 'actual': io[0], 'aux': aux, 'shrinkable': False})
    return v

def judge_two_docs(ctx, cfg, svals):
    """TWO documents through ONE Serializer (Serializer::new / with_formatter used as a sink for a stream of values): the formatter state is threaded from
    the first to the second; model vs implementation, and directly: the second document must come out exactly as it does alone"""
    rng = ctx.rng
    L = ctx.letters(cfg)
    pool = [s for s in svals if s[0] in ('seq', 'map', 'tuple', 'tstruct', 'struct', 'bytes', 'str', 'unit', 'tvar', 'svar', 'nvar', 'some')] or svals
    empties = [('seq', 0, []), ('seq', None, []), ('map', 0, []), ('map', None, []), ('bytes', b''), ('tuple', []), ('struct', [])]
    pairs = [(a, b) for a in pool[:40] for b in empties] + [(rng.choice(pool), rng.choice(pool + empties)) for _ in range(len(svals) // 4)]
    tab = ftab_lookup(ctx, cfg, [floats_of(a) | floats_of(b) for a, b in pairs])
    lines, singles = [], []
    for a, b in pairs:
        ft = ftab_field(tab, floats_of(a) | floats_of(b))
        fmt = rng.choice(['c', 'p2020', 'p09', 'p'])
        try:
            ea, eb = enc(a), enc(b)
        except Exception:
            continue
        lines.append('s2 %s %s %s %s %s' % (L, fmt, ft, ea, eb))
        singles.append(('se %s %s %s %s' % (L, fmt, ft, ea), 'se %s %s %s %s' % (L, fmt, ft, eb)))
    io, mo = ctx.both(cfg, lines, impl_name=IMPL, model_name='sjdriver_ser2')
    ctx.quiet = True
    alone = ctx.impl(cfg, [x for p in singles for x in p], IMPL)
    ctx.quiet = False
    v = []
    for i, (line, a, m) in enumerate(zip(lines, io, mo)):
        if a != m:
            v.append({'what': 'two-documents-one-serializer-differs-from-model', 'cfg': cfg, 'input': hx(line.encode()), 'expected': 'model: ' + m[:300], 'actual': a[:300], 'shrinkable': False, 'case': line[:400]})
            continue
        a1, a2 = split_ans(alone[2 * i])[0].split(' '), split_ans(alone[2 * i + 1])[0].split(' ')
        fa = a.split(' ')
        if fa[0] == 'ok' and a1[0] == 'ok' and a2[0] == 'ok':
            cat = ('' if a1[1] == '-' else a1[1]) + ('' if a2[1] == '-' else a2[1])
            if (fa[1] if fa[1] != '-' else '') != cat:
                v.append({'what': 'second-document-depends-on-the-first', 'cfg': cfg, 'input': hx(line.encode()), 'expected': 'the two documents as printed alone: ' + cat[:300], 'actual': a[:300], 'shrinkable': False, 'case': line[:400]})
            elif not ctx.quiet:
                ctx.distinct_nontrivial += 1
    ctx.count('two-document-runs', len(lines))
    return v

def run_c03(ctx):
    ctx.rule = ('hand-picked call trees (nested empty containers, Some(0) hints, variants in maps, every key kind incl. all rejected ones, boundary integers of the '
                '12 types, special floats) + random call trees over all 23 constructors (depth <= 4), each serialised compact, pretty (indent from 10 strings incl. '
                'empty, tab, multi-byte, non-whitespace) and again with every length hint flipped None <-> Some(exact); random Values (gen.rand_doc) through '
                'to_string/to_vec/to_writer/Display and the pretty forms.  Compared: bytes and write_all buffer boundaries vs the extracted Coq model; directly: '
                'UTF-8 per buffer, output parses back to the data-model image computed independently in Python, compact has no whitespace, pretty = layout of the '
                'compact tokens, hints irrelevant, entry points agree.  non-trivial = distinct accepted cases with more than 12 output bytes')
    ctx.violations += shape_check(ctx)
    n = 12000 if ctx.tier == 'quick' else 60000
    nd = 6000 if ctx.tier == 'quick' else 40000
    for cfg in ctx.cfgs:
        svals = sval_cases(ctx, cfg, n)
        for s in svals[:3]:
            ctx.sample({'op': 'se', 'cfg': cfg, 'sval': enc(s)})
        for s in svals[::5]:
            ctx.count('root:' + s[0])
        ctx.violations += judge_se(ctx, cfg, svals)
        ctx.violations += judge_two_docs(ctx, cfg, svals)
        docs = [gen.rand_top(ctx.rng, depth=ctx.rng.choice([1, 2, 3, 4]), floats=True) for _ in range(nd)]
        docs += [b'[]', b'{}', b'[[]]', b'[{}]', b'{"a":[]}', b'{"a":{}}', b'[[],[{}],{"":[]}]', b'""', b'"\\u0000\\u001f\\"\\\\\\/"', b'-0', b'-0.0', b'1e16', b'1E-7',
                 b'[1.0,1e300,5e-324]', b'{"b":1,"a":2,"b":3}', gen.nested('[' * 127, b''), gen.nested('[{' * 60, b'1')]
        ctx.sample({'op': 'sv', 'cfg': cfg, 'json_hex': hx(docs[0])})
        ctx.violations += judge_sv(ctx, cfg, docs)
    for cfg in [c for c in getattr(ctx, 'side_cfgs', []) if c not in ctx.cfgs]:
        # arbitrary_precision as a side configuration of the quick tier: call trees with Number literals (the private Number protocol, write_number_str)
        svals = [s for s in sval_cases(ctx, cfg, 3000) if any(x[0] == 'numlit' for x in walk(s))][:800]
        ctx.violations += judge_se(ctx, cfg, svals, tally=False)
        ctx.violations += judge_wf(ctx, cfg, svals[:300])

def extended_c03(ctx):
    for cfg in ctx.cfgs:
        ctx.violations += judge_se(ctx, cfg, sval_cases(ctx, cfg, 40000))

# ------------------------------------------------------------------ C15
def big128(s):
    return any(x[0] == 'int' and x[1] in ('i128', 'u128') and not (-2**63 <= x[2] <= 2**64 - 1) for x in walk(s))

def has_f32(s):
    return any(x[0] == 'f32' and (x[1] >> 23) & 0xff != 0xff for x in walk(s))

def judge_tv(ctx, cfg, svals, tally=True):
    L = ctx.letters(cfg)
    ap = 'a' in L
    tab = ftab_lookup(ctx, cfg, [floats_of(s) for s in svals])
    lines = ['tv %s %s %s' % (L, ftab_field(tab, floats_of(s)), enc(s)) for s in svals]
    io, mo = ctx.both(cfg, lines, impl_name=IMPL, model_name=MODEL)
    viol = []
    for s, line, a, m in zip(svals, lines, io, mo):
        head, ex = split_ans(a)
        ee = enc(s)
        def bad(what, expected, actual):
            viol.append({'what': what, 'cfg': cfg, 'input': hx(ee.encode()), 'expected': expected, 'actual': actual, 'shrinkable': False, 'aux': {'op': 'tv'}, 'case': line})
        if a == 'PANIC' or a.startswith('CRASH') or a == 'BADCASE':
            bad('crash', m, a)
            continue
        if head != m:
            bad('to_value-differs-from-model', m, head)
        tv_ok = head.startswith('ok')
        s_ok = ex.get('s') == 'ok'
        if tally:
            ctx.count('tv:' + ('ok' if tv_ok else head))
        exc128 = (not ap) and big128(s)
        if exc128 and head == 'err NumRange':
            # documented exception: the integer cannot be represented in a Value (whatever to_string does with the rest of the tree)
            ctx.count('tv:exception-128bit')
            continue
        if tv_ok != s_ok:
            bad('to_value-and-to_string-disagree-on-success', 'to_string: ' + str(ex.get('s')), head)
            continue
        if not tv_ok:
            if ex.get('s') != 'err:' + head.split(' ')[1]:
                bad('different-rejection', 'to_string: ' + str(ex.get('s')), head)
            continue
        tvv, pv = head[3:], ex.get('p', '')
        if tvv != pv:
            st = {}
            try:
                image(s, L, tab, st)
            except Rejected:
                pass
            if (not ap) and has_f32(s):
                ctx.count('tv:exception-f32-widening')
            elif exc128:
                ctx.count('tv:exception-128bit')
            elif st.get('inexact'):
                ctx.count('tv:compare-skipped-inexact-float')
            else:
                bad('to_value-differs-from-parsed-to_string', 'from_str(to_string(t)) = ' + pv, 'to_value(t) = ' + tvv)
    if tally:
        ctx.distinct_nontrivial += len(set(l for l, a in zip(lines, io) if a.startswith('ok') and len(a) > 30))
    return viol

def judge_c15(ctx, cfg, inputs, aux=None):
    return judge_lines(ctx, cfg, inputs, {'op': 'tv'})

def tv_cases(ctx, cfg, n):
    rng = ctx.rng
    L = ctx.letters(cfg)
    short = 'f' not in L
    o_ok = Opts(short_floats=short, bad_keys=False, numlit='a' in L)
    o_bad = Opts(short_floats=short, bad_keys=True, numlit='a' in L)
    o_any = Opts(short_floats=False, bad_keys=False, numlit='a' in L)
    vs = list(fixed_svals(o_bad))
    for i in range(n):
        o = o_bad if i % 5 == 0 else (o_any if i % 5 == 1 else o_ok)
        vs.append(rand_sval(rng, rng.choice([1, 2, 2, 3, 3, 4]), o))
    return vs

def run_c15(ctx):
    ctx.rule = ('the same call-tree generator as C03 (all constructors, all key kinds incl. rejected ones, boundary integers, special floats; without float_roundtrip '
                'most floats are short literals): to_value(t) printed canonically vs the extracted Coq model of value/ser.rs, and the relation itself evaluated on the '
                'implementation: to_value ok <=> to_string ok, same rejection code, to_value(t) == from_str(to_string(t)) except the two documented exceptions '
                '(f32 widening, 128-bit integers outside [i64::MIN, u64::MAX] without arbitrary_precision), which are counted; non-trivial = distinct accepted trees')
    n = 25000 if ctx.tier == 'quick' else 150000
    for cfg in ctx.cfgs:
        svals = tv_cases(ctx, cfg, n)
        for s in svals[:3]:
            ctx.sample({'op': 'tv', 'cfg': cfg, 'sval': enc(s)})
        ctx.violations += judge_tv(ctx, cfg, svals)
    for cfg in [c for c in getattr(ctx, 'side_cfgs', []) if c not in ctx.cfgs]:
        # arbitrary_precision side configuration: Number literals (-0, 1.50, 1E+2, 40-digit integers ...) inside the data, kept verbatim by both serializers
        ctx.violations += judge_tv(ctx, cfg, tv_cases(ctx, cfg, 2500))

def extended_c15(ctx):
    for cfg in ctx.cfgs:
        ctx.violations += judge_tv(ctx, cfg, tv_cases(ctx, cfg, 80000))

# ------------------------------------------------------------------ C13, writer half (called by the C13 check)
CHUNKINGS = ['a', 's1', 's2', 's3', 's7', 's1,0', 's0,1', 's5,0,0,1', 's2,0,3,1,0,0,4', 's1000']

def judge_wf(ctx, cfg, svals):
    rng = ctx.rng
    L = ctx.letters(cfg)
    tab = ftab_lookup(ctx, cfg, [floats_of(s) for s in svals])
    # fault-free runs first
    base_lines, base_meta = [], []
    for s in svals:
        ft = ftab_field(tab, floats_of(s))
        fmt = rng.choice(['c', 'c', 'p2020', 'p09', 'p-', 'pe28692'])
        base_lines.append('se %s %s %s %s' % (L, fmt, ft, enc(s)))
        base_meta.append((s, fmt, ft))
    ctx.quiet = True
    base = ctx.impl(cfg, base_lines, IMPL)
    ctx.quiet = False
    lines, meta = [], []
    xlines, xmeta = [], []
    for (s, fmt, ft), b in zip(base_meta, base):
        head, ex = split_ans(b)
        hf = head.split(' ')
        if hf[0] not in ('ok', 'err'):
            continue
        out = bytes.fromhex(hf[1] if hf[0] == 'ok' else hf[2]) if (hf[1] if hf[0] == 'ok' else hf[2]) != '-' else b''
        final = 'ok' if hf[0] == 'ok' else 'err ' + hf[1]
        ks = set([0, 1, len(out) - 1, len(out), len(out) + 1] + [rng.randrange(0, len(out) + 1) for _ in range(3)])
        for k in sorted(x for x in ks if x >= 0):
            lines.append('wf %s %s %s %d %d %s %s' % (L, fmt, ft, k, rng.randrange(1, 7), rng.choice(CHUNKINGS), enc(s)))
            meta.append((s, out, final, k))
        lines.append('wf %s %s %s - 1 %s %s' % (L, fmt, ft, rng.choice(CHUNKINGS), enc(s)))
        meta.append((s, out, final, None))
        # one-shot failures and all-or-nothing bounded sinks (implementation only): the serializer must stop at the FIRST failed write —
        # with a persistent failure a serializer that goes on writing after an error is indistinguishable from one that stops
        for k in sorted(x for x in ks if 0 <= x < len(out)):
            kind = rng.randrange(1, 7)
            xlines.append('wf %s %s %s o%d %d %s %s' % (L, fmt, ft, k, kind, rng.choice(CHUNKINGS), enc(s)))
            xmeta.append((s, out, final, 'o', k, kind))
        for c in sorted(set([rng.randrange(0, len(out) + 1) for _ in range(4)] + [max(0, len(out) - 1), max(0, len(out) - 2)])):
            kind = rng.randrange(1, 7)
            xlines.append('wf %s %s %s b%d %d a %s' % (L, fmt, ft, c, kind, enc(s)))
            xmeta.append((s, out, final, 'b', c, kind))
    io, mo = ctx.both(cfg, lines, impl_name=IMPL, model_name=MODEL)
    viol = []
    xo = ctx.impl(cfg, xlines, IMPL)
    # the same lines through the extracted writer MACHINE (Model/WriterMachine.v = the harness's ChunkWriter, proved an instance of the general oracle)
    xm = ctx.model(xlines, 'sjdriver_wgen') if ctx.model_ok and os.path.exists(os.path.join(engine.VERIF, 'ocaml', 'sjdriver_wgen')) else [None] * len(xlines)
    for line, a, m in zip(xlines, xo, xm):
        if m is not None and a != m:
            f = line.split(' ')
            viol.append({'what': 'writer-machine-run-differs-from-model', 'cfg': cfg, 'input': hx(f[7].encode()), 'expected': 'model: ' + m[:300], 'actual': a[:300], 'shrinkable': False,
                         'aux': {'op': 'wf', 'fmt': f[2], 'k': f[4], 'kind': f[5], 'chunking': f[6]}, 'case': line})
    for (s, out, final, mode, k, kind), line, a in zip(xmeta, xlines, xo):
        def xbad(what, expected, actual):
            f = line.split(' ')
            viol.append({'what': what, 'cfg': cfg, 'input': hx(f[7].encode()), 'expected': expected, 'actual': actual, 'shrinkable': False,
                         'aux': {'op': 'wf', 'fmt': f[2], 'k': f[4], 'kind': f[5], 'chunking': f[6]}, 'case': line})
        if a == 'PANIC' or a.startswith('CRASH') or a == 'BADCASE':
            xbad('crash', 'a result', a)
            continue
        m = re.fullmatch(r'(\S+) (.*) after=(\d+) fired=(true|false)', a)
        if not m:
            xbad('crash', 'a result', a)
            continue
        acc = bytes.fromhex(m.group(1)) if m.group(1) != '-' else b''
        res, after, fired = m.group(2), int(m.group(3)), m.group(4) == 'true'
        if not out.startswith(acc):
            xbad('accepted-bytes-not-a-prefix', 'a prefix of ' + hx(out), a)
        elif fired and after != 0:
            xbad('writes-after-a-failed-write', 'no further write call after the first failure', a)
        elif fired and res != 'err Io %d' % kind:
            xbad('writer-failure-not-reported', 'err Io %d' % kind, a)
        elif not fired and (res != final or acc != out):
            xbad('fault-free-run-changed', hx(out) + ' ' + final, a)
        ctx.count('wf-oneshot/bounded:' + ('io' if fired else 'clean'))
    for (s, out, final, k), line, a, m in zip(meta, lines, io, mo):
        def bad(what, expected, actual):
            f = line.split(' ')
            viol.append({'what': what, 'cfg': cfg, 'input': hx(f[7].encode()), 'expected': expected, 'actual': actual, 'shrinkable': False,
                         'aux': {'op': 'wf', 'fmt': f[2], 'k': f[4], 'kind': f[5], 'chunking': f[6]}, 'case': line})
        if a == 'PANIC' or a.startswith('CRASH') or a == 'BADCASE':
            bad('crash', m, a)
            continue
        if a != m:
            bad('writer-run-differs-from-model', m, a)
        acc_hex, res = a.split(' ', 1)
        acc = bytes.fromhex(acc_hex) if acc_hex != '-' else b''
        if not out.startswith(acc):
            bad('accepted-bytes-not-a-prefix', 'a prefix of ' + hx(out), acc_hex)
        kind = line.split(' ')[5]
        if k is not None and k < len(out):
            if res != 'err Io ' + kind or acc != out[:k]:
                bad('writer-failure-not-reported', 'first %d bytes accepted, then err Io %s' % (k, kind), a)
        else:
            if res != final or acc != out:
                bad('fault-free-run-changed', hx(out) + ' ' + final, a)
        ctx.count('wf:' + res.split(' ')[0] + ('-io' if res.startswith('err Io') else ''))
    ctx.distinct_nontrivial += len(set(lines))
    return viol

def run_c13_writer(ctx):
    """writer half of C13: called by the C13 check for each of its configurations"""
    n = 1500 if ctx.tier == 'quick' else 10000
    for cfg in list(ctx.cfgs) + [c for c in getattr(ctx, 'side_cfgs', []) if c not in ctx.cfgs]:
        rng = ctx.rng
        L = ctx.letters(cfg)
        if cfg not in ctx.cfgs:
            n = max(300, n // 5)          # side configuration (arbitrary_precision: Number literals go through Formatter::write_number_str)
        o_ok = Opts(bad_keys=False, numlit='a' in L)
        o_bad = Opts(bad_keys=True, numlit='a' in L)
        svals = [s for s in fixed_svals(o_bad)][::3] + [rand_sval(rng, rng.choice([1, 2, 3]), o_bad if i % 4 == 0 else o_ok) for i in range(n)]
        ctx.violations += judge_wf(ctx, cfg, svals)
        # per-buffer UTF-8 on the fault-free runs is part of judge_se
        ctx.violations += [v for v in judge_se(ctx, cfg, svals[:n // 2], tally=False) if v['what'] in ('not-utf8', 'write_all-buffers-differ-from-model', 'crash')]

TRUSTED = ['ryu::Buffer::format_finite (external crate): its text is input data of the model; hypotheses H1-H4 (RFC 8259 number with "." or "e", ASCII, reads back '
           'as the same float) are stated in the theorems and checked on every float text seen',
           'itoa::Buffer::format (external crate) = minimal decimal digits (Model.Num.itoa)',
           'std::io::Write::write_all loop semantics (Model/Ser.v write_all_loop)',
           'serde contract: length hints are None or exact; serialize_key precedes serialize_value',
           'literals of src/ser.rs hard-coded in Model/Ser.v, guarded by the shape check in tools/checks/ser.py']

register('C03', cfgs={'quick': ['def', 'po'], 'thorough': list(engine.CONFIGS)}, side_cfgs=['ap'], run=run_c03, judge=judge_c03, extended=extended_c03, trusted_base=TRUSTED)
register('C15', cfgs={'quick': ['fr', 'po'], 'thorough': ['fr', 'po', 'ap']}, side_cfgs=['ap'], run=run_c15, judge=judge_c15, extended=extended_c15, trusted_base=TRUSTED)
