#!/usr/bin/env python3
"""translate_lexalg.py — regenerates coq/theories/Gen/LexAlgTables.v from /repo/src/lexical on every run.

A statement-level translator (conventions of tools/translate_numparse.py) for the CONTROL LOGIC of the correctly-rounded float parser
(cargo feature float_roundtrip).  The constant tables are translated by tools/translate_lex.py (Gen/LexTables.v); here the BODIES of

    exponent.rs   into_i32  scientific_exponent  mantissa_exponent
    digit.rs      to_digit  add_digit
    shift.rs      shr  overflowing_shr  shl
    rounding.rs   nth_bit  lower_n_mask  lower_n_halfway  internal_n_mask  round_nearest  tie_even  round_nearest_tie_even  round_toward
                  downard  round_downward  round_to_float  avoid_overflow  round_to_native
    float.rs      ExtendedFloat::{mul, imul, normalize, round_to_native, into_float, into_downward_float}  into_float
    errors.rs     nearest_error_is_accurate  u64::{error_scale, error_halfscale, error_is_accurate}
    num.rs        Float::is_special
    algorithm.rs  fast_path  multiply_exponent_extended  moderate_path  fallback_path

are parsed into the AST of Model/LexAlgAst.v (semantics there).  Generic code over `F: Float` is translated once: `F::CONST` becomes
`EConst K..`, interpreted with the record of trait constants of the instance (Model/LexAlgEnv.v, from Gen/LexTables.v).

Rust subset:
    item  ::= let [mut] PAT [: T] = E;  |  let x: T;  |  LV = E;  |  LV op= E;  (op: + - * << >>)     LV ::= x | x.mant | x.exp | *x
            | [let PAT =] CALL;                 a call with a `&mut ExtendedFloat` argument (copy-in / copy-out; at most one per call)
            | let x = match E { PAT => E, PAT => return E, .. };
            | if E { item* } [else if ..] [else { item* }]   |   match E { PAT => { item* }  .. }   |   debug_assert!(E [, "msg"]);
            | return E;  |  E                   (tail; a tail `if` / `match` with block arms is distributed into its arms)
    PAT   ::= _ | x | (PAT, PAT) | true | false | Some(PAT) | None
    E     ::= x | 123 | 0x7FF | true | false | u64::MAX | i32::MAX | u64::{FULL, HALF, HIMASK, LOMASK} (folded to their values)
            | E + E | - | * | / | % | & | '|' | ^ | << | >> | == | != | < | <= | > | >= | && | '||' | !E | -E | E as T | (E) | &E
            | E.saturating_add(E) | saturating_sub | wrapping_add | wrapping_sub | min | checked_mul | checked_add | overflowing_mul
            | overflowing_add | E.leading_zeros() | (E as char).to_digit(10) | E.as_u64() | E.0 | E.1 | E.mant | E.exp
            | ExtendedFloat { mant: E, exp: E } | (E, E) | Some(E) | None | if E { E } else { E } | mem::size_of::<T>()
            | F::CONST | F::exponent_limit() | F::mantissa_limit() | F::as_cast(E) | F::from_bits(E) | F::Unsigned::as_cast(E)
            | E.pow10(E) | E.to_bits() | POW10_64 | TAB[E] | ExtendedFloat::get_powers() | powers.bias | powers.step | powers.large.len()
            | powers.get_small_int(E) | powers.get_small(E) | powers.get_large(E)
            | f(E, ..) | f::<F>(E, ..) | u64::f::<F>(E, ..) | E.f::<F>(E, ..)   (a translated function without `&mut` parameter, or bhcomp)
            | f                                 (a translated function as the `Algorithm` argument)
The width of every integer literal is inferred (unification; a literal nothing constrains is an i32, as in Rust).

Anything outside the subset: `BROKEN lexalg:<fn>: <why>` (exit status 3; the previous file is NOT rewritten).  Pinned by exact
whitespace-squeezed text: the parameter and return TYPES and the generics of every translated function; the helpers the interpreter takes
as primitives (num.rs: the as_primitive_impl! / as_cast_impl! macros and their instantiations, `pow10`, `from_bits`, `to_bits`,
`type Unsigned`, `ZERO` of both Float impls, `impl Mantissa for u64`; cached.rs: ExtendedFloatArray / ModeratePathPowers and their
accessors, get_powers; cached_float80.rs: BASE10_POWERS, get_powers; float.rs: struct ExtendedFloat; bhcomp.rs: the signature of bhcomp).

Usage: translate_lexalg.py [--repo /repo] [--out <file>]
"""
import re, sys, os, argparse
sys.path.insert(0, os.path.dirname(os.path.abspath(__file__)))
import translate_fmt as tf
Broken, block_at, squeeze, strip_comments = tf.Broken, tf.block_at, tf.squeeze, tf.strip_comments

INT_TYPES = {'u8': (0, 255), 'u32': (0, 2**32 - 1), 'u64': (0, 2**64 - 1), 'i32': (-2**31, 2**31 - 1), 'usize': (0, 2**64 - 1)}
COQ_ITY = {'u8': 'U8', 'u32': 'U32', 'u64': 'U64', 'i32': 'I32', 'usize': 'Usize'}
UNSIGNED = ('u8', 'u32', 'u64', 'usize', 'FU')

W = 'where F: Float,'
WA = 'where F: Float, Algorithm: FnOnce(&mut ExtendedFloat, i32),'
# table name -> (file, container, generics, parameter types, return type, where clause)       container: None (free fn) | impl header
IMPL_EF = 'impl ExtendedFloat'
IMPL_ERR = 'impl FloatErrors for u64'
TRAIT_FLOAT = 'pub trait Float: Number'
SPEC = [
    ('into_i32', 'exponent.rs', None, '', ['usize'], 'i32', ''),
    ('scientific_exponent', 'exponent.rs', None, '', ['i32', 'usize', 'usize'], 'i32', ''),
    ('mantissa_exponent', 'exponent.rs', None, '', ['i32', 'usize', 'usize'], 'i32', ''),
    ('to_digit', 'digit.rs', None, '', ['u8'], 'Option<u32>', ''),
    ('add_digit', 'digit.rs', None, '', ['u64', 'u32'], 'Option<u64>', ''),
    ('shr', 'shift.rs', None, '', ['&mut ExtendedFloat', 'i32'], '', ''),
    ('overflowing_shr', 'shift.rs', None, '', ['&mut ExtendedFloat', 'i32'], '', ''),
    ('shl', 'shift.rs', None, '', ['&mut ExtendedFloat', 'i32'], '', ''),
    ('nth_bit', 'rounding.rs', None, '', ['u64'], 'u64', ''),
    ('lower_n_mask', 'rounding.rs', None, '', ['u64'], 'u64', ''),
    ('lower_n_halfway', 'rounding.rs', None, '', ['u64'], 'u64', ''),
    ('internal_n_mask', 'rounding.rs', None, '', ['u64', 'u64'], 'u64', ''),
    ('round_nearest', 'rounding.rs', None, '', ['&mut ExtendedFloat', 'i32'], '(bool, bool)', ''),
    ('tie_even', 'rounding.rs', None, '', ['&mut ExtendedFloat', 'bool', 'bool'], '', ''),
    ('round_nearest_tie_even', 'rounding.rs', None, '', ['&mut ExtendedFloat', 'i32'], '', ''),
    ('round_toward', 'rounding.rs', None, '', ['&mut ExtendedFloat', 'i32'], 'bool', ''),
    ('downard', 'rounding.rs', None, '', ['&mut ExtendedFloat', 'bool'], '', ''),
    ('round_downward', 'rounding.rs', None, '', ['&mut ExtendedFloat', 'i32'], '', ''),
    ('round_to_float', 'rounding.rs', None, '<F, Algorithm>', ['&mut ExtendedFloat', 'Algorithm'], '', WA),
    ('avoid_overflow', 'rounding.rs', None, '<F>', ['&mut ExtendedFloat'], '', W),
    ('round_to_native', 'rounding.rs', None, '<F, Algorithm>', ['&mut ExtendedFloat', 'Algorithm'], '', WA),
    ('ExtendedFloat::mul', 'float.rs', IMPL_EF, '', ['&self', '&ExtendedFloat'], 'ExtendedFloat', ''),
    ('ExtendedFloat::imul', 'float.rs', IMPL_EF, '', ['&mut self', '&ExtendedFloat'], '', ''),
    ('ExtendedFloat::normalize', 'float.rs', IMPL_EF, '', ['&mut self'], 'u32', ''),
    ('ExtendedFloat::round_to_native', 'float.rs', IMPL_EF, '<F, Algorithm>', ['&mut self', 'Algorithm'], '', WA),
    ('ExtendedFloat::into_float', 'float.rs', IMPL_EF, '<F: Float>', ['mut self'], 'F', ''),
    ('ExtendedFloat::into_downward_float', 'float.rs', IMPL_EF, '<F: Float>', ['mut self'], 'F', ''),
    ('into_float', 'float.rs', None, '<F>', ['ExtendedFloat'], 'F', W),
    ('nearest_error_is_accurate', 'errors.rs', None, '', ['u64', '&ExtendedFloat', 'u64'], 'bool', ''),
    ('u64::error_scale', 'errors.rs', IMPL_ERR, '', [], 'u32', ''),
    ('u64::error_halfscale', 'errors.rs', IMPL_ERR, '', [], 'u32', ''),
    ('u64::error_is_accurate', 'errors.rs', IMPL_ERR, '<F: Float>', ['u32', '&ExtendedFloat'], 'bool', ''),
    ('Float::is_special', 'num.rs', TRAIT_FLOAT, '', ['self'], 'bool', ''),
    ('fast_path', 'algorithm.rs', None, '<F>', ['u64', 'i32'], 'Option<F>', W),
    ('multiply_exponent_extended', 'algorithm.rs', None, '<F>', ['&mut ExtendedFloat', 'i32', 'bool'], 'bool', W),
    ('moderate_path', 'algorithm.rs', None, '<F>', ['u64', 'i32', 'bool'], '(ExtendedFloat, bool)', W),
    ('fallback_path', 'algorithm.rs', None, '<F>', ['&[u8]', '&[u8]', 'u64', 'i32', 'i32', 'bool'], 'F', W),
]
EXTERN = {'bhcomp': (['F', 'bytes', 'bytes', 'i32'], 'F')}
BHCOMP_HEAD = '<F>(b: F, integer: &[u8], mut fraction: &[u8], exponent: i32) -> F where F: Float,'
HARMLESS_ATTRS = {'#[inline]', '#[inline(always)]', '#[doc(hidden)]'}

PTYPE = {'u8': 'u8', 'u32': 'u32', 'u64': 'u64', 'i32': 'i32', 'usize': 'usize', 'bool': 'bool', 'F': 'F', 'Algorithm': 'fn',
         '&mut ExtendedFloat': 'EF', '&ExtendedFloat': 'EF', 'ExtendedFloat': 'EF', '&[u8]': 'bytes',
         '&self': None, '&mut self': None, 'mut self': None, 'self': None}
RTYPE = {'': 'unit', 'i32': 'i32', 'u32': 'u32', 'u64': 'u64', 'bool': 'bool', 'F': 'F', 'ExtendedFloat': 'EF',
         'Option<u32>': ('opt', 'u32'), 'Option<u64>': ('opt', 'u64'), 'Option<F>': ('opt', 'F'),
         '(bool, bool)': ('tup', 'bool', 'bool'), '(ExtendedFloat, bool)': ('tup', 'EF', 'bool')}
SELF_TYPE = {IMPL_EF: 'EF', TRAIT_FLOAT: 'F'}

FCONSTS = {'ZERO': ('KZero', 'F'), 'MANTISSA_SIZE': ('KMantissaSize', 'i32'), 'EXPONENT_BIAS': ('KExponentBias', 'i32'),
           'DENORMAL_EXPONENT': ('KDenormalExponent', 'i32'), 'MAX_EXPONENT': ('KMaxExponent', 'i32'),
           'DEFAULT_SHIFT': ('KDefaultShift', 'i32'), 'CARRY_MASK': ('KCarryMask', 'u64'), 'EXPONENT_MASK': ('KExponentMask', 'FU'),
           'HIDDEN_BIT_MASK': ('KHiddenBitMask', 'FU'), 'MANTISSA_MASK': ('KMantissaMask', 'FU'), 'INFINITY_BITS': ('KInfinityBits', 'FU')}
FFUNS = {'exponent_limit': ('KExponentLimit', ('tup', 'i32', 'i32')), 'mantissa_limit': ('KMantissaLimit', 'i32')}
M2 = {'saturating_add': 'MSaturatingAdd', 'saturating_sub': 'MSaturatingSub', 'wrapping_add': 'MWrappingAdd', 'wrapping_sub': 'MWrappingSub',
      'min': 'MMin', 'checked_mul': 'MCheckedMul', 'checked_add': 'MCheckedAdd', 'overflowing_mul': 'MOverflowingMul',
      'overflowing_add': 'MOverflowingAdd'}
TABLES = {'POW10_64': 'u64'}

# ---- pinned helper texts (squeezed, comments stripped) ---------------------------------------------------------------------------
PIN_AS_PRIMITIVE = ('macro_rules! as_primitive_impl { ($($ty:ident)*) => { $( impl AsPrimitive for $ty { #[inline] fn as_u32(self) -> u32 { self as u32 } '
                    '#[inline] fn as_u64(self) -> u64 { self as u64 } #[inline] fn as_u128(self) -> u128 { self as u128 } '
                    '#[inline] fn as_usize(self) -> usize { self as usize } #[inline] fn as_f32(self) -> f32 { self as f32 } '
                    '#[inline] fn as_f64(self) -> f64 { self as f64 } } )* }; } as_primitive_impl! { u32 u64 u128 usize f32 f64 }')
PIN_AS_CAST = ('macro_rules! as_cast_impl { ($ty:ident, $method:ident) => { impl AsCast for $ty { #[inline] fn as_cast<N: AsPrimitive>(n: N) -> Self { '
               'n.$method() } } }; } as_cast_impl!(u32, as_u32); as_cast_impl!(u64, as_u64); as_cast_impl!(u128, as_u128); '
               'as_cast_impl!(usize, as_usize); as_cast_impl!(f32, as_f32); as_cast_impl!(f64, as_f64);')
PIN_MANTISSA_TRAIT = 'const HALF: i32 = Self::FULL / 2;'
PIN_POW10 = ('{ debug_assert!({ let (min, max) = Self::exponent_limit(); n >= min && n <= max }); '
             'if n > 0 { self * %s_POW10[n as usize] } else { self / %s_POW10[-n as usize] } }')
PIN_EF_STRUCT = '{ pub mant: u64, pub exp: i32, }'
PIN_CACHED = [
    ('pub(crate) struct ExtendedFloatArray', "{ pub mant: &'static [u64], pub exp: &'static [i32], }"),
    ('pub(crate) struct ModeratePathPowers', "{ pub small: ExtendedFloatArray, pub large: ExtendedFloatArray, pub small_int: &'static [u64], pub step: i32, pub bias: i32, }"),
    ('impl ExtendedFloatArray', '{ #[inline] pub fn get_extended_float(&self, index: usize) -> ExtendedFloat { let mant = self.mant[index]; let exp = self.exp[index]; '
                                'ExtendedFloat { mant, exp } } #[inline] pub fn len(&self) -> usize { self.mant.len() } }'),
    ('impl ModeratePathPowers', '{ #[inline] pub fn get_small(&self, index: usize) -> ExtendedFloat { self.small.get_extended_float(index) } '
                                '#[inline] pub fn get_large(&self, index: usize) -> ExtendedFloat { self.large.get_extended_float(index) } '
                                '#[inline] pub fn get_small_int(&self, index: usize) -> u64 { self.small_int[index] } }'),
    ('impl ModeratePathCache for ExtendedFloat', "{ #[inline] fn get_powers() -> &'static ModeratePathPowers { cached_float80::get_powers() } }"),
]
PIN_CACHED80 = [
    ('const BASE10_POWERS: ModeratePathPowers = ModeratePathPowers',
     '{ small: ExtendedFloatArray { mant: &BASE10_SMALL_MANTISSA, exp: &BASE10_SMALL_EXPONENT, }, large: ExtendedFloatArray { mant: &BASE10_LARGE_MANTISSA, '
     'exp: &BASE10_LARGE_EXPONENT, }, small_int: &BASE10_SMALL_INT_POWERS, step: BASE10_STEP, bias: BASE10_BIAS, }'),
    ("pub(crate) fn get_powers() -> &'static ModeratePathPowers", '{ &BASE10_POWERS }'),
]

# ---- tokens ----------------------------------------------------------------------------------------------------------------------
TOKEN = re.compile(r"\s*(\"(?:\\.|[^\"\\])*\""
                   r"|0x[0-9A-Fa-f_]+(?![A-Za-z0-9_])|\d[\d_]*(?![A-Za-z0-9_])"
                   r"|[A-Za-z_][A-Za-z0-9_]*"
                   r"|<<=|>>=|\.\.=|=>|::|==|!=|>=|<=|&&|\|\||\+=|-=|\*=|/=|<<|>>|->|[@|(){},;!=.*+\-/%<>&\[\]:#^])")
IDENT = re.compile(r'[A-Za-z_][A-Za-z0-9_]*\Z')
KEYWORDS = {'_', 'self', 'Self', 'let', 'mut', 'if', 'else', 'match', 'while', 'loop', 'return', 'as', 'true', 'false', 'fn', 'for', 'in',
            'break', 'continue', 'ref', 'move', 'u8', 'u32', 'u64', 'i32', 'usize', 'bool', 'char', 'Some', 'None', 'F', 'mem',
            'ExtendedFloat', 'debug_assert'}

def tokenize(s):
    out, i = [], 0
    s = s.strip()
    while i < len(s):
        m = TOKEN.match(s, i)
        if not m:
            raise Broken('token outside the subset at `%s`' % s[i:i + 40].strip())
        out.append(m.group(1))
        i = m.end()
    return out

class Cell:
    """the not yet known width of an integer literal (union-find); anyty: a type variable (the payload of a bare `None`)"""
    def __init__(self, anyty=False):
        self.to = None
        self.anyty = anyty
    def find(self):
        c = self
        while isinstance(c.to, Cell):
            c = c.to
        return c

def resolve(t):
    if isinstance(t, Cell):
        r = t.find()
        return r.to if r.to is not None else r
    if isinstance(t, tuple):
        return (t[0],) + tuple(resolve(x) for x in t[1:])
    return t

def tyname(t):
    t = resolve(t)
    if isinstance(t, Cell): return '{integer}'
    if isinstance(t, tuple): return '%s<%s>' % (t[0], ', '.join(tyname(x) for x in t[1:]))
    return t

def unify(a, b, what):
    a, b = resolve(a), resolve(b)
    if isinstance(a, Cell) and isinstance(b, Cell):
        if a is not b:
            if a.anyty: a.to = b
            else: b.to = a
        return resolve(a)
    if isinstance(a, Cell) or isinstance(b, Cell):
        c, t = (a, b) if isinstance(a, Cell) else (b, a)
        if c.anyty:
            c.to = t
            return t
        if t not in INT_TYPES and t != 'FU':
            raise Broken('%s: an integer literal where a %s is expected' % (what, tyname(t)))
        if t == 'FU':
            raise Broken('%s: an integer literal of type F::Unsigned' % what)
        c.to = t
        return t
    if isinstance(a, tuple) and isinstance(b, tuple):
        if a[0] != b[0] or len(a) != len(b):
            raise Broken('%s: types %s and %s differ' % (what, tyname(a), tyname(b)))
        return (a[0],) + tuple(unify(x, y, what) for x, y in zip(a[1:], b[1:]))
    if a != b:
        raise Broken('%s: types %s and %s differ' % (what, tyname(a), tyname(b)))
    return a

def is_int(t):
    t = resolve(t)
    return (isinstance(t, Cell) and not t.anyty) or t in INT_TYPES or t == 'FU'

def is_unsigned(t):
    t = resolve(t)
    return (isinstance(t, Cell) and not t.anyty) or t in UNSIGNED       # an undetermined literal: checked again at emission (default i32 is rejected there)

class P:
    """recursive descent over the token list of one function body"""
    def __init__(self, toks, fn, ctx, ret, selfty):
        self.t, self.i, self.fn, self.ctx, self.ret, self.selfty = toks, 0, fn, ctx, ret, selfty
        self.nostruct = False
        self.shift_lhs = []            # literal cells that stand left of a shift: must end up unsigned
    # ---- token helpers ---------------------------------------------------------------------
    def at(self, *lits):
        return self.t[self.i:self.i + len(lits)] == list(lits)
    def eat(self, *lits):
        if self.at(*lits):
            self.i += len(lits)
            return True
        return False
    def here(self):
        return ' '.join(self.t[self.i:self.i + 12])
    def need(self, *lits):
        if not self.eat(*lits):
            raise Broken('expected `%s` at `%s`' % (' '.join(lits), self.here()))
    def peek(self, k=0):
        return self.t[self.i + k] if self.i + k < len(self.t) else ''
    def is_ident(self, k=0):
        tok = self.peek(k)
        return bool(IDENT.match(tok)) and tok not in KEYWORDS
    def ident(self):
        if self.is_ident():
            self.i += 1
            return self.t[self.i - 1]
        raise Broken('identifier expected at `%s`' % self.here())
    def skip_block(self, j):
        if self.t[j:j + 1] != ['{']: raise Broken('`{` expected at `%s`' % ' '.join(self.t[j:j + 8]))
        depth = 0
        while True:
            if j >= len(self.t): raise Broken('unbalanced braces')
            depth += {'{': 1, '}': -1}.get(self.t[j], 0)
            j += 1
            if depth == 0: return j
    def turbofish(self):
        """::<F> / ::<F, _>  (the instance is the environment's F; `_` is the Algorithm)"""
        if self.eat('::', '<'):
            if self.eat('F', '>') or self.eat('F', ',', '_', '>'):
                return
            raise Broken('generic arguments outside the subset at `%s`' % self.here())

    # ---- expressions: -> (ast, type) ---------------------------------------------------------
    # In condition position (`if E {`, `match E {`) a struct literal is not allowed by Rust either: nostruct=True.
    def expr(self, scope, nostruct=False):
        save = self.nostruct
        self.nostruct = nostruct
        try:
            return self.e_or(scope)
        finally:
            self.nostruct = save
    def e_or(self, scope):
        a, ta = self.e_and(scope)
        while self.eat('||'):
            b, tb = self.e_and(scope)
            unify(ta, 'bool', '||'); unify(tb, 'bool', '||')
            a, ta = ('or', a, b), 'bool'
        return a, ta
    def e_and(self, scope):
        a, ta = self.e_cmp(scope)
        while self.eat('&&'):
            b, tb = self.e_cmp(scope)
            unify(ta, 'bool', '&&'); unify(tb, 'bool', '&&')
            a, ta = ('and', a, b), 'bool'
        return a, ta
    def e_cmp(self, scope):
        a, ta = self.e_bor(scope)
        ops = {'==': 'CEq', '!=': 'CNe', '<': 'CLt', '<=': 'CLe', '>': 'CGt', '>=': 'CGe'}
        if self.peek() in ops:
            op = self.peek(); self.i += 1
            b, tb = self.e_bor(scope)
            t = unify(ta, tb, 'comparison %s' % op)
            if not is_int(t):
                raise Broken('comparison %s of %s values' % (op, tyname(t)))
            if self.peek() in ops:
                raise Broken('chained comparison')
            return ('cmp', ops[op], a, b), 'bool'
        return a, ta
    def bitop(self, op, a, ta, b, tb):
        t = unify(ta, tb, 'operator %s' % op)
        if not is_unsigned(t):
            raise Broken('operator %s on %s' % (op, tyname(t)))
        if isinstance(resolve(t), Cell): self.shift_lhs.append(t)
        return ('bin', {'&': 'OAnd', '|': 'OOr', '^': 'OXor'}[op], a, b), t
    def e_bor(self, scope):
        a, ta = self.e_bxor(scope)
        while self.at('|') and not self.at('|', '|'):
            self.i += 1
            b, tb = self.e_bxor(scope)
            a, ta = self.bitop('|', a, ta, b, tb)
        return a, ta
    def e_bxor(self, scope):
        a, ta = self.e_band(scope)
        while self.eat('^'):
            b, tb = self.e_band(scope)
            a, ta = self.bitop('^', a, ta, b, tb)
        return a, ta
    def e_band(self, scope):
        a, ta = self.e_shift(scope)
        while self.at('&') and not self.at('&', '&'):
            self.i += 1
            b, tb = self.e_shift(scope)
            a, ta = self.bitop('&', a, ta, b, tb)
        return a, ta
    def shift(self, op, a, ta, b, tb):
        if not is_unsigned(ta):
            raise Broken('shift %s of a %s (only unsigned operands are in the subset)' % (op, tyname(ta)))
        if not (is_int(tb) and resolve(tb) != 'FU'):
            raise Broken('shift amount of type %s' % tyname(tb))
        if isinstance(resolve(ta), Cell): self.shift_lhs.append(ta)
        return ('bin', {'<<': 'OShl', '>>': 'OShr'}[op], a, b), ta
    def e_shift(self, scope):
        a, ta = self.e_add(scope)
        while self.peek() in ('<<', '>>'):
            op = self.peek(); self.i += 1
            b, tb = self.e_add(scope)
            a, ta = self.shift(op, a, ta, b, tb)
        return a, ta
    def arith(self, op, a, ta, b, tb):
        t = unify(ta, tb, 'operator %s' % op)
        if not is_int(t):
            raise Broken('operator %s on %s' % (op, tyname(t)))
        return ('bin', {'+': 'OAdd', '-': 'OSub', '*': 'OMul', '/': 'ODiv', '%': 'ORem'}[op], a, b), t
    def e_add(self, scope):
        a, ta = self.e_mul(scope)
        while self.peek() in ('+', '-'):
            op = self.peek(); self.i += 1
            b, tb = self.e_mul(scope)
            a, ta = self.arith(op, a, ta, b, tb)
        return a, ta
    def e_mul(self, scope):
        a, ta = self.e_cast(scope)
        while self.peek() in ('*', '/', '%'):
            op = self.peek(); self.i += 1
            b, tb = self.e_cast(scope)
            a, ta = self.arith(op, a, ta, b, tb)
        return a, ta
    def e_cast(self, scope):
        a, ta = self.e_unary(scope)
        while self.eat('as'):
            t = self.peek(); self.i += 1
            src = resolve(ta)
            if isinstance(src, Cell):
                raise Broken('`as %s` applied to an integer literal of unknown width' % t)
            if src not in INT_TYPES and src != 'FU':
                raise Broken('`as %s` applied to a value of type %s' % (t, tyname(src)))
            if t in INT_TYPES:
                a, ta = ('cast', a, ('int', t)), t
            elif t == 'char' and src == 'u8':
                a, ta = a, 'char'
            else:
                raise Broken('cast to %s' % t)
        return a, ta
    def e_unary(self, scope):
        if self.eat('-'):
            a, ta = self.e_unary(scope)
            if resolve(ta) == 'i32':
                return ('neg', a), ta
            raise Broken('unary minus on %s' % tyname(ta))
        if self.eat('!'):
            a, ta = self.e_unary(scope)
            unify(ta, 'bool', '!')
            return ('not', a), 'bool'
        if self.at('&') and not self.at('&', '&'):
            self.i += 1
            if self.at('mut'):
                raise Broken('`&mut` outside an argument position at `%s`' % self.here())
            a, ta = self.e_unary(scope)
            if resolve(ta) != 'EF':
                raise Broken('`&` of a %s' % tyname(ta))
            return a, ta                      # a shared reference to an ExtendedFloat is used by value
        return self.e_postfix(scope)
    def args_by_value(self, scope, want, what):
        args = []
        while not self.at(')'):
            args.append(self.expr(scope))
            if not self.at(')'): self.need(',')
        self.need(')')
        if len(args) != len(want):
            raise Broken('%s called with %d arguments, its signature has %d' % (what, len(args), len(want)))
        for k, ((a, ta), w) in enumerate(zip(args, want)):
            unify(ta, w, 'argument %d of %s' % (k + 1, what))
        return [a for a, _ in args]
    def pure_call(self, f, recv, scope):
        """f(args) with all parameters by value -> (ast, type);  `(` already consumed; recv: the receiver (ast, type) of a method call"""
        if f in EXTERN:
            want, ret = EXTERN[f]
        else:
            modes, want, ret = self.ctx['sigs'][f]
            if 'mut' in modes:
                raise Broken('%s(..) has a `&mut` parameter: such a call must be a statement of its own' % f)
        if recv is not None:
            unify(recv[1], want[0], 'receiver of %s' % f)
            args = [recv[0]] + self.args_by_value(scope, want[1:], f)
        else:
            args = self.args_by_value(scope, want, f)
        return ('call', f, args), ret
    def e_postfix(self, scope):
        a, ta = self.e_primary(scope)
        while True:
            t = resolve(ta)
            if self.at('[') and isinstance(t, tuple) and t[0] == 'tab':
                self.i += 1
                i, ti = self.expr(scope)
                self.need(']')
                unify(ti, 'usize', 'index of %s' % t[1])
                a, ta = ('tabget', a, '', i), TABLES[t[1]]
                continue
            if not self.at('.'):
                return a, ta
            if self.peek(1) in ('0', '1'):
                if not (isinstance(t, tuple) and t[0] == 'tup'):
                    raise Broken('.%s of a %s' % (self.peek(1), tyname(t)))
                k = int(self.peek(1)); self.i += 2
                a, ta = ('proj', a, k == 1), t[1 + k]
                continue
            if not IDENT.match(self.peek(1)):
                raise Broken('field or method expected at `%s`' % self.here())
            m = self.peek(1)
            if self.peek(2) != '(' and not (self.peek(2) == '::' and self.peek(3) == '<'):
                # field access
                self.i += 2
                if t == 'EF' and m in ('mant', 'exp'):
                    a, ta = ('field', a, 'FMant' if m == 'mant' else 'FExp'), ('u64' if m == 'mant' else 'i32')
                elif t == 'PW' and m in ('bias', 'step'):
                    a, ta = ('tabfield', a, m), 'i32'
                elif t == 'PW' and m == 'large' and self.eat('.', 'len', '(', ')'):
                    a, ta = ('tabfield', a, 'large.len'), 'usize'
                else:
                    raise Broken('field .%s of a %s' % (m, tyname(t)))
                continue
            self.i += 2
            self.turbofish()
            self.need('(')
            if t == 'PW' and m in ('get_small_int', 'get_small', 'get_large'):
                i, ti = self.expr(scope)
                self.need(')')
                unify(ti, 'usize', 'argument of %s' % m)
                a, ta = ('tabget', a, m[4:], i), ('u64' if m == 'get_small_int' else 'EF')
            elif t == 'char' and m == 'to_digit':
                self.need('10', ')')
                a, ta = ('m1', 'MToDigit10', a), ('opt', 'u32')
            elif m == 'leading_zeros':
                self.need(')')
                if t != 'u64': raise Broken('.leading_zeros() on %s' % tyname(t))
                a, ta = ('m1', 'MLeadingZeros', a), 'u32'
            elif m == 'as_u64':
                self.need(')')
                if t not in ('u32', 'u64', 'usize', 'FU'): raise Broken('.as_u64() on %s' % tyname(t))
                a, ta = ('cast', a, ('int', 'u64')), 'u64'
            elif m == 'to_bits':
                self.need(')')
                if t != 'F': raise Broken('.to_bits() on %s' % tyname(t))
                a, ta = ('m1', 'MToBits', a), 'FU'
            elif m == 'pow10':
                b, tb = self.expr(scope)
                self.need(')')
                if t != 'F': raise Broken('.pow10() on %s' % tyname(t))
                unify(tb, 'i32', 'argument of pow10')
                a, ta = ('m2', 'MPow10', a, b), 'F'
            elif m in M2:
                b, tb = self.expr(scope)
                self.need(')')
                if not (is_int(t) and t != 'FU'): raise Broken('.%s() on %s' % (m, tyname(t)))
                tt = unify(ta, tb, '.%s' % m)
                a = ('m2', M2[m], a, b)
                if m.startswith('checked'): ta = ('opt', tt)
                elif m.startswith('overflowing'): ta = ('tup', tt, 'bool')
                else: ta = tt
            elif t == 'EF' and ('ExtendedFloat::' + m) in self.ctx['sigs']:
                a, ta = self.pure_call('ExtendedFloat::' + m, (a, ta), scope)
            elif t == 'F' and ('Float::' + m) in self.ctx['sigs']:
                a, ta = self.pure_call('Float::' + m, (a, ta), scope)
            else:
                raise Broken('method .%s() on %s is outside the subset' % (m, tyname(t)))
    def value_block(self, scope):
        self.need('{')
        r = self.expr(scope)
        self.need('}')
        return r
    def int_lit(self, tok):
        tok = tok.replace('_', '')
        return int(tok, 16) if tok.startswith('0x') else int(tok)
    def e_primary(self, scope):
        tok = self.peek()
        if tok == '(':
            self.i += 1
            save = self.nostruct; self.nostruct = False
            try:
                a, ta = self.e_or(scope)
                if self.eat(','):
                    b, tb = self.e_or(scope)
                    self.need(')')
                    return ('tuple', a, b), ('tup', ta, tb)
                self.need(')')
                return a, ta
            finally:
                self.nostruct = save
        if re.fullmatch(r'0x[0-9A-Fa-f_]+|\d[\d_]*', tok):
            self.i += 1
            c = Cell()
            return ('int', c, self.int_lit(tok)), c
        if tok in ('true', 'false'):
            self.i += 1
            return ('bool', tok == 'true'), 'bool'
        if tok in INT_TYPES and self.peek(1) == '::':
            if self.peek(2) in ('MAX', 'MIN'):
                self.i += 3
                return ('int', tok, INT_TYPES[tok][1 if self.t[self.i - 1] == 'MAX' else 0]), tok
            if tok == 'u64' and self.peek(2) in self.ctx['u64consts']:
                self.i += 3
                ty, v = self.ctx['u64consts'][self.t[self.i - 1]]
                return ('int', ty, v), ty
            if tok == 'u64' and ('u64::' + self.peek(2)) in self.ctx['sigs']:
                f = 'u64::' + self.peek(2); self.i += 3
                self.turbofish()
                self.need('(')
                return self.pure_call(f, None, scope)
            raise Broken('path %s::%s' % (tok, self.peek(2)))
        if tok in ('F', 'Self') and self.peek(1) == '::':
            if tok == 'Self' and self.selfty != 'F':
                raise Broken('`Self::` outside trait Float')
            n = self.peek(2)
            if n in FCONSTS and self.peek(3) != '(':
                self.i += 3
                return ('const', FCONSTS[n][0]), FCONSTS[n][1]
            if n in FFUNS and self.peek(3) == '(' and self.peek(4) == ')':
                self.i += 5
                return ('const', FFUNS[n][0]), FFUNS[n][1]
            if n == 'as_cast' and self.peek(3) == '(':
                self.i += 4
                a, ta = self.expr(scope); self.need(')')
                unify(ta, 'u64', 'argument of F::as_cast')
                return ('cast', a, ('float',)), 'F'
            if n == 'from_bits' and self.peek(3) == '(':
                self.i += 4
                a, ta = self.expr(scope); self.need(')')
                if resolve(ta) != 'FU': raise Broken('F::from_bits of a %s' % tyname(ta))
                return ('m1', 'MFromBits', a), 'F'
            if n == 'Unsigned' and self.t[self.i + 3:self.i + 6] == ['::', 'as_cast', '(']:
                self.i += 6
                a, ta = self.expr(scope); self.need(')')
                if resolve(ta) not in ('u32', 'u64', 'usize'): raise Broken('F::Unsigned::as_cast of a %s' % tyname(ta))
                return ('cast', a, ('fu',)), 'FU'
            raise Broken('path %s::%s' % (tok, n))
        if self.eat('mem', '::', 'size_of', '::', '<'):
            t = self.peek(); self.i += 1
            self.need('>', '(', ')')
            if t not in INT_TYPES: raise Broken('size_of::<%s>' % t)
            return ('sizeof', t), 'usize'
        if tok == 'ExtendedFloat':
            if self.at('ExtendedFloat', '::', 'get_powers', '(', ')'):
                self.i += 5
                return ('tab', 'BASE10_POWERS'), 'PW'
            if self.peek(1) == '{' and not self.nostruct:
                self.i += 2
                self.need('mant', ':')
                m, tm = self.expr(scope); self.need(',')
                self.need('exp', ':')
                e, te = self.expr(scope); self.eat(',')
                self.need('}')
                unify(tm, 'u64', 'field mant'); unify(te, 'i32', 'field exp')
                return ('struct', m, e), 'EF'
            raise Broken('expression outside the subset at `%s`' % self.here())
        if self.eat('Some', '('):
            a, ta = self.expr(scope); self.need(')')
            return ('some', a), ('opt', ta)
        if self.eat('None'):
            return ('none',), ('opt', Cell(anyty=True))
        if self.eat('if'):
            c, tc = self.expr(scope, nostruct=True)
            unify(tc, 'bool', 'if condition')
            a, ta = self.value_block(scope)
            self.need('else')
            b, tb = self.value_block(scope)
            return ('if', c, a, b), unify(ta, tb, 'if branches')
        if tok == 'self' and 'self' in scope:
            self.i += 1
            return ('var', 'self'), scope['self']
        if tok in TABLES and tok not in scope:
            self.i += 1
            return ('tab', tok), ('tab', tok)
        if self.is_ident():
            x = self.ident()
            if self.at('(') or (self.at('::', '<') ):
                if x in self.ctx['sigs'] or x in EXTERN:
                    self.turbofish()
                    self.need('(')
                    return self.pure_call(x, None, scope)
                raise Broken('call of %s, which is not a translated function' % x)
            if x in scope:
                return ('var', x), scope[x]
            if x in self.ctx['sigs']:
                modes, want, ret = self.ctx['sigs'][x]
                if modes != ['mut', 'val'] or want != ['EF', 'i32'] or ret != 'unit':
                    raise Broken('function item %s is not an Algorithm: FnOnce(&mut ExtendedFloat, i32)' % x)
                return ('fn', x), 'fn'
            raise Broken('unknown variable %s' % x)
        raise Broken('expression outside the subset at `%s`' % self.here())

    # ---- patterns ------------------------------------------------------------------------------
    def pat(self, ty, scope):
        """pattern against a value of type ty; binds into scope"""
        ty = resolve(ty)
        if self.eat('_'): return ('wild',)
        if self.at('true') or self.at('false'):
            unify(ty, 'bool', 'pattern'); self.i += 1
            return ('pbool', self.t[self.i - 1] == 'true')
        if self.eat('None'):
            if not (isinstance(ty, tuple) and ty[0] == 'opt'): raise Broken('pattern None against %s' % tyname(ty))
            return ('pnone',)
        if self.eat('Some', '('):
            if not (isinstance(ty, tuple) and ty[0] == 'opt'): raise Broken('pattern Some against %s' % tyname(ty))
            p = self.pat(ty[1], scope); self.need(')')
            return ('psome', p)
        if self.eat('('):
            if not (isinstance(ty, tuple) and ty[0] == 'tup'): raise Broken('tuple pattern against %s' % tyname(ty))
            p = self.pat(ty[1], scope); self.need(',')
            q = self.pat(ty[2], scope); self.need(')')
            return ('ptup', p, q)
        self.eat('mut')
        x = self.ident()
        if x in self.ctx['patnames']: raise Broken('name %s bound twice in one pattern' % x)
        self.ctx['patnames'].add(x)
        scope[x] = ty
        return ('pvar', x)
    def top_pat(self, ty, scope):
        self.ctx['patnames'] = set()
        return self.pat(ty, scope)

    # ---- calls with a `&mut` argument -----------------------------------------------------------
    def mut_call_ahead(self, scope):
        """is the expression starting here a call of a function with a &mut parameter (or of the Algorithm variable)?"""
        j = self.i
        if self.is_ident() and resolve(scope.get(self.peek())) == 'fn' and self.peek(1) == '(':
            return True
        if self.is_ident() and self.peek() in self.ctx['sigs'] and self.peek() not in scope and self.peek(1) in ('(', '::'):
            return 'mut' in self.ctx['sigs'][self.peek()][0]
        if (self.is_ident() or self.peek() == 'self') and resolve(scope.get(self.peek())) == 'EF' and self.peek(1) == '.' and self.peek(3) in ('(', '::'):
            f = 'ExtendedFloat::' + self.peek(2)
            return f in self.ctx['sigs'] and 'mut' in self.ctx['sigs'][f][0]
        return False
    def mut_arg(self, scope):
        """an argument for a `&mut ExtendedFloat` parameter: x (a `&mut` parameter or self), &mut x"""
        if self.eat('&', 'mut'):
            x = self.ident()
        elif self.eat('self'):
            x = 'self'
        else:
            x = self.ident()
        if resolve(scope.get(x)) != 'EF':
            raise Broken('`&mut` argument %s is not an ExtendedFloat variable' % x)
        return x
    def mut_call(self, scope):
        """-> (callee, [args], return type)"""
        if self.is_ident() and resolve(scope.get(self.peek())) == 'fn':
            x = self.ident()
            callee, modes, want, ret = ('cvar', x), ['mut', 'val'], ['EF', 'i32'], 'unit'
            self.need('(')
            recv = None
        elif self.peek(1) == '.':
            recv = self.mut_arg(scope)
            self.need('.')
            f = 'ExtendedFloat::' + self.peek(); self.i += 1
            self.turbofish()
            self.need('(')
            modes, want, ret = self.ctx['sigs'][f]
            callee = ('cfn', f)
            if modes[0] != 'mut':
                raise Broken('internal: receiver of %s' % f)
        else:
            f = self.ident()
            self.turbofish()
            self.need('(')
            modes, want, ret = self.ctx['sigs'][f]
            callee, recv = ('cfn', f), None
        args, k = [], 0
        if recv is not None:
            args.append(('amut', recv)); k = 1
        while not self.at(')'):
            if k >= len(want): raise Broken('too many arguments in the call of %s' % (callee[1],))
            if modes[k] == 'mut':
                args.append(('amut', self.mut_arg(scope)))
            else:
                a, ta = self.expr(scope)
                unify(ta, want[k], 'argument %d of %s' % (k + 1, callee[1]))
                args.append(('aval', a))
            k += 1
            if not self.at(')'): self.need(',')
        self.need(')')
        if k != len(want): raise Broken('%s called with %d arguments, its signature has %d' % (callee[1], k, len(want)))
        muts = [a[1] for a in args if a[0] == 'amut']
        if len(muts) != 1:
            raise Broken('a call with %d `&mut` arguments (exactly one is in the subset)' % len(muts))
        return callee, args, ret

    # ---- items -------------------------------------------------------------------------------------
    def block(self, tail, scope):
        self.need('{')
        out = self.items(tail, dict(scope))
        self.need('}')
        return out
    def arm_end(self):
        depth, j = 0, self.i
        while j < len(self.t):
            tok = self.t[j]
            if tok in '([{': depth += 1
            elif tok in ')]}':
                if depth == 0: return j
                depth -= 1
            elif tok == ',' and depth == 0:
                return j
            j += 1
        raise Broken('unbalanced match arm')
    def let_match(self, x, scope):
        """let x = match E { PAT => E, PAT => return E, PAT => { item* E } };   (after `match`)"""
        e, te = self.expr(scope, nostruct=True)
        self.need('{')
        arms, ty = [], None
        while not self.at('}'):
            sc2 = dict(scope)
            p = self.top_pat(te, sc2)
            self.need('=>')
            if self.eat('return'):
                r, tr = self.expr(sc2)
                unify(tr, self.ret, 'return value')
                arms.append((p, [('ret', r)], None))
            else:
                v, tv = self.expr(sc2)
                ty = tv if ty is None else unify(ty, tv, 'arms of let %s = match' % x)
                arms.append((p, [], v))
            if not self.at('}'): self.need(',')
        self.need('}', ';')
        if ty is None: raise Broken('let %s = match: no arm has a value' % x)
        return ('letmatch', x, e, arms), ty
    def type_ann(self):
        t = self.peek(); self.i += 1
        if t not in INT_TYPES and t != 'bool':
            raise Broken('type annotation %s' % t)
        return t
    def items(self, tail, scope):
        """tail: the block's value is the function's result"""
        out, done = [], False
        while not self.at('}'):
            if self.i >= len(self.t):
                raise Broken('unexpected end of body')
            if done:
                raise Broken('item after a return / tail expression: `%s`' % self.here())
            if self.eat('debug_assert', '!', '('):
                c, tc = self.expr(scope)
                unify(tc, 'bool', 'debug_assert')
                if self.eat(','):
                    if not self.peek().startswith('"'): raise Broken('debug_assert message')
                    self.i += 1
                self.need(')', ';')
                out.append(('assert', c)); continue
            if self.at('let'):
                self.i += 1
                if self.is_ident() and self.peek(1) == ':' and self.peek(3) == ';':
                    x = self.ident(); self.need(':')
                    scope[x] = self.type_ann(); self.need(';')
                    out.append(('decl', x)); continue
                j = self.i
                while self.t[j] not in ('=', ':'): j += 1          # find the end of the pattern
                ann = None
                if self.t[j] == ':':
                    if self.t[j + 2] != '=': raise Broken('let with a type outside the subset at `%s`' % self.here())
                    save = self.i; self.i = j + 1; ann = self.type_ann(); self.i = save
                    rhs = j + 3
                else:
                    rhs = j + 1
                pstart = self.i
                self.i = rhs
                if self.at('match'):
                    self.i = pstart; self.eat('mut'); x = self.ident()
                    if self.i != j: raise Broken('let PATTERN = match')
                    self.i = rhs + 1
                    st, ty = self.let_match(x, scope)
                    if ann: unify(ty, ann, 'annotated type of %s' % x)
                    scope[x] = ty
                    out.append(st); continue
                if self.mut_call_ahead(scope):
                    callee, args, ty = self.mut_call(scope)
                    self.need(';')
                    after = self.i
                    self.i = pstart
                    p = self.top_pat(ty, scope)
                    if self.i != j: raise Broken('let pattern outside the subset at `%s`' % self.here())
                    self.i = after
                    out.append(('call', p, callee, args)); continue
                e, te = self.expr(scope)
                self.need(';')
                if ann: te = unify(te, ann, 'annotated type')
                after = self.i
                self.i = pstart
                p = self.top_pat(te, scope)
                if self.i != j: raise Broken('let pattern outside the subset at `%s`' % self.here())
                self.i = after
                out.append(('let', p, e)); continue
            # assignment
            lv = self.lvalue_ahead(scope)
            if lv is not None:
                lvast, lty, n = lv
                op = self.t[self.i + n]
                self.i += n + 1
                e, te = self.expr(scope)
                self.need(';')
                if op == '=':
                    unify(lty, te, 'assignment')
                else:
                    cur = ('var', lvast[1]) if lvast[0] == 'lvar' else ('field', ('var', lvast[1]), lvast[2])
                    if op in ('<<=', '>>='):
                        e, te = self.shift(op[:2], cur, lty, e, te)
                    else:
                        e, te = self.arith(op[0], cur, lty, e, te)
                out.append(('assign', lvast, e)); continue
            if self.at('if'):
                # statement `if`; it is the tail iff it has a final else, the block is in tail position and nothing follows
                j, final_else = self.i, False
                while True:
                    while self.t[j:j + 1] != ['{']:
                        if j >= len(self.t): raise Broken('unbalanced if')
                        j += 1
                    j = self.skip_block(j)
                    if self.t[j:j + 1] != ['else']: break
                    j += 1
                    if self.t[j:j + 1] == ['if']: continue
                    j = self.skip_block(j)
                    final_else = True
                    break
                nothing_follows = self.t[j:j + 1] == ['}']
                is_tail = tail and nothing_follows and (final_else or self.ret == 'unit')
                if tail and nothing_follows and not final_else and self.ret != 'unit':
                    raise Broken('tail `if` without else in a function returning a value')
                out.append(self.if_parse(is_tail, scope)); done = is_tail and final_else and self.ret != 'unit'
                continue
            if self.at('match'):
                self.i += 1
                e, te = self.expr(scope, nostruct=True)
                self.need('{')
                j, depth = self.i, 1
                while depth:
                    if j >= len(self.t): raise Broken('unbalanced match')
                    depth += {'{': 1, '}': -1}.get(self.t[j], 0)
                    j += 1
                is_tail = tail and self.t[j:j + 1] == ['}']
                arms = []
                while not self.at('}'):
                    sc = dict(scope)
                    p = self.top_pat(te, sc)
                    self.need('=>')
                    if self.at('{'):
                        body = self.block(is_tail, sc)
                        self.eat(',')
                    else:
                        if not (is_tail and self.ret != 'unit'):
                            raise Broken('value arm of a match outside tail position at `%s`' % self.here())
                        v, tv = self.expr(sc)
                        unify(tv, self.ret, 'match arm value')
                        body = [('ret', v)]
                        if not self.at('}'): self.need(',')
                    arms.append((p, body))
                self.need('}')
                if not arms: raise Broken('match without arms')
                out.append(('match', e, arms))
                done = is_tail and self.ret != 'unit'
                continue
            if self.eat('return'):
                if self.at(';'):
                    out.append(('ret', ('unit',)))
                else:
                    e, te = self.expr(scope)
                    unify(te, self.ret, 'return value')
                    out.append(('ret', e))
                self.need(';')
                done = True; continue
            if self.mut_call_ahead(scope):
                callee, args, ty = self.mut_call(scope)
                if self.eat(';'):
                    out.append(('call', ('wild',), callee, args)); continue
                if not (tail and self.at('}')):
                    raise Broken('call without `;` outside tail position at `%s`' % self.here())
                unify(ty, self.ret, 'tail call')
                out.append(('call', ('pvar', 'ret!'), callee, args))
                if resolve(ty) != 'unit':
                    out.append(('ret', ('var', 'ret!')))
                done = True; continue
            # tail expression
            e, te = self.expr(scope)
            if not (tail and self.at('}')):
                raise Broken('expression statement outside the subset before `%s`' % self.here())
            unify(te, self.ret, 'tail value')
            out.append(('ret', e)); done = True
        return out
    def lvalue_ahead(self, scope):
        """x = | x.mant op= | *x =   ->  (lval ast, type, number of tokens) or None"""
        ASG = ('=', '+=', '-=', '*=', '<<=', '>>=')
        if self.at('*') and (self.is_ident(1) or self.peek(1) == 'self') and self.peek(2) == '=':
            x = self.peek(1)
            if resolve(scope.get(x)) != 'EF': raise Broken('`*%s =`: not a `&mut ExtendedFloat`' % x)
            return ('lderef', x), 'EF', 2
        if (self.is_ident() or self.peek() == 'self') and self.peek() in scope:
            x = self.peek()
            if self.peek(1) in ASG:
                return ('lvar', x), scope[x], 1
            if self.peek(1) == '.' and self.peek(2) in ('mant', 'exp') and self.peek(3) in ASG:
                if resolve(scope[x]) != 'EF': raise Broken('%s.%s: not an ExtendedFloat' % (x, self.peek(2)))
                return ('lfield', x, 'FMant' if self.peek(2) == 'mant' else 'FExp'), ('u64' if self.peek(2) == 'mant' else 'i32'), 3
        return None
    def if_parse(self, is_tail, scope):
        self.need('if')
        c, tc = self.expr(scope, nostruct=True)
        unify(tc, 'bool', 'if condition')
        a = self.block(is_tail, scope)
        if self.eat('else'):
            b = [self.if_parse(is_tail, scope)] if self.at('if') else self.block(is_tail, scope)
            return ('if', c, a, b)
        return ('if', c, a, [])

# ---- Coq output --------------------------------------------------------------------------------
def q(s):
    return '"%s"' % s
def zlit(v):
    return '(%d)' % v if v < 0 else '%d' % v
def coq_expr(e):
    k = e[0]
    if k == 'var': return '(EVar %s)' % q(e[1])
    if k == 'int':
        t = resolve(e[1])
        if isinstance(t, Cell): t = 'i32'                 # Rust's fallback for an integer literal nothing constrains
        lo, hi = INT_TYPES[t]
        if not lo <= e[2] <= hi: raise Broken('literal %d out of range for %s' % (e[2], t))
        return '(EInt %s %s)' % (COQ_ITY[t], zlit(e[2]))
    if k == 'bool': return '(EBool %s)' % ('true' if e[1] else 'false')
    if k == 'unit': return 'EUnit'
    if k == 'bin': return '(EBin %s %s %s)' % (e[1], coq_expr(e[2]), coq_expr(e[3]))
    if k == 'cmp': return '(ECmp %s %s %s)' % (e[1], coq_expr(e[2]), coq_expr(e[3]))
    if k == 'and': return '(EAnd %s %s)' % (coq_expr(e[1]), coq_expr(e[2]))
    if k == 'or': return '(EOr %s %s)' % (coq_expr(e[1]), coq_expr(e[2]))
    if k == 'not': return '(ENot %s)' % coq_expr(e[1])
    if k == 'neg': return '(ENeg %s)' % coq_expr(e[1])
    if k == 'cast':
        t = e[2]
        return '(ECast %s %s)' % (coq_expr(e[1]), 'CFloat' if t[0] == 'float' else 'CUnsignedF' if t[0] == 'fu' else '(CInt %s)' % COQ_ITY[t[1]])
    if k == 'm1': return '(EM1 %s %s)' % (e[1], coq_expr(e[2]))
    if k == 'm2': return '(EM2 %s %s %s)' % (e[1], coq_expr(e[2]), coq_expr(e[3]))
    if k == 'field': return '(EField %s %s)' % (coq_expr(e[1]), e[2])
    if k == 'proj': return '(EProj %s %s)' % (coq_expr(e[1]), 'true' if e[2] else 'false')
    if k == 'struct': return '(EStruct %s %s)' % (coq_expr(e[1]), coq_expr(e[2]))
    if k == 'tuple': return '(ETuple %s %s)' % (coq_expr(e[1]), coq_expr(e[2]))
    if k == 'some': return '(ESome %s)' % coq_expr(e[1])
    if k == 'none': return 'ENone'
    if k == 'fn': return '(EFn %s)' % q(e[1])
    if k == 'const': return '(EConst %s)' % e[1]
    if k == 'sizeof': return '(ESizeOf %s)' % COQ_ITY[e[1]]
    if k == 'tab': return '(ETab %s)' % q(e[1])
    if k == 'tabfield': return '(ETabField %s %s)' % (coq_expr(e[1]), q(e[2]))
    if k == 'tabget': return '(ETabGet %s %s %s)' % (coq_expr(e[1]), q(e[2]), coq_expr(e[3]))
    if k == 'if': return '(EIf %s %s %s)' % (coq_expr(e[1]), coq_expr(e[2]), coq_expr(e[3]))
    if k == 'call': return '(ECall %s [%s])' % (q(e[1]), '; '.join(coq_expr(a) for a in e[2]))
    raise Broken('internal: expr ' + k)
def coq_pat(p):
    k = p[0]
    if k == 'wild': return 'PWild'
    if k == 'pvar': return '(PVar %s)' % q(p[1])
    if k == 'ptup': return '(PTup %s %s)' % (coq_pat(p[1]), coq_pat(p[2]))
    if k == 'pbool': return '(PBool %s)' % ('true' if p[1] else 'false')
    if k == 'psome': return '(PSome %s)' % coq_pat(p[1])
    if k == 'pnone': return 'PNone'
    raise Broken('internal: pat ' + k)
def coq_lval(lv):
    if lv[0] == 'lvar': return '(LVar %s)' % q(lv[1])
    if lv[0] == 'lderef': return '(LDeref %s)' % q(lv[1])
    return '(LField %s %s)' % (q(lv[1]), lv[2])
def coq_arg(a):
    return '(AVal %s)' % coq_expr(a[1]) if a[0] == 'aval' else '(AMut %s)' % q(a[1])
SIMPLE = ('let', 'decl', 'assign', 'call', 'assert', 'ret')
def coq_stmt(s, ind):
    k = s[0]
    if k == 'let': return 'SLet %s %s' % (coq_pat(s[1]), coq_expr(s[2]))
    if k == 'decl': return 'SDeclUninit %s' % q(s[1])
    if k == 'assign': return 'SAssign %s %s' % (coq_lval(s[1]), coq_expr(s[2]))
    if k == 'call':
        c = '(CFn %s)' % q(s[2][1]) if s[2][0] == 'cfn' else '(CVar %s)' % q(s[2][1])
        return 'SCall %s %s [%s]' % (coq_pat(s[1]), c, '; '.join(coq_arg(a) for a in s[3]))
    if k == 'assert': return 'SDebugAssert %s' % coq_expr(s[1])
    if k == 'ret': return 'SRet %s' % coq_expr(s[1])
    if k == 'if': return 'SIf %s %s %s' % (coq_expr(s[1]), coq_block(s[2], ind + 2), coq_block(s[3], ind + 2))
    if k == 'match':
        pad = ' ' * (ind + 2)
        arms = (';\n' + pad).join('(%s, %s)' % (coq_pat(p), coq_block(b, ind + 4)) for p, b in s[2])
        return 'SMatch %s [\n%s%s]' % (coq_expr(s[1]), pad, arms)
    if k == 'letmatch':
        pad = ' ' * (ind + 2)
        arms = (';\n' + pad).join('(%s, (%s, %s))' % (coq_pat(p), coq_block(pre, ind + 4), 'None' if v is None else 'Some %s' % coq_expr(v))
                                   for p, pre, v in s[3])
        return 'SLetMatch %s %s [\n%s%s]' % (q(s[1]), coq_expr(s[2]), pad, arms)
    raise Broken('internal: ' + k)
def coq_block(ss, ind):
    if all(s[0] in SIMPLE for s in ss) and len(ss) <= 1:
        return '[' + '; '.join(coq_stmt(s, ind) for s in ss) + ']'
    pad = ' ' * ind
    return '[\n' + pad + (';\n' + pad).join(coq_stmt(s, ind) for s in ss) + ']'

# ---- reading the source ----------------------------------------------------------------------------
def clean(src):
    """drop whole-line comments and trailing comments (no string literal of the translated files contains `//`)"""
    return '\n'.join(re.sub(r'//.*', '', l) for l in src.split('\n'))

def container_block(src, header):
    ms = [m for m in re.finditer(r'^%s\b[^\n{]*\{' % re.escape(header), src, re.M)]
    if len(ms) != 1:
        raise Broken('expected exactly one `%s`, found %d' % (header, len(ms)))
    return block_at(src, ms[0].end() - 1)[0]

def norm_head(h):
    h = squeeze(h)
    h = re.sub(r'\(\s+', '(', h)
    h = re.sub(r',?\s*\)', ')', h)
    return h

def find_fn(text, name, nested):
    """the definition `fn name` at brace depth 0 of text (nested: text is a `{ .. }` block, depth 1) -> (attrs, generics, params, ret, where, body)"""
    want_depth = 1 if nested else 0
    found = []
    for m in re.finditer(r'^((?:[ \t]*#\[[^\n]*\]\n)*)[ \t]*(?:pub(?:\(crate\))? )?fn %s\b' % re.escape(name), text, re.M):
        pre = text[:m.start()]
        if pre.count('{') - pre.count('}') != want_depth:
            continue
        found.append(m)
    if len(found) != 1:
        raise Broken('expected exactly one definition, found %d' % len(found))
    m = found[0]
    attrs = [squeeze(a) for a in m.group(1).split('\n') if a.strip()]
    for a in attrs:
        if a not in HARMLESS_ATTRS:
            raise Broken('attribute `%s` is not one the translation knows' % a)
    j = m.end()
    # header up to the body `{`: generics, (params), -> ret, where ..
    depth, k = 0, j
    while True:
        if k >= len(text): raise Broken('no body')
        c = text[k]
        if c in '(<[': depth += 1
        elif c in ')>]':
            if not (c == '>' and text[k - 1] == '-'): depth -= 1
        elif c == '{' and depth == 0: break
        elif c == ';' and depth == 0: raise Broken('declaration without a body')
        k += 1
    head = norm_head(text[j:k])
    hm = re.fullmatch(r'(<[^()]*>)?\((.*?)\)(?: -> (.*?))?(?: (where .*))?', head)
    if not hm:
        raise Broken('header `%s` outside the subset' % head)
    body = squeeze(block_at(text, k)[0])
    return hm.group(1) or '', hm.group(2), (hm.group(3) or '').strip(), (hm.group(4) or '').strip(), body

def split_params(text):
    parts, depth, cur = [], 0, ''
    for c in text:
        if c in '([<': depth += 1
        elif c in ')]>': depth -= 1
        if c == ',' and depth == 0:
            parts.append(cur.strip()); cur = ''
        else:
            cur += c
    if cur.strip(): parts.append(cur.strip())
    return parts

def parse_params(ptext, want, selfty, fn):
    """-> [(name, mode, type)]; the TYPES are pinned, the names are the source's"""
    parts = split_params(ptext)
    types, out = [], []
    for k, p in enumerate(parts):
        if p in ('&self', '&mut self', 'mut self', 'self'):
            types.append(p)
            out.append(('self', 'mut' if p == '&mut self' else 'val', selfty))
            continue
        m = re.fullmatch(r'(?:mut )?([a-z_][a-z0-9_]*): (.+)', p)
        if not m: raise Broken('parameter `%s` outside the subset' % p)
        name, ty = m.group(1), m.group(2)
        types.append(ty)
        if ty not in PTYPE: raise Broken('parameter type `%s`' % ty)
        if name == '_': name = '_%d' % k
        out.append((name, 'mut' if ty == '&mut ExtendedFloat' else 'val', PTYPE[ty]))
    if types != want:
        raise Broken('parameter types are %s, the translation assumes %s' % (types, want))
    names = [n for n, _, _ in out]
    if len(set(names)) != len(names): raise Broken('duplicate parameter names')
    return out

def pin(got, want, what):
    if squeeze(got) != want:
        raise Broken('%s is `%s`, the translation assumes `%s`' % (what, squeeze(got)[:300], want[:300]))

def check_pins(rd):
    broken = []
    def item(name, f):
        try: f()
        except (Broken, ValueError, IndexError, AttributeError) as e:
            broken.append(('lexalg:pinned:' + name, str(e)))
    num = clean(rd('num.rs'))
    def as_prim():
        m = re.search(r'macro_rules! as_primitive_impl \{.*?^as_primitive_impl! \{[^}]*\}', num, re.S | re.M)
        if not m: raise Broken('not found')
        pin(m.group(0), PIN_AS_PRIMITIVE, 'as_primitive_impl!')
    item('as_primitive_impl', as_prim)
    def as_cast():
        m = re.search(r'macro_rules! as_cast_impl \{.*?^(?:as_cast_impl!\([^)]*\);\n)+', num, re.S | re.M)
        if not m: raise Broken('not found')
        pin(m.group(0), PIN_AS_CAST, 'as_cast_impl!')
    item('as_cast_impl', as_cast)
    def mant():
        b = container_block(num, 'pub trait Mantissa: Integer')
        if PIN_MANTISSA_TRAIT not in squeeze(b): raise Broken('Mantissa::HALF is not `%s`' % PIN_MANTISSA_TRAIT)
    item('Mantissa', mant)
    for ty, un in (('f32', 'u32'), ('f64', 'u64')):
        def impl(ty=ty, un=un):
            b = container_block(num, 'impl Float for %s' % ty)
            _, _, _, _, body = find_fn(b, 'pow10', True)
            pin(body, PIN_POW10 % (ty.upper(), ty.upper()), '%s::pow10' % ty)
            g, p, r, w, body = find_fn(b, 'pow10', True)
            if (g, p, r, w) != ('', 'self, n: i32', ty, ''): raise Broken('%s::pow10 signature' % ty)
            g, p, r, w, body = find_fn(b, 'from_bits', True)
            if (g, p, r, w, body) != ('', 'u: %s' % un, ty, '', '{ %s::from_bits(u) }' % ty): raise Broken('%s::from_bits' % ty)
            g, p, r, w, body = find_fn(b, 'to_bits', True)
            if (g, p, r, w, body) != ('', 'self', un, '', '{ %s::to_bits(self) }' % ty): raise Broken('%s::to_bits' % ty)
            if not re.search(r'^\s*type Unsigned = %s;' % un, b, re.M): raise Broken('%s::Unsigned is not %s' % (ty, un))
            if not re.search(r'^\s*const ZERO: %s = 0\.0;' % ty, b, re.M): raise Broken('%s::ZERO is not 0.0' % ty)
        item('impl Float for ' + ty, impl)
    def efs():
        pin(container_block(clean(rd('float.rs')), 'pub(crate) struct ExtendedFloat'), PIN_EF_STRUCT, 'struct ExtendedFloat')
    item('struct ExtendedFloat', efs)
    cached = clean(rd('cached.rs'))
    for head, want in PIN_CACHED:
        item(head, lambda head=head, want=want: pin(container_block(cached, head), want, head))
    c80 = clean(rd('cached_float80.rs'))
    for head, want in PIN_CACHED80:
        item(head, lambda head=head, want=want: pin(container_block(c80, head), want, head))
    def bh():
        src = clean(rd('bhcomp.rs'))
        m = re.search(r'^pub\(crate\) fn bhcomp\b', src, re.M)
        if not m: raise Broken('not found')
        j = src.index('{', m.end())
        pin(norm_head(src[m.end():j]), BHCOMP_HEAD, 'signature of bhcomp')
    item('bhcomp', bh)
    def imports():
        # the names the bodies use resolve through these glob imports; POW10_64 and get_powers must not be shadowed elsewhere
        alg = clean(rd('algorithm.rs'))
        for u in ('use super::bhcomp::*;', 'use super::cached::*;', 'use super::errors::*;', 'use super::float::ExtendedFloat;', 'use super::num::*;', 'use super::small_powers::*;'):
            if u not in alg: raise Broken('algorithm.rs lacks `%s`' % u)
    item('imports', imports)
    return broken

def u64_consts(rd):
    num = clean(rd('num.rs'))
    b = container_block(num, 'impl Mantissa for u64')
    out = {}
    for name, ty in (('HIMASK', 'u64'), ('LOMASK', 'u64'), ('FULL', 'i32')):
        m = re.search(r'^\s*const %s: %s = (0x[0-9A-Fa-f]+|\d+);' % (name, ty), b, re.M)
        if not m: raise Broken('u64::%s' % name)
        out[name] = (ty, int(m.group(1), 0))
    if re.search(r'const HALF', b): raise Broken('u64::HALF overridden')
    out['HALF'] = ('i32', out['FULL'][1] // 2)
    return out

def f_unsigned(rd):
    num = clean(rd('num.rs'))
    out = {}
    for ty in ('f32', 'f64'):
        b = container_block(num, 'impl Float for %s' % ty)
        m = re.search(r'^\s*type Unsigned = (u32|u64);', b, re.M)
        if not m: raise Broken('%s::Unsigned' % ty)
        out[ty] = m.group(1)
    return out

def translate(repo):
    def rd(rel):
        with open(os.path.join(repo, 'src', 'lexical', rel), encoding='utf-8') as f:
            return f.read()
    broken = []
    try:
        broken += check_pins(rd)
    except OSError as e:
        broken.append(('lexalg:source', str(e)))
        return None, None, broken
    ctx = {'sigs': {}, 'u64consts': {}}
    try:
        ctx['u64consts'] = u64_consts(rd)
        unsigned = f_unsigned(rd)
    except (Broken, ValueError, IndexError) as e:
        broken.append(('lexalg:u64 constants', str(e)))
        return None, None, broken
    heads = {}
    files = {}
    for name, rel, cont, gen, ptypes, ret, where in SPEC:
        try:
            if rel not in files: files[rel] = clean(rd(rel))
            text = files[rel] if cont is None else container_block(files[rel], cont)
            g, p, r, w, body = find_fn(text, name.split('::')[-1], cont is not None)
            if g != gen: raise Broken('generics are `%s`, the translation assumes `%s`' % (g, gen))
            if r != ret: raise Broken('return type is `%s`, the translation assumes `%s`' % (r, ret))
            if w != where: raise Broken('where clause is `%s`, the translation assumes `%s`' % (w, where))
            params = parse_params(p, ptypes, SELF_TYPE.get(cont), name)
            heads[name] = (params, RTYPE[ret], body, SELF_TYPE.get(cont))
            ctx['sigs'][name] = ([m for _, m, _ in params], [t for _, _, t in params], RTYPE[ret])
        except (Broken, ValueError, IndexError, KeyError) as e:
            broken.append(('lexalg:' + name, str(e)))
    if broken:
        return None, None, broken
    bodies = {}
    for name, rel, cont, gen, ptypes, ret, where in SPEC:
        params, rty, body, selfty = heads[name]
        try:
            p = P(tokenize(body), name, ctx, rty, selfty)
            scope = {n: t for n, _, t in params}
            ss = p.block(True, scope)
            if p.i != len(p.t): raise Broken('trailing text after body')
            for c in p.shift_lhs:
                if isinstance(resolve(c), Cell) or resolve(c) not in UNSIGNED:
                    raise Broken('a bit operation on an integer literal that is not inferred to be unsigned')
            coq_block(ss, 2)                    # forces the literal range errors to surface here
            bodies[name] = ([(n, m) for n, m, _ in params], ss)
        except (Broken, ValueError, IndexError, KeyError) as e:
            broken.append(('lexalg:' + name, str(e)))
    return bodies, (ctx['u64consts'], unsigned), broken

def coq_name(fn):
    return 'LA_' + fn.replace('::', '_')

def emit(bodies, consts):
    u64c, unsigned = consts
    L = ['(* Gen/LexAlgTables.v — GENERATED by tools/translate_lexalg.py from /repo/src/lexical on every run. Do not edit.',
         '   The bodies of the control logic of the float_roundtrip number parser (exponent.rs, digit.rs, shift.rs, rounding.rs, float.rs,',
         '   errors.rs, algorithm.rs, Float::is_special of num.rs), statement by statement (AST and semantics: Model/LexAlgAst.v). *)',
         'From Coq Require Import List ZArith String.', 'From SJ Require Import Base.Bytes Model.LexAlgAst.', 'Import ListNotations.',
         'Local Open Scope string_scope.', 'Local Open Scope Z_scope.', '']
    for name, _, _, _, _, _, _ in SPEC:
        params, ss = bodies[name]
        L.append('Definition %s : fdef := mkFn [%s] %s.' % (coq_name(name), '; '.join('(%s, %s)' % (q(n), 'ByMut' if m == 'mut' else 'ByVal') for n, m in params),
                                                             coq_block(ss, 2)))
        L.append('')
    L.append('(* `impl Mantissa for u64` (folded into the bodies above) and `type Unsigned` of the two Float impls *)')
    for n in ('HIMASK', 'LOMASK', 'FULL', 'HALF'):
        L.append('Definition LA_U64_%s : Z := %d.' % (n, u64c[n][1]))
    L.append('Definition LA_F32_UNSIGNED : ity := %s.' % COQ_ITY[unsigned['f32']])
    L.append('Definition LA_F64_UNSIGNED : ity := %s.' % COQ_ITY[unsigned['f64']])
    L.append('')
    L.append('Definition LEXALG : prog := [')
    L.append(';\n'.join('  (%s, %s)' % (q(name), coq_name(name)) for name, _, _, _, _, _, _ in SPEC))
    L.append('].')
    L.append('')
    return '\n'.join(L)

def main():
    ap = argparse.ArgumentParser()
    ap.add_argument('--repo', default=os.environ.get('VERIF_REPO', '/repo'))
    ap.add_argument('--out', default=os.path.join(os.path.dirname(os.path.abspath(__file__)), '..', 'coq', 'theories', 'Gen', 'LexAlgTables.v'))
    a = ap.parse_args()
    bodies, consts, broken = translate(a.repo)
    for name, why in broken:
        print('BROKEN %s: %s' % (name, why))
    if broken:
        return 3
    text = emit(bodies, consts)
    old = open(a.out).read() if os.path.exists(a.out) else None
    if old != text:
        with open(a.out, 'w') as f:
            f.write(text)
        print('UPDATED ' + os.path.relpath(a.out))
    return 0

if __name__ == '__main__':
    sys.exit(main())
