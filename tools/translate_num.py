#!/usr/bin/env python3
"""translate_num.py — regenerates coq/theories/Gen/NumTables.v from /repo/src/number.rs on every run.

The eight accessors of `Number` (is_i64 is_u64 is_f64 as_i64 as_u64 as_f64 as_i128 as_u128) each have, for the default representation, the shape
    #[cfg(not(feature = "arbitrary_precision"))]
    match self.n { <arm>, ... }
with arms over N::PosInt(x) / N::NegInt(x) / N::Float(x) (possibly `A | B`, binder `_` or a name) and bodies from a tiny expression language:
    true | false | x <= i64::MAX as u64 | Some(x) | Some(x as T) | None | { if x <= i64::MAX as u64 { E } else { E } }
Each match is translated into the AST of Model/NumAst.v (one expression per constructor); Proofs/NumAccSrc.v proves the hand-written accessor models
(Model/Pointer.v, Proofs/NumberAcc.v) equal to the interpretation of the translated arms.  Anything outside the subset: `BROKEN num:<fn>: <why>`, exit 3.
Usage: translate_num.py [--repo /repo] [--out <file>]"""
import re, sys, os, argparse

class Broken(Exception):
    pass

FNS = ['is_i64', 'is_u64', 'is_f64', 'as_i64', 'as_u64', 'as_f64', 'as_i128', 'as_u128']
CTORS = ['PosInt', 'NegInt', 'Float']

def squeeze(s):
    return re.sub(r'\s+', ' ', s).strip()

def block_after(src, i):
    depth = 0
    j = i
    while j < len(src):
        if src[j] == '{': depth += 1
        elif src[j] == '}':
            depth -= 1
            if depth == 0:
                return src[i:j + 1], j + 1
        j += 1
    raise Broken('unbalanced braces')

def expr(s, var):
    s = s.strip()
    if s.endswith(','):
        s = s[:-1].strip()
    if s == 'true': return 'NTrue'
    if s == 'false': return 'NFalse'
    if s == 'None': return 'NNone'
    le = r'%s <= i64::MAX as u64' % re.escape(var) if var else None
    if var and s == '%s <= i64::MAX as u64' % var: return 'NLeI64Max'
    m = re.fullmatch(r'Some\((\w+)(?: as (i64|f64|i128|u128|u64))?\)', s)
    if m:
        if m.group(1) != var:
            raise Broken('Some(%s): not the arm binder %r' % (m.group(1), var))
        return 'NSome ' + {None: 'CastNone', 'i64': 'CastI64', 'f64': 'CastF64', 'i128': 'CastI128', 'u128': 'CastU128', 'u64': 'CastU64'}[m.group(2)]
    m = re.fullmatch(r'\{ if (\w+) <= i64::MAX as u64 \{ (.*?) \} else \{ (.*?) \} \}', s)
    if m and m.group(1) == var:
        return 'NIfLeI64Max (%s) (%s)' % (expr(m.group(2), var), expr(m.group(3), var))
    raise Broken('expression outside the subset: `%s`' % s)

def split_arms(body):
    """body = text between the braces of `match self.n { ... }`, squeezed: split at top-level `N::` arm starts"""
    arms, depth, cur = [], 0, ''
    i = 0
    toks = re.split(r'(?=\bN::\w+\()', body)
    # re-join alternatives `N::A(_) | N::B(_) => e`
    out = []
    for t in toks:
        t = t.strip()
        if not t:
            continue
        if out and out[-1].rstrip().endswith('|'):
            out[-1] = out[-1] + ' ' + t
        else:
            out.append(t)
    return out

def translate_fn(src, fn):
    m = re.search(r'pub fn %s\(&self\) -> [^{]+\{' % fn, src)
    if not m:
        raise Broken('function not found')
    body, _ = block_after(src, m.end() - 1)
    body = squeeze(re.sub(r'//[^\n]*', '', body))
    mm = re.search(r'#\[cfg\(not\(feature = "arbitrary_precision"\)\)\] match self\.n \{', body)
    if not mm:
        raise Broken('no `#[cfg(not(feature = "arbitrary_precision"))] match self.n {` block')
    blk, _ = block_after(body, mm.end() - 1)
    inner = blk[1:-1].strip()
    res = {}
    for arm in split_arms(inner):
        if '=>' not in arm:
            raise Broken('arm without =>: `%s`' % arm)
        pat, e = arm.split('=>', 1)
        alts = [a.strip() for a in pat.split('|')]
        for a in alts:
            pm = re.fullmatch(r'N::(\w+)\((\w+)\)', a)
            if not pm or pm.group(1) not in CTORS:
                raise Broken('pattern outside the subset: `%s`' % a)
            var = None if pm.group(2) == '_' else pm.group(2)
            if len(alts) > 1 and var is not None:
                raise Broken('binder in an or-pattern')
            if pm.group(1) in res:
                raise Broken('constructor %s matched twice' % pm.group(1))
            res[pm.group(1)] = expr(e, var)
    if sorted(res) != sorted(CTORS):
        raise Broken('arms do not cover exactly PosInt / NegInt / Float: %s' % sorted(res))
    return res

def main():
    ap = argparse.ArgumentParser()
    ap.add_argument('--repo', default='/repo')
    ap.add_argument('--out', default=os.path.join(os.path.dirname(os.path.abspath(__file__)), '..', 'coq', 'theories', 'Gen', 'NumTables.v'))
    a = ap.parse_args()
    src = open(os.path.join(a.repo, 'src', 'number.rs'), encoding='utf-8').read()
    src = '\n'.join('' if l.lstrip().startswith('//') else l for l in src.split('\n'))
    tabs, broken = {}, []
    for fn in FNS:
        try:
            tabs[fn] = translate_fn(src, fn)
        except (Broken, ValueError, IndexError) as e:
            broken.append((fn, str(e)))
    for fn, why in broken:
        print('BROKEN num:%s: %s' % (fn, why))
    if broken:
        return 3
    L = ['(* Gen/NumTables.v — GENERATED by tools/translate_num.py from /repo/src/number.rs on every run. Do not edit.',
         '   The default-representation match of each Number accessor: one expression per constructor (PosInt, NegInt, Float). *)',
         'From SJ Require Import Model.NumAst.', '']
    for fn in FNS:
        t = tabs[fn]
        L.append('Definition NUM_%s : nacc := mkNacc (%s) (%s) (%s).' % (fn, t['PosInt'], t['NegInt'], t['Float']))
    text = '\n'.join(L) + '\n'
    old = open(a.out).read() if os.path.exists(a.out) else None
    if old != text:
        open(a.out, 'w').write(text)
        print('UPDATED ' + os.path.relpath(a.out))
    return 0

if __name__ == '__main__':
    sys.exit(main())
