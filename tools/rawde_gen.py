#!/usr/bin/env python3
"""rawde_try.py — standalone differential check of Model/RawDe.v against the real crate.

  implementation side:  /verif/harness/src/bin/sjh_rawde.rs   (build: see BUILD below, feature raw_value)
  model side:           Extract/Driver_rawde.v extracted to OCaml (sjdriver_rawde)

Ops (one case per line, see Extract/Driver_rawde.v):
  rd <cfg> <ty> <hex text>    T::deserialize(&*raw) for raw = from_str::<Box<RawValue>>(text)
  rs <cfg> <ty> <hex text>    from_str::<T>(raw.get())
  rtr <cfg> [<ftab>] <sval>   value::to_raw_value(&x)

Checks, case by case:
  * the implementation's answer (without its ` DIFF-...` suffixes) equals the model's answer, for rd, rs and rtr;
  * the implementation reports ` DIFF-from_str` exactly when the model's rd and rs answers differ;
  * ` DIFF-into_deserializer` and ` DIFF-reparse` never appear.
Cases on which rd and rs differ are listed (they are the instances of the `no end() check` behaviour).

BUILD
  cd /verif/harness && CARGO_NET_OFFLINE=true CARGO_TARGET_DIR=/root/scratch/tgt_prawde \
      cargo build --release --features raw_value --bin sjh_rawde
  mkdir -p /root/scratch/rawde_ocaml && cd /root/scratch/rawde_ocaml && \
      coqc -Q /verif/coq/theories SJ /verif/coq/theories/Extract/Extract_rawde.v -o /root/scratch/rawde_ocaml/Extract_rawde.vo && \
      sed 's/Sjmodel_raw/Sjmodel_rawde/; s/run_raw_line/run_rawde_line/g' /verif/ocaml/driver_raw.ml > driver_rawde.ml && \
      ocamlfind ocamlopt -O2 -w -a -I . sjmodel_rawde.mli sjmodel_rawde.ml driver_rawde.ml -o sjdriver_rawde
usage: rawde_try.py [--impl PATH] [--model PATH] [--seed N] [--random N]
"""
import argparse, os, random, subprocess, sys, tempfile

def hx(b):
    return b.hex() if b else '-'

def hn(s):
    return hx(s.encode())

# ---------------------------------------------------------------------------------------------- type programs
INTS = ['i0', 'i1', 'i2', 'i3', 'i4', 'n0', 'n1', 'n2', 'n3', 'n4']
SCALARS = ['v', 'g', 'r', 'b'] + INTS + ['f', 'd', 'c', 's', 'z', 'y', 'u', 'U']
A, B, C, D, a, b_, c_ = hn('A'), hn('B'), hn('C'), hn('D'), hn('a'), hn('b'), hn('c')
ENUM = 'E(%s:u,%s:wi0,%s:t(i0b),%s:S(%s:b))' % (A, B, C, D, a)
STRUCT = 'S(%s:b,%s:oi0)' % (a, b_)
TYPES = list(SCALARS)
TYPES += ['o' + t for t in ['b', 'i0', 'i4', 'n4', 's', 'u', 'v', 'r', 'ab', STRUCT, ENUM]]
TYPES += ['w' + t for t in ['b', 'i4', 'n4', 'd', 's', 'ai0']]
TYPES += ['ooi0', 'owi4', 'woi4', 'oon4', 'wwn4', 'ooob']
TYPES += ['a' + t for t in ['b', 'i0', 'n0', 'i4', 'd', 's', 'v', 'r', 'g', 'oi0', 'ai0', 'u', STRUCT, ENUM, 't(i0b)']]
TYPES += ['t()', 't(i0)', 't(i0,i0)', 't(i0b)', 't(i0,b,s)', 't(ai0,oi0)', 'T()', 'T(i0)', 'T(i0b)', 't(i4)', 't(i0,i4)', 't(r,r)', 't(g)']
TYPES += ['m' + k + v for k in ['s', 'i2', 'n0', 'i4', 'n4', 'b', 'c', 'f', 'd', 'os', 'ws', 'oi0', 'e(%s,%s)' % (A, B)] for v in ['i0', 'b']]
TYPES += ['msv', 'msr', 'msg', 'msmsi0', 'msmsmsb', 'msai0', 'ms' + STRUCT, 'msoi0', 'msi4']
TYPES += ['S()', STRUCT, 'S(%s:b)' % a, 'S(%s:i0,%s:i0,%s:i0)' % (a, b_, c_), 'S(%s:S(%s:s))' % (a, b_), 'S(%s:r,%s:v)' % (a, b_),
          'S(%s:ob,%s:ob)' % (a, b_), 'S(%s:i4)' % a, 'S(%s:ai0,%s:msb)' % (a, b_)]
TYPES += [ENUM, 'E(%s:u)' % A, 'E(%s:wi4)' % A, 'E(%s:wob,%s:u)' % (A, B), 'E(%s:t())' % A, 'E(%s:S())' % A, 'E()', 'E(%s:w%s)' % (A, ENUM)]

# ---------------------------------------------------------------------------------------------- texts
def nums():
    out = ['0', '-0', '1', '-1', '5', '10', '127', '128', '-128', '-129', '255', '256', '32767', '32768', '-32768', '-32769', '65535', '65536']
    for k in [31, 32, 63, 64, 127, 128]:
        for d in [-1, 0, 1]:
            out.append(str(2 ** k + d))
            out.append(str(-(2 ** k) + d))
    out += ['1.5', '-1.5', '1e5', '1E5', '1e+5', '1e-5', '0.0', '-0.0', '0e0', '1.0', '2.50', '1e400', '-1e400', '1e-400', '0.1',
            '1e308', '1.7976931348623157e308', '1.7976931348623159e308', '3.4028235e38', '3.4028236e38', '3.5e38', '16777217', '16777216.5',
            '123456789012345678901234567890', '123456789012345678901234567890123456789012', '0.30000000000000004', '5e-324', '2.5e-324',
            '100000000000000000000', '1' + '0' * 40, '9' * 39, '9' * 38, '-' + '9' * 39, '12345678901234567890.5', '1.5e1', '340282366920938463463374607431768211455.0',
            '0.5', '0e5', '-0e-5', '4.0e0', '1e0', '8.5E+2']
    return out

STRS = ['""', '"a"', '"ab"', '"A"', '"B"', '"C"', '"D"', '"E"', '"é"', '"\\u00e9"', '"\\ud83d\\ude00"', '"\\ud800"', '"\\udc00"', '"\\ud800\\ud800"',
        '"\\n"', '"a\\"b"', '"\\\\"', '"1"', '"-5"', '"true"', '"false"', '"1.5"', '"null"', '"€"', '"\U0001F600"', '"a b"', '"\\u0041"', '"\\/"', '"\\u0000"',
        '"t"', '"f"', '"tru"', '"truex"', '"300"', '"0"', '"-0"', '"01"', '"1e2"', '"340282366920938463463374607431768211455"', '"-170141183460469231731687303715884105728"',
        '" 1"', '"1 "', '"+1"', '"\\u0031"']
ARRS = ['[]', '[ ]', '[1]', '[1,2]', '[1,2,3]', '[1,2,3,4]', '[true]', '[true,false]', '[null]', '[null,null]', '[[1],[2]]', '[1,"a"]', '["a","b"]', '[1.5]', '[255,256]',
        '[ 1 , 2 ]', '[[]]', '[{}]', '[1,[2,[3]]]', '[1,true]', '[1,true,"x"]', '[1,true,"x",null]', '[-1,true]', '[300,true]', '[[1,2],null]', '[[1,2],5]', '[[1,2],5,6]',
        '[1.5,2]', '[1,2.5]', '["a"]', '[0,0,0]', '[1,1.5]', '["\\ud800"]', '[1e400]', '[{"a":true}]', '[{"a":true},{"a":false,"b":3}]', '["A","B"]', '[{"B":1}]',
        '[\n1\n,\n2\n]', '[1 ,2 ]', '[ [ ] ]', '[null,1]', '[[1,true],[2,false]]', '[[1,true],[2]]', '[340282366920938463463374607431768211455]', '[1.0]', '[2,3.5e0]']
OBJS = ['{}', '{ }', '{"a":1}', '{"a":true}', '{"a":true,"b":1}', '{"b":1,"a":true}', '{"a":true,"a":false}', '{"a":true,"c":[1,{"x":null}]}', '{"c":0,"a":false,"d":{}}',
        '{"b":1}', '{"b":null}', '{"a":true,"b":null}', '{"a":true,"b":300}', '{"a":1,"b":2,"c":3}', '{"a":1,"b":2}', '{"a":1,"b":2,"c":3,"d":4}', '{"a":1,"b":2,"c":"x"}',
        '{"A":null}', '{"B":5}', '{"B":500}', '{"C":[1,true]}', '{"C":[1]}', '{"C":[1,true,2]}', '{"D":{"a":false}}', '{"D":{}}', '{"D":[true]}', '{"D":{"a":false,"a":true}}',
        '{"A":1}', '{"E":1}', '{"B":5,"A":null}', '{"A":null,"B":5}', '{"A":null }', '{ "A" : null }', '{"B":1.5}', '{"A":1.5}', '{"A":340282366920938463463374607431768211455}',
        '{"1":true,"2":false}', '{"1":1,"2":2}', '{"-1":1}', '{"1.5":1}', '{"true":1}', '{"false":0,"true":1}', '{"a":{"b":"x"}}', '{"a":{"a":{"a":true}}}', '{"a":{"a":1},"b":{}}',
        '{ "a" : 1 }', '{"a":[1,2],"b":{"x":true}}', '{"a":[1,2],"b":{"x":true,"y":false}}', '{"x":1}', '{"":1}', '{"A":{"B":5}}', '{"A":"B"}', '{"A":true}', '{"B":true}', '{"A":null,"A":null}',
        '{"\\u0061":true}', '{"256":1}', '{"255":1,"0":2}', '{"x":1,"y":2}', '{"ab":1}', '{"340282366920938463463374607431768211455":1}', '{"1e2":1}', '{"1.0":1,"2.5":0}',
        '{"a":"\\ud800"}', '{"a":1e400}', '{"A":[]}', '{"A":{}}', '{"a":null}', '{"a":[true],"b":{"k":true}}', '{"a":true,"b":[1,2]}']

def deep(n, o, c):
    return o * n + c * n

TEXTS = ['null', 'true', 'false'] + nums() + STRS + ARRS + OBJS
TEXTS += [' 1 ', '\n[1]\t', ' {"a":true} ', '\t"a"\r\n', '  null', 'true  ', ' 1.5 ', '\n340282366920938463463374607431768211455 ']
TEXTS += [deep(127, '[', ']'), deep(128, '[', ']'), deep(129, '[', ']'), '[' * 127 + '1' + ']' * 127, '{"a":' * 127 + '1' + '}' * 127, '{"a":' * 128 + '1' + '}' * 128]
# not JSON texts: the capture must fail on both sides
NOT_JSON = ['', ' ', '[', '[1,]', '1 2', 'nul', '{"a"}', '01', '1.', '"a', '[1}', '-', '+1', '{"a":1,}', 'tru', '1e', '.5']

def rand_text(rng, depth=0):
    k = rng.random()
    if depth > 3 or k < 0.35:
        return rng.choice(['null', 'true', 'false'] + nums() + STRS)
    ws = lambda: rng.choice(['', '', '', ' ', '\n', ' \t'])
    if k < 0.7:
        n = rng.randrange(0, 4)
        return '[' + ws() + ','.join(ws() + rand_text(rng, depth + 1) + ws() for _ in range(n)) + ']'
    n = rng.randrange(0, 4)
    keys = ['a', 'b', 'c', 'A', 'B', 'C', 'D', '1', '2', '-3', 'true', 'x']
    return '{' + ws() + ','.join(ws() + '"' + rng.choice(keys) + '"' + ws() + ':' + ws() + rand_text(rng, depth + 1) + ws() for _ in range(n)) + '}'

# ---------------------------------------------------------------------------------------------- rtr cases
def rtr_cases():
    ft15 = 'd3ff8000000000000=312e35'
    out = [('-', s) for s in [
        'T', 'F', 'N', 'OT', 'U', 'u', 'v41;', 'Ia5;', 'Ia-5;', 'Ie-170141183460469231731687303715884105728;', 'Ij340282366920938463463374607431768211455;',
        's-;', 's6162;', 's220a5c;', 's00;', 'y010203;', 'y-;', 'c41;', 'c22;', 'c1f600;', 'nT', 'nOIa1;', 'w41;T', 'w41;N',
        'Q?()', 'Q?(TN)', 'Q2(TN)', 'Q0()', 'Q?(Q?(T)Q?())', 't(TIa1;)', 't()', 'r(T)', 'V41;(TF)', 'V41;()',
        'M?()', 'M?(s61;T)', 'M1(s61;T)', 'M?(s61;Ts62;N)', 'M?(Ia1;T)', 'M?(TT)', 'M?(c41;T)', 'M?(NT)', 'M?(Q?()T)', 'M?(UT)', 'M?(y01;T)', 'M?(s61;M?(s62;Q?(TF)))',
        'M?(t()T)', 'M?(M?()T)', 'M?(Os61;T)', 'M?(ns61;T)', 'M?(v41;T)', 'M?(w41;TT)',
        'R()', 'R(61;T)', 'R(61;T62;Ia-1;)', 'W41;(61;T)', 'W41;()', 'C(6162;6364;)', 'C()',
        'd7ff8000000000000', 'd7ff0000000000000', 'f7fc00000', 'Q?(d7ff8000000000000T)', 'M?(d7ff8000000000000T)']]
    out += [(ft15, 'd3ff8000000000000'), (ft15, 'Q?(d3ff8000000000000T)'), (ft15, 'M?(d3ff8000000000000T)'), (ft15, 'R(61;d3ff8000000000000)'),
            ('f3fc00000=312e35', 'f3fc00000'), ('f3fc00000=312e35', 'M?(f3fc00000T)')]
    return ['rtr - %s %s' % (ft, sv) for ft, sv in out]

# ---------------------------------------------------------------------------------------------- running
def run(binary, lines):
    with tempfile.NamedTemporaryFile('w', suffix='.cases', delete=False) as f:
        f.write('\n'.join(lines) + '\n')
        path = f.name
    try:
        out = subprocess.run([binary, path], capture_output=True, text=True, check=True).stdout.split('\n')
    finally:
        os.unlink(path)
    if out and out[-1] == '':
        out.pop()
    if len(out) != len(lines):
        sys.exit('%s: %d answers for %d cases' % (binary, len(out), len(lines)))
    return out

def main():
    ap = argparse.ArgumentParser()
    ap.add_argument('--impl', default='/root/scratch/tgt_prawde/release/sjh_rawde')
    ap.add_argument('--model', default='/root/scratch/rawde_ocaml/sjdriver_rawde')
    ap.add_argument('--seed', type=int, default=20260930)
    ap.add_argument('--random', type=int, default=4000)
    ap.add_argument('--show', type=int, default=40)
    args = ap.parse_args()
    rng = random.Random(args.seed)

    pairs = [(t, x) for t in TYPES for x in TEXTS]
    pairs += [(t, x) for t in ['b', 'i4', 'v', 'ai0'] for x in NOT_JSON]
    for _ in range(args.random):
        pairs.append((rng.choice(TYPES), rand_text(rng)))
    # a RawValue read with the `u` letter: no effect on rd
    pairs_u = [(t, x) for t in ['v', 'g', 'aai0', 'r'] for x in [deep(127, '[', ']'), deep(128, '[', ']'), deep(200, '[', ']')]]

    rd = ['rd - %s %s' % (t, hx(x.encode('utf-8', 'surrogatepass') if False else x.encode())) for t, x in pairs]
    rd += ['rd u %s %s' % (t, hx(x.encode())) for t, x in pairs_u]
    rs = ['rs' + l[2:] for l in rd]
    rtr = rtr_cases()
    cases = rd + rs + rtr
    print('cases: %d rd + %d rs + %d rtr = %d   (%d type programs, %d fixed texts)' % (len(rd), len(rs), len(rtr), len(cases), len(TYPES), len(TEXTS)))

    impl = run(args.impl, cases)
    model = run(args.model, cases)

    bad, flagged, notflagged, otherdiff = [], [], [], []
    n = len(rd)
    for i, (c, a, m) in enumerate(zip(cases, impl, model)):
        parts = a.split(' DIFF-')
        head, flags = parts[0], parts[1:]
        if head != m:
            bad.append((c, a, m))
        for fl in flags:
            if fl != 'from_str':
                otherdiff.append((c, a, m))
        if i < n:
            model_differs = model[i] != model[n + i]
            if ('from_str' in flags) != model_differs:
                notflagged.append((c, a, 'model rd=%s rs=%s' % (model[i], model[n + i])))
            if 'from_str' in flags:
                flagged.append((c, a, impl[n + i]))
    skipped = sum(1 for a in impl if a in ('SKIP', 'BADCASE')) + sum(1 for m in model if m == 'BADCASE')
    capfail = sum(1 for a in impl[:n] if a == 'capture-failed')
    oks = sum(1 for a in impl[:n] if a.startswith('ok'))
    errs = sum(1 for a in impl[:n] if a.startswith('err'))
    print('rd outcomes (implementation): ok %d, err %d, capture-failed %d; SKIP/BADCASE answers: %d' % (oks, errs, capfail, skipped))
    print('model/implementation disagreements: %d' % len(bad))
    for c, a, m in bad[:args.show]:
        print('  CASE  %s\n    impl  %s\n    model %s' % (c, a, m))
    print('DIFF-from_str flag inconsistent with the model: %d' % len(notflagged))
    for c, a, m in notflagged[:args.show]:
        print('  CASE  %s\n    impl  %s\n    %s' % (c, a, m))
    print('unexpected DIFF-into_deserializer / DIFF-reparse: %d' % len(otherdiff))
    for c, a, m in otherdiff[:args.show]:
        print('  CASE  %s\n    impl  %s' % (c, a))
    print('cases where T::deserialize(&raw) differs from from_str::<T>(raw.get()) (both sides agree on them): %d' % len(flagged))
    seen = set()
    for c, a, s in flagged:
        f = c.split(' ')
        key = (f[2], f[3])
        if key in seen:
            continue
        seen.add(key)
        if len(seen) <= args.show:
            print('  ty %-12s text %-44r raw: %-10s from_str: %s' % (f[2], bytes.fromhex(f[3]).decode(), a.split(' DIFF-')[0], s))
    print('  distinct (type, text) pairs: %d; type programs involved: %s' % (len(seen), ' '.join(sorted({k[0] for k in seen}))))
    ok = not bad and not notflagged and not otherdiff and skipped == 0
    print('RESULT: %s' % ('agree' if ok else 'DISAGREE'))
    sys.exit(0 if ok else 1)

if __name__ == '__main__':
    main()
