#!/usr/bin/env python3
"""pin_src.py <Proofs/File.v> name[=NewName] ... — development-time helper: print pinned copies of the named statements of a proof file, with the
file's own Require lines (so that the statement text parses in Properties/Cxx.v): `Theorem New : <statement text>. Proof. exact File.name. Qed.`"""
import re, sys
path = sys.argv[1]
mod = path.split('/')[-1][:-2]
src = open('/verif/coq/theories/' + path).read()
reqs = re.findall(r'^(?:From SJ )?Require Import[^.]*(?:\.[A-Za-z][^.]*)*\.\s*$', src, re.M)
reqs = [r.strip() for r in re.findall(r'^((?:From \w+ )?Require (?:Import|Export)? ?(?:.|\n)*?\.)\s*$', src, re.M)]
print('\n'.join(reqs))
print('From SJ Require Import Proofs.%s.' % mod)
for sc in re.findall(r'^(?:Local )?Open Scope (string_scope|list_scope|N_scope|Z_scope|nat_scope)\.', src, re.M):
    print('Local Open Scope %s.' % sc)
for a in sys.argv[2:]:
    n, _, new = a.partition('=')
    new = new or n
    m = re.search(r'^(?:Theorem|Lemma|Corollary) %s\b(.*?)\nProof\.' % re.escape(n), src, re.S | re.M)
    assert m, n
    st = m.group(1)
    if not st.lstrip().startswith(':'):
        # binders before the colon: turn `(x : T) ... : stmt` into `forall (x : T) ..., stmt`
        b, _, rest = st.partition(' :\n')
        if not _:
            i = st.rindex(') :') + 1
            b, rest = st[:i], st[i + 2:]
        st = ': forall ' + b.strip() + ',' + rest
    print('Theorem %s %s\nProof. exact (@%s.%s). Qed.\nPrint Assumptions %s.\n' % (new, st.strip(), mod, n, new))
