#!/usr/bin/env python3
"""translate_err.py — regenerates coq/theories/Gen/ErrTables.v from /repo/src/error.rs on every run.

A statement-level translator for serde_json::Error (properties C09 / C10 / C11 / C13: category, line, column, the message text and the position
a custom error recovers from the END of its own message):

    impl Error { line, column, classify, is_io, is_syntax, is_data, is_eof, io_error_kind, syntax, io, fix_position }
    impl From<Error> for io::Error { from }
    impl Display for ErrorCode / Error / ErrorImpl / JsonUnexpected { fmt }
    impl de::Error for Error { custom, invalid_type, invalid_value }     impl ser::Error for Error { custom }
    fn make_error   fn parse_line_col   fn starts_with_digit
    enum ErrorCode, enum Category (variants, arity, derive(PartialEq)), struct Error / ErrorImpl / JsonUnexpected

The bodies are parsed into the AST of Model/ErrAst.v (the subset is described there); Proofs/ErrSrc.v then proves that the hand-written models
(Model/ErrMsg.v, the `category` table of Gen/Tables.v) equal the interpretation of the generated bodies.

Pinned by exact (whitespace-squeezed) text: the `use` lines of the file, the signature of every translated function, its `cfg` attributes
(#[cold], #[inline..], #[doc(hidden)], #[allow(..)] are ignored), the impl headers, the three struct declarations, the derive line of Category.
String literals are NOT squeezed: they reach the generated file byte for byte.
Anything else: `BROKEN err:<what>: <why>`, exit status 3, the previous file is NOT rewritten.

Usage: translate_err.py [--repo /repo] [--out <file>]        (--repo defaults to $VERIF_REPO, then /repo)
"""
import re, sys, os, argparse

class Broken(Exception):
    pass

def squeeze(s):
    return re.sub(r'\s+', ' ', s).strip()

FMT = '(&self, f: &mut fmt::Formatter) -> fmt::Result'
# name, context, squeezed text between `fn <short name>` and the body, parameters (name, kind, passed as &mut), required cfg attributes
FNS = [
    ('Error::line', 'error', '(&self) -> usize', [('self', 'error', False)], ''),
    ('Error::column', 'error', '(&self) -> usize', [('self', 'error', False)], ''),
    ('Error::classify', 'error', '(&self) -> Category', [('self', 'error', False)], ''),
    ('Error::is_io', 'error', '(&self) -> bool', [('self', 'error', False)], ''),
    ('Error::is_syntax', 'error', '(&self) -> bool', [('self', 'error', False)], ''),
    ('Error::is_data', 'error', '(&self) -> bool', [('self', 'error', False)], ''),
    ('Error::is_eof', 'error', '(&self) -> bool', [('self', 'error', False)], ''),
    ('Error::io_error_kind', 'error', '(&self) -> Option<ErrorKind>', [('self', 'error', False)], '#[cfg(feature = "std")]'),
    ('io::Error::from', 'from', '(j: Error) -> Self', [('j', 'error', False)], ''),
    ('Error::syntax', 'error', '(code: ErrorCode, line: usize, column: usize) -> Self',
     [('code', 'val', False), ('line', 'val', False), ('column', 'val', False)], ''),
    ('Error::io', 'error', '(error: io::Error) -> Self', [('error', 'val', False)], ''),
    ('Error::fix_position', 'error', '<F>(self, f: F) -> Self where F: FnOnce(ErrorCode) -> Error,',
     [('self', 'error', False), ('f', 'closure', False)], ''),
    ('ErrorCode::fmt', 'disp_code', FMT, [('self', 'val', False), ('f', 'fmt', True)], ''),
    ('Error::fmt', 'disp_error', FMT, [('self', 'error', False), ('f', 'fmt', True)], ''),
    ('ErrorImpl::fmt', 'disp_impl', FMT, [('self', 'val', False), ('f', 'fmt', True)], ''),
    ('JsonUnexpected::fmt', 'disp_unexp', '(&self, formatter: &mut fmt::Formatter) -> fmt::Result',
     [('self', 'val', False), ('formatter', 'fmt', True)], ''),
    ('de::Error::custom', 'de', '<T: Display>(msg: T) -> Error', [('msg', 'val', False)], ''),
    ('de::Error::invalid_type', 'de', '(unexp: de::Unexpected, exp: &dyn de::Expected) -> Self', [('unexp', 'val', False), ('exp', 'val', False)], ''),
    ('de::Error::invalid_value', 'de', '(unexp: de::Unexpected, exp: &dyn de::Expected) -> Self', [('unexp', 'val', False), ('exp', 'val', False)], ''),
    ('ser::Error::custom', 'ser', '<T: Display>(msg: T) -> Error', [('msg', 'val', False)], ''),
    ('make_error', 'free', '(mut msg: String) -> Error', [('msg', 'val', False)], ''),
    ('parse_line_col', 'free', '(msg: &mut String) -> Option<(usize, usize)>', [('msg', 'val', True)], ''),
    ('starts_with_digit', 'free', '(slice: &str) -> bool', [('slice', 'val', False)], ''),
]
FN = {n: (ctx, head, params, cfg) for n, ctx, head, params, cfg in FNS}
FREE = [n for n, ctx, *_ in FNS if ctx == 'free']
# context -> (regex of the impl header, the squeezed attribute text required in front of it)
HEADERS = {
    'error': (r'^impl Error\s*\{', ''),
    'from': (r'^impl From<Error> for io::Error\s*\{', '#[cfg(feature = "std")]'),
    'disp_code': (r'^impl Display for ErrorCode\s*\{', ''),
    'disp_error': (r'^impl Display for Error\s*\{', ''),
    'disp_impl': (r'^impl Display for ErrorImpl\s*\{', ''),
    'disp_unexp': (r"^impl<'a> Display for JsonUnexpected<'a>\s*\{", ''),
    'de': (r'^impl de::Error for Error\s*\{', ''),
    'ser': (r'^impl ser::Error for Error\s*\{', ''),
}
USES = ('use crate::io; use alloc::boxed::Box; use alloc::string::{String, ToString}; use core::fmt::{self, Debug, Display}; use core::result; '
        'use core::str::FromStr; use serde::{de, ser}; #[cfg(feature = "std")] use std::error; #[cfg(feature = "std")] use std::io::ErrorKind;')
STRUCTS = [
    ('Error', 'pub struct Error { err: Box<ErrorImpl>, }', ['err']),
    ('ErrorImpl', 'struct ErrorImpl { code: ErrorCode, line: usize, column: usize, }', ['code', 'line', 'column']),
    ('JsonUnexpected', "struct JsonUnexpected<'a>(de::Unexpected<'a>);", ['0']),
]
ENUMS = [('ErrorCode', r'^pub\(crate\) enum ErrorCode\s*\{', None),
         ('Category', r'^pub enum Category\s*\{', '#[derive(Copy, Clone, PartialEq, Eq, Debug)]')]
IGNORED_ATTR = re.compile(r'#\[(cold|inline(\([a-z]+\))?|doc\(hidden\)|allow\([^\]]*\))\]\Z')
# enums named in paths: path (joined by ::) -> type name of the AST
ENUM_PATHS = {'ErrorCode': 'ErrorCode', 'Category': 'Category', 'ErrorKind': 'ErrorKind', 'de::Unexpected': 'Unexpected'}
PRELUDE = {'Some': ('Option', 1), 'None': ('Option', 0), 'Ok': ('Result', 1), 'Err': ('Result', 1)}
METHOD_PRIMS = {'len': ('PLen', 0), 'rfind': ('PRfind', 1), 'starts_with': ('PStartsWith', 1), 'as_bytes': ('PAsBytes', 0), 'first': ('PFirst', 0),
                'unwrap_or': ('PUnwrapOr', 1), 'into_boxed_str': ('PIntoBoxedStr', 0), 'kind': ('PIoKind', 0)}
PATH_PRIMS = {'Box::new': ('PBoxNew', 1), 'usize::from_str': ('PUsizeFromStr', 1), 'io::Error::new': ('PIoErrorNew', 2)}
CMPS = {'==': 'OEq', '<': 'OLt', '<=': 'OLe', '>=': 'OGe', '>': 'OGt'}
KEYWORDS = {'_', 'self', 'let', 'mut', 'if', 'else', 'match', 'while', 'loop', 'return', 'as', 'true', 'false', 'fn', 'for', 'in', 'break',
            'continue', 'ref', 'move', 'unsafe', 'static', 'const', 'use', 'Self', 'where', 'impl', 'dyn'}

TOKEN = re.compile(r"""\s*("(?:[^"\\]|\\.)*"|b'(?:\\x[0-9a-fA-F]{2}|\\.|[^\\'])'|[0-9][0-9_]*(?:usize|u8)?|[A-Za-z_][A-Za-z0-9_]*"""
                   r"""|::|=>|->|==|!=|<=|>=|&&|\|\||\+=|-=|\.\.=|\.\.|[|&+\-<>(){}\[\],;!=.*:#?/%^@])""", re.S)
IDENT = re.compile(r'[A-Za-z_][A-Za-z0-9_]*\Z')
NUMBER = re.compile(r'([0-9][0-9_]*)(usize|u8)?\Z')
CHARLIT = re.compile(r"'(?:\\x[0-9a-fA-F]{2}|\\u\{[0-9a-fA-F]+\}|\\.|[^\\'])'")
ESC = {'n': 10, 't': 9, 'r': 13, '\\': 92, '"': 34, '0': 0, "'": 39}

def strip_comments(s):
    """drops // comments (doc comments included); aware of string and char literals, so a `//` inside a literal stays"""
    out, i, n = [], 0, len(s)
    while i < n:
        c = s[i]
        if c == '"':
            j = i + 1
            while j < n and s[j] != '"':
                j += 2 if s[j] == '\\' else 1
            out.append(s[i:j + 1]); i = j + 1; continue
        if c == "'":
            m = CHARLIT.match(s, i)
            if m:
                out.append(m.group(0)); i = m.end(); continue
        if s.startswith('//', i):
            while i < n and s[i] != '\n':
                i += 1
            continue
        if s.startswith('/*', i):
            raise Broken('block comment')
        out.append(c); i += 1
    return ''.join(out)

def block_at(src, i):
    """src[i] == '{': the brace-matched block text (string / char literal aware) and the index after it"""
    depth, j, n = 0, i, len(src)
    while j < n:
        c = src[j]
        if c == '"':
            j += 1
            while j < n and src[j] != '"':
                j += 2 if src[j] == '\\' else 1
        elif c == "'":
            m = CHARLIT.match(src, j)
            if m:
                j = m.end(); continue
        elif c == '{':
            depth += 1
        elif c == '}':
            depth -= 1
            if depth == 0:
                return src[i:j + 1], j + 1
        j += 1
    raise Broken('unbalanced braces')

def tokenize(s):
    out, i = [], 0
    s = s.strip()
    while i < len(s):
        m = TOKEN.match(s, i)
        if not m:
            raise Broken('token outside the subset at `%s`' % squeeze(s[i:i + 40]))
        out.append(m.group(1))
        i = m.end()
    return out

def str_value(tok):
    """the bytes of a "..." literal"""
    body, out, i = tok[1:-1], [], 0
    while i < len(body):
        c = body[i]
        if c == '\\':
            e = body[i + 1]
            if e == 'x':
                v = int(body[i + 2:i + 4], 16)
                if v > 127: raise Broken('\\x escape above 7f in a str literal %s' % tok)
                out.append(v); i += 4; continue
            if e == 'u':
                m = re.match(r'\\u\{([0-9a-fA-F_]+)\}', body[i:])
                if not m: raise Broken('escape in %s' % tok)
                out.extend(chr(int(m.group(1).replace('_', ''), 16)).encode('utf-8')); i += m.end(); continue
            if e not in ESC:
                raise Broken('escape \\%s in %s (a line continuation is outside the subset)' % (squeeze(e), tok))
            out.append(ESC[e]); i += 2; continue
        if c in '\n\r':
            raise Broken('line break inside a string literal')
        out.extend(c.encode('utf-8')); i += 1
    return out

def byte_value(tok):
    body = tok[2:-1]
    if body.startswith('\\x'):
        return int(body[2:], 16)
    if body.startswith('\\'):
        if body[1] not in ESC: raise Broken('escape in literal %s' % tok)
        return ESC[body[1]]
    if ord(body) > 127: raise Broken('non-ASCII literal %s' % tok)
    return ord(body)

def format_pieces(tok):
    """the pieces of a format string: ('lit', bytes) / ('arg',); only `{}` placeholders, `{{` and `}}` escapes"""
    bs, out, cur, i = str_value(tok), [], [], 0
    while i < len(bs):
        b = bs[i]
        if b == 123:
            if bs[i + 1:i + 2] == [123]: cur.append(123); i += 2; continue
            if bs[i + 1:i + 2] == [125]:
                out.append(('lit', cur)); out.append(('arg',)); cur = []; i += 2; continue
            raise Broken('format placeholder other than `{}` in %s' % tok)
        if b == 125:
            if bs[i + 1:i + 2] == [125]: cur.append(125); i += 2; continue
            raise Broken('lone `}` in format string %s' % tok)
        cur.append(b); i += 1
    out.append(('lit', cur))
    return out

class P:
    """recursive descent over the token list of one function body"""
    def __init__(self, toks, fn, enums):
        self.t, self.i, self.fn = toks, 0, fn
        self.ctx, _, self.params, _ = FN[fn]
        self.enums = enums
    # ---- token access ----
    def at(self, *lits):
        return self.t[self.i:self.i + len(lits)] == list(lits)
    def eat(self, *lits):
        if self.at(*lits):
            self.i += len(lits)
            return True
        return False
    def here(self):
        return ' '.join(self.t[self.i:self.i + 12])
    def need(self, *lits):
        if not self.eat(*lits):
            raise Broken('expected `%s` at `%s`' % (' '.join(lits), self.here()))
    def peek(self, k=0):
        return self.t[self.i + k] if self.i + k < len(self.t) else ''
    def is_ident(self, k=0):
        return bool(IDENT.match(self.peek(k))) and self.peek(k) not in KEYWORDS
    def ident(self):
        if self.is_ident():
            self.i += 1
            return self.t[self.i - 1]
        raise Broken('identifier expected at `%s`' % self.here())
    def path(self):
        segs = [self.ident()]
        while self.at('::') and self.is_ident(1):
            self.i += 1
            segs.append(self.ident())
        return segs

    # ---- enums ----
    def variant(self, segs, nargs, what):
        """(type, variant) of a path naming an enum variant used with nargs fields, or None"""
        if len(segs) == 1 and segs[0] in PRELUDE:
            ty, ar = PRELUDE[segs[0]]
            if ar != nargs: raise Broken('%s `%s` with %d fields' % (what, segs[0], nargs))
            return ty, segs[0]
        head = '::'.join(segs[:-1])
        if len(segs) >= 2 and head in ENUM_PATHS:
            ty, v = ENUM_PATHS[head], segs[-1]
            if ty in self.enums:
                if v not in self.enums[ty]: raise Broken('%s: `%s` is not a variant of %s' % (what, v, ty))
                if self.enums[ty][v] != nargs: raise Broken('%s %s::%s with %d fields, the variant has %d' % (what, ty, v, nargs, self.enums[ty][v]))
            return ty, v
        return None

    # ---- patterns: (ast, binders) ----
    def pattern(self, sc):
        if self.eat('_'):
            return ('wild',), []
        if self.at('&') or self.at('ref') or self.at('mut') or self.at('('):
            raise Broken('pattern outside the subset at `%s`' % self.here())
        segs = self.path()
        subs = None
        if self.eat('('):
            subs = []
            while not self.at(')'):
                if self.eat('_'): subs.append(None)
                else:
                    self.eat('&')
                    x = self.ident()
                    if x in PRELUDE or self.at('::') or self.at('('): raise Broken('nested pattern at `%s`' % self.here())
                    subs.append(x)
                if not self.at(')'): self.need(',')
            self.need(')')
        if self.at('{') or self.at('@') or self.at('..') or self.at('..='):
            raise Broken('pattern outside the subset at `%s`' % self.here())
        if len(segs) == 1 and subs is None and segs[0] not in PRELUDE:
            x = segs[0]
            if x[0].isupper(): raise Broken('pattern `%s`: an upper-case name without a path (a constant or variant in scope?)' % x)
            return ('bind', x), [x]
        r = self.variant(segs, len(subs or []), 'pattern')
        if r is None:
            raise Broken('pattern path `%s` is not an enum of the subset' % '::'.join(segs))
        return ('variant', r[0], r[1], subs or []), [x for x in (subs or []) if x is not None]
    def or_pattern(self, sc):
        ps = [self.pattern(sc)]
        while self.eat('|'):
            ps.append(self.pattern(sc))
        if self.at('if'):
            raise Broken('match guard')
        if len(ps) > 1 and any(b for _, b in ps):
            raise Broken('binder inside an or-pattern')
        return ps

    # ---- expressions ----
    def args(self, sc, n, what):
        """n comma separated expressions up to and including `)`"""
        out = []
        while not self.at(')'):
            out.append(self.expr(sc))
            if not self.at(')'): self.need(',')
        self.need(')')
        if len(out) != n:
            raise Broken('%s takes %d arguments, %d given' % (what, n, len(out)))
        return out
    def expr(self, sc, nostruct=False):
        a = self.e_cmp(sc, nostruct)
        while self.at('&&'):
            self.i += 1
            a = ('and', a, self.e_cmp(sc, nostruct))
        if self.at('||'):
            raise Broken('`||` is outside the subset')
        return a
    def e_cmp(self, sc, ns):
        a = self.e_add(sc, ns)
        if self.peek() in CMPS:
            op = CMPS[self.peek()]; self.i += 1
            a = ('bin', op, a, self.e_add(sc, ns))
            if self.peek() in CMPS or self.peek() == '!=':
                raise Broken('chained comparison')
        elif self.peek() == '!=':
            raise Broken('`!=` is outside the subset')
        return a
    def e_add(self, sc, ns):
        a = self.e_unary(sc, ns)
        while self.at('+'):
            self.i += 1
            a = ('bin', 'OAdd', a, self.e_unary(sc, ns))
        if self.peek() in ('-', '/', '%', '^', '|', 'as') or (self.peek() == '*'):
            raise Broken('operator `%s` is outside the subset' % self.peek())
        return a
    def e_unary(self, sc, ns):
        if self.eat('!'):
            return ('not', self.e_unary(sc, ns))
        if self.eat('&'):
            if self.eat('mut'):
                x = self.ident()
                if x not in sc: raise Broken('`&mut %s`: unknown variable' % x)
                if self.peek() in ('.', '[', '('): raise Broken('`&mut` of something that is not a plain variable')
                return ('mutref', x)
            e = self.e_unary(sc, ns)
            return e if e[0] in ('from', 'range') else ('ref', e)
        if self.eat('*'):
            return ('deref', self.e_unary(sc, ns))
        if self.at('-'):
            raise Broken('unary minus')
        return self.e_postfix(sc, ns)
    def e_postfix(self, sc, ns):
        a = self.e_primary(sc, ns)
        while True:
            if self.at('.') and NUMBER.match(self.peek(1)) and NUMBER.match(self.peek(1)).group(2) is None:
                a = ('field', a, self.peek(1)); self.i += 2; continue
            if self.at('.') and self.is_ident(1) and self.peek(2) == '(':
                m = self.peek(1); self.i += 3
                if m in METHOD_PRIMS:
                    prim, n = METHOD_PRIMS[m]
                    a = ('prim', prim, [a] + self.args(sc, n, '.%s()' % m)); continue
                if m == 'to_string':
                    self.args(sc, 0, '.to_string()'); a = ('tostring', a); continue
                if m == 'classify':
                    self.args(sc, 0, '.classify()')
                    if a[0] != 'var' or sc.get(a[1]) != 'error': raise Broken('.classify() on something that is not an Error variable')
                    a = ('call', 'Error::classify', [a]); continue
                if m == 'write_str':
                    if a[0] != 'var' or sc.get(a[1]) != 'fmt': raise Broken('.write_str() on something that is not the Formatter parameter')
                    a = ('writestr', a[1], self.args(sc, 1, '.write_str()')[0]); continue
                raise Broken('method `.%s()` is outside the subset' % m)
            if self.at('.') and self.is_ident(1):
                a = ('field', a, self.peek(1)); self.i += 2; continue
            if self.at('['):
                self.i += 1
                lo = self.expr(sc)
                self.need('..')
                if self.eat(']'):
                    a = ('from', a, lo)
                else:
                    hi = self.expr(sc)
                    self.need(']')
                    a = ('range', a, lo, hi)
                continue
            if self.at('?') or self.at('('):
                raise Broken('`%s` after an expression is outside the subset at `%s`' % (self.peek(), self.here()))
            return a
    def fmt_var(self, sc):
        x = self.ident()
        if sc.get(x) != 'fmt': raise Broken('`%s` is not the Formatter parameter' % x)
        return x
    def pieces(self, sc, what):
        """"fmt" (, E)* [,] )  -> the list of piece expressions"""
        if not self.peek().startswith('"'): raise Broken('%s without a literal format string' % what)
        ps = format_pieces(self.peek()); self.i += 1
        es = []
        while self.eat(','):
            if self.at(')'): break
            if self.is_ident() and self.peek(1) == '=': raise Broken('named argument in %s' % what)
            es.append(self.expr(sc))
        self.need(')')
        if len(es) != sum(1 for p in ps if p[0] == 'arg'):
            raise Broken('%s: %d placeholders, %d arguments' % (what, sum(1 for p in ps if p[0] == 'arg'), len(es)))
        out, k = [], 0
        for p in ps:
            if p[0] == 'lit':
                if p[1]: out.append(('str', p[1]))
            else:
                out.append(es[k]); k += 1
        return out
    def e_primary(self, sc, ns):
        if self.eat('('):
            if self.eat(')'): return ('tuple', [])
            es = [self.expr(sc)]
            if self.eat(')'): return es[0]
            while self.eat(','):
                if self.at(')'): break
                es.append(self.expr(sc))
            self.need(')')
            return ('tuple', es)
        tok = self.peek()
        if tok.startswith('"'):
            self.i += 1
            return ('str', str_value(tok))
        if tok.startswith("b'"):
            self.i += 1
            return ('byte', byte_value(tok))
        m = NUMBER.match(tok)
        if m:
            self.i += 1
            if m.group(2) == 'u8': raise Broken('u8 literal %s' % tok)
            v = int(m.group(1).replace('_', ''))
            if v >= 2 ** 64: raise Broken('literal %s does not fit usize' % tok)
            return ('usize', v)
        if tok in ('true', 'false'):
            self.i += 1
            return ('bool', tok == 'true')
        if self.eat('self'):
            if 'self' not in sc: raise Broken('`self` in a function without it')
            return ('var', 'self')
        if tok in ('match', 'if', 'while', 'loop', 'unsafe', 'move', 'return', 'break') or tok in ('|', '||', '{'):
            raise Broken('`%s` in expression position is outside the subset' % tok)
        if not self.is_ident():
            raise Broken('expression outside the subset at `%s`' % self.here())
        segs = self.path()
        name = '::'.join(segs)
        if self.at('::'):
            raise Broken('path `%s::%s..` is outside the subset' % (name, self.peek(1)))
        if self.at('!'):
            self.i += 1
            if name == 'write':
                self.need('(')
                f = self.fmt_var(sc); self.need(',')
                return ('write', f, self.pieces(sc, 'write!'))
            if name == 'format_args':
                self.need('(')
                return ('fmtargs', self.pieces(sc, 'format_args!'))
            raise Broken('macro `%s!` is outside the subset' % name)
        if len(segs) == 1 and name in sc:
            if self.at('('):
                if sc[name] != 'closure': raise Broken('call of `%s`, which is not a closure parameter' % name)
                self.i += 1
                return ('callclosure', name, self.args(sc, 1, 'the closure'))
            return ('var', name)
        if name in FREE and self.at('('):
            self.i += 1
            return self.call(sc, name)
        if name == 'Error::custom' and self.at('('):
            if self.ctx not in ('de', 'ser'): raise Broken('Error::custom outside the impls of de::Error / ser::Error')
            self.i += 1
            return self.call(sc, self.ctx + '::Error::custom')
        if name in PATH_PRIMS and self.at('('):
            self.i += 1
            prim, n = PATH_PRIMS[name]
            return ('prim', prim, self.args(sc, n, name))
        if name == 'Display::fmt' and self.at('('):
            self.i += 1
            e = self.expr(sc); self.need(',')
            f = self.fmt_var(sc); self.eat(','); self.need(')')
            return ('displayfmt', e, f)
        if name == 'ryu::Buffer::new' and self.at('(', ')', '.', 'format', '('):
            self.i += 5
            return ('prim', 'PRyuFormat', self.args(sc, 1, 'ryu format'))
        if name == 'JsonUnexpected' and self.at('('):
            self.i += 1
            return ('struct', 'JsonUnexpected', ['0'], self.args(sc, 1, 'JsonUnexpected'))
        if len(segs) == 1 and name in dict((s, 0) for s, _, _ in STRUCTS) and self.at('{'):
            if ns: raise Broken('struct literal in a condition / scrutinee')
            self.i += 1
            fs, es = [], []
            while not self.at('}'):
                f = self.ident()
                if self.eat(':'): e = self.expr(sc)
                else:
                    if f not in sc: raise Broken('field shorthand `%s`: no such variable' % f)
                    e = ('var', f)
                fs.append(f); es.append(e)
                if not self.at('}'): self.need(',')
            self.need('}')
            decl = [d for s, _, d in STRUCTS if s == name][0]
            if fs != decl: raise Broken('struct literal %s with fields %s (declared, in this order: %s)' % (name, fs, decl))
            return ('struct', name, fs, es)
        nargs, save = 0, self.i
        if self.at('('):
            depth, j, nargs, empty = 0, self.i, 1, self.peek(1) == ')'
            while True:                                    # count the top-level arguments
                if j >= len(self.t): raise Broken('unbalanced parentheses')
                t = self.t[j]
                if t in '([{': depth += 1
                elif t in ')]}':
                    depth -= 1
                    if depth == 0: break
                elif t == ',' and depth == 1: nargs += 1
                j += 1
            if empty and nargs == 1: nargs = 0
            if self.t[j - 1] == ',': nargs -= 1
        r = self.variant(segs, nargs, 'constructor')
        if r is not None:
            es = []
            if self.eat('('):
                es = self.args(sc, nargs, name)
            return ('ctor', r[0], r[1], es)
        raise Broken('name `%s` is outside the subset at `%s`' % (name, self.here()))
    def call(self, sc, f):
        """the arguments of a call of function f of the file (after `(`)"""
        want = FN[f][2]
        es = self.args(sc, len(want), f)
        for e, (p, _, byref) in zip(es, want):
            if byref != (e[0] == 'mutref'):
                raise Broken('argument for parameter `%s` of %s: `&mut` expected exactly when the parameter is `&mut`' % (p, f))
        return ('call', f, es)

    # ---- items ----
    def block(self, tail, sc):
        self.need('{')
        out = self.items(tail, dict(sc))
        self.need('}')
        return out
    def skip_block(self, j):
        if self.t[j:j + 1] != ['{']: raise Broken('`{` expected at `%s`' % ' '.join(self.t[j:j + 8]))
        depth = 0
        while True:
            if j >= len(self.t): raise Broken('unbalanced braces')
            depth += {'{': 1, '}': -1}.get(self.t[j], 0)
            j += 1
            if depth == 0: return j
    def bind(self, sc, xs):
        for x in xs:
            if x in FN or x in PRELUDE: raise Broken('binder `%s` clashes with an item' % x)
            sc[x] = 'val'
    def arm_body(self, tail, sc):
        """after `=>`: a block of items; in tail position every arm ends in a value (SRet) / return / unreachable"""
        if self.at('{'):
            body = self.block(tail, sc)
            self.eat(',')
            return body
        if self.eat('unreachable', '!', '(', ')'):
            body = [('unreachable',)]
        elif self.eat('return'):
            body = [('ret', self.expr(sc))]
        elif tail:
            body = [('ret', self.expr(sc))]
        else:
            raise Broken('arm of a match statement that is not a block at `%s`' % self.here())
        if not self.at('}'): self.need(',')
        return body
    def match_arms(self, tail, sc):
        """{ P | P => body, .. }  ->  [(pattern, body)]"""
        self.need('{')
        arms = []
        while not self.at('}'):
            ps = self.or_pattern(sc)
            self.need('=>')
            sc2 = dict(sc); self.bind(sc2, ps[0][1])
            body = self.arm_body(tail, sc2)
            for p, _ in ps:
                arms.append((p, body))
        self.need('}')
        if not arms: raise Broken('match without arms')
        return arms
    def let_match(self, x, sc):
        """let x = match E { P => E' | return E'' | { items [E'] }, .. };   (after `match`)"""
        scrut = self.expr(sc, nostruct=True)
        self.need('{')
        arms = []
        while not self.at('}'):
            ps = self.or_pattern(sc)
            self.need('=>')
            sc2 = dict(sc); self.bind(sc2, ps[0][1])
            if self.at('{'):
                self.need('{')
                body, tailv = self.items(False, sc2, allow_value=True)
                self.need('}'); self.eat(',')
            else:
                if self.eat('return'): body, tailv = [('ret', self.expr(sc2))], None
                elif self.eat('unreachable', '!', '(', ')'): body, tailv = [('unreachable',)], None
                else: body, tailv = [], self.expr(sc2)
                if not self.at('}'): self.need(',')
            if tailv is None and not (body and body[-1][0] in ('ret', 'unreachable')):
                raise Broken('arm of `let %s = match` has neither a value nor a return' % x)
            for p, _ in ps:
                arms.append((p, body, tailv))
        self.need('}'); self.need(';')
        if not arms: raise Broken('match without arms')
        return ('letmatch', x, scrut, arms)
    def items(self, tail, sc, allow_value=False):
        out, done, value = [], False, None
        while not self.at('}'):
            if self.i >= len(self.t): raise Broken('unexpected end of body')
            if done or value is not None:
                raise Broken('item after a return / tail expression: `%s`' % self.here())
            if self.at('#'): raise Broken('attribute inside a body')
            if self.at('let'):
                self.need('let')
                if self.eat('('):
                    xs = []
                    while not self.at(')'):
                        self.eat('mut'); xs.append(self.ident())
                        if not self.at(')'): self.need(',')
                    self.need(')')
                    if self.at(':'): raise Broken('type annotation on a let')
                    self.need('=')
                    e = self.expr(sc); self.need(';')
                    if len(set(xs)) != len(xs): raise Broken('tuple pattern binds a name twice')
                    self.bind(sc, xs)
                    out.append(('lettuple', xs, e)); continue
                self.eat('mut')
                x = self.ident()
                if self.at(':'): raise Broken('type annotation on `let %s`' % x)
                self.need('=')
                if self.eat('match'):
                    s = self.let_match(x, sc)
                else:
                    if self.at('if'): raise Broken('`let %s = if ..` is outside the subset' % x)
                    s = ('let', x, self.expr(sc)); self.need(';')
                self.bind(sc, [x])
                out.append(s); continue
            if self.is_ident() and self.peek(1) == '+=':
                x = self.ident(); self.i += 1
                if sc.get(x) != 'val': raise Broken('`%s += ..`: not a local variable' % x)
                out.append(('addassign', x, self.expr(sc))); self.need(';'); continue
            if self.is_ident() and self.peek(1) in ('-=', '=') and self.peek(2) != '=':
                raise Broken('assignment `%s` is outside the subset' % self.here())
            if self.is_ident() and self.t[self.i + 1:self.i + 4] == ['.', 'truncate', '(']:
                x = self.ident(); self.i += 3
                if sc.get(x) != 'val': raise Broken('`%s.truncate(..)`: not a local variable' % x)
                e = self.args(sc, 1, '.truncate()')[0]; self.need(';')
                out.append(('truncate', x, e)); continue
            if self.at('if'):
                self.need('if')
                if self.eat('let'):
                    ps = self.or_pattern(sc); self.need('=')
                    c = None
                    scrut = self.expr(sc, nostruct=True)
                else:
                    ps = None
                    c = self.expr(sc, nostruct=True)
                j = self.skip_block(self.i)
                has_else = self.t[j:j + 1] == ['else']
                if has_else and self.t[j + 1:j + 2] == ['if']: raise Broken('else-if chain')
                is_tail = tail and has_else and self.t[self.skip_block(j + 1):self.skip_block(j + 1) + 1] == ['}']
                if ps is not None:
                    sc2 = dict(sc); self.bind(sc2, ps[0][1])
                    a = self.block(is_tail, sc2)
                else:
                    a = self.block(is_tail, sc)
                b = []
                if self.eat('else'):
                    b = self.block(is_tail, sc)
                if ps is not None:
                    out.append(('match', scrut, [(p, a) for p, _ in ps] + [(('wild',), b)]))
                else:
                    out.append(('if', c, a, b))
                done = is_tail
                continue
            if self.at('while'):
                self.need('while')
                if self.at('let'): raise Broken('while let')
                c = self.expr(sc, nostruct=True)
                out.append(('while', c, self.block(False, sc))); continue
            if self.at('match'):
                if not tail: raise Broken('match statement outside tail position')
                self.need('match')
                scrut = self.expr(sc, nostruct=True)
                out.append(('match', scrut, self.match_arms(True, sc)))
                if not self.at('}'): raise Broken('item after the tail match')
                done = True; continue
            if self.eat('return'):
                out.append(('ret', self.expr(sc))); self.need(';'); done = True; continue
            if self.eat('unreachable', '!', '(', ')'):
                self.eat(';'); out.append(('unreachable',)); done = True; continue
            if self.at('for') or self.at('loop') or self.at('break') or self.at('continue') or self.at('use') or self.at('fn') \
               or self.at('const') or self.at('static') or self.at('unsafe') or self.at('{'):
                raise Broken('item outside the subset: `%s`' % self.here())
            e = self.expr(sc)
            if self.at('}') and tail:
                out.append(('ret', e)); done = True; continue
            if self.at('}') and allow_value:
                value = e; continue
            raise Broken('expression statement outside the subset before `%s`' % self.here())
        if tail and not done:
            raise Broken('block in tail position ends without a value')
        if allow_value:
            return out, value
        return out

def parse_body(fn, body, enums):
    p = P(tokenize(body), fn, enums)
    sc = {x: k for x, k, _ in FN[fn][2]}
    ss = p.block(True, sc)
    if p.i != len(p.t):
        raise Broken('trailing text after body')
    return ss

# ---- source access -------------------------------------------------------------------------------------
def attrs_before(text, i):
    """the attribute lines directly in front of position i (start of a line): list of squeezed `#[..]`"""
    out = []
    lines = text[:i].split('\n')
    k = len(lines) - 2                           # lines[-1] is the (empty) text of the line of i before i
    if lines[-1].strip():
        raise Broken('item not at the start of a line')
    while k >= 0 and lines[k].strip().startswith('#['):
        out.insert(0, squeeze(lines[k])); k -= 1
    return out

def fns_in(text):
    """name -> (attributes, squeezed head between `fn name` and the body, comment-free body text) for the fns directly in `text`"""
    out, i = {}, 0
    for m in re.finditer(r'^[ \t]*(?:pub(?:\([a-z]+\))? )?fn (\w+)', text, re.M):
        if m.start() < i:
            continue
        j = text.index('{', m.end())
        semi = text.find(';', m.end())
        if semi != -1 and semi < j:
            raise Broken('fn %s without a body' % m.group(1))
        body, i = block_at(text, j)
        if m.group(1) in out:
            raise Broken('fn %s defined twice' % m.group(1))
        out[m.group(1)] = (attrs_before(text, m.start()), squeeze(text[m.end():j]), body)
    return out

def check_attrs(attrs, want, what):
    rest = [a for a in attrs if not IGNORED_ATTR.match(a)]
    if ' '.join(rest) != want:
        raise Broken('%s carries the attributes `%s`, the model assumes `%s`' % (what, ' '.join(rest), want))

def translate(repo):
    raw = open(os.path.join(repo, 'src', 'error.rs'), encoding='utf-8').read()
    try:
        src = strip_comments(raw)
    except (Broken, IndexError) as e:
        return None, [('err:comments', str(e))]
    src = '\n'.join(l.rstrip() for l in src.split('\n'))
    src = re.sub(r'\n[ \t]*\n+', '\n', src)               # comment lines leave nothing behind
    broken = []
    enums, enum_list, eq_enums, bodies = {}, [], [], {}
    # ---- use lines ----
    try:
        got = ' '.join(squeeze(m.group(0)) for m in re.finditer(r'^(?:#\[[^\n]*\]\n)?use [^;]*;', src, re.M))
        if got != USES:
            raise Broken('the `use` lines are `%s`, the translator resolves names under `%s`' % (got, USES))
        if re.search(r'^[ \t]*(?:pub )?(?:mod\b|macro_rules!|extern\b|static\b|const\b)', src, re.M):
            raise Broken('a mod / macro_rules! / extern / static / const item')
    except (Broken, ValueError, IndexError) as e:
        broken.append(('err:pinned:use', str(e)))
    # ---- structs ----
    flat = squeeze(src)
    for name, text, _ in STRUCTS:
        if flat.count(text) != 1 or len(re.findall(r'\bstruct %s\b' % name, src)) != 1:
            broken.append(('err:pinned:struct ' + name, 'expected exactly once: `%s`' % text))
    # ---- enums ----
    for name, hdr, derive in ENUMS:
        try:
            ms = list(re.finditer(hdr, src, re.M))
            if len(ms) != 1 or len(re.findall(r'\benum %s\b' % name, src)) != 1:
                raise Broken('expected exactly one `%s`' % hdr)
            attrs = attrs_before(src, ms[0].start())
            check_attrs(attrs, derive or '', 'enum ' + name)
            if derive and 'PartialEq' in derive:
                eq_enums.append(name)
            blk = block_at(src, src.index('{', ms[0].end() - 1))[0]
            toks, k, vs = tokenize(blk[1:-1]), 0, {}
            order = []
            while k < len(toks):
                if toks[k] == '#': raise Broken('attribute inside the enum')
                v = toks[k]
                if not IDENT.match(v) or v in KEYWORDS: raise Broken('variant name expected at `%s`' % ' '.join(toks[k:k + 6]))
                k += 1
                ar = 0
                if toks[k:k + 1] == ['(']:
                    depth, ar = 0, 1
                    while True:
                        if toks[k] in '(<': depth += 1
                        elif toks[k] in ')>':
                            depth -= 1
                            if depth == 0: break
                        elif toks[k] == ',' and depth == 1: ar += 1
                        k += 1
                    if toks[k - 1] == ',': ar -= 1
                    k += 1
                elif toks[k:k + 1] in (['{'], ['=']):
                    raise Broken('variant %s with named fields / a discriminant' % v)
                if v in vs: raise Broken('variant %s twice' % v)
                vs[v] = ar; order.append((v, ar))
                if k < len(toks):
                    if toks[k] != ',': raise Broken('`,` expected after variant %s' % v)
                    k += 1
            if not vs: raise Broken('no variants')
            enums[name] = vs; enum_list.append((name, order))
        except (Broken, ValueError, IndexError) as e:
            broken.append(('err:enum ' + name, str(e)))
    if re.search(r'impl[^\n{]*\bPartialEq\b[^\n{]*\bfor\b', src):
        broken.append(('err:pinned:PartialEq', 'a hand-written PartialEq impl (`==` on Category is taken to be the derived one)'))
    if broken:
        return None, broken
    # ---- the functions ----
    tables = {}
    try:
        free_src, i = [], 0
        for m in re.finditer(r'^(?:impl|pub enum|pub\(crate\) enum|pub struct|struct|enum|pub trait|trait)\b[^\n;{]*\{', src, re.M):
            if m.start() < i: continue
            free_src.append(src[i:m.start()])
            i = block_at(src, m.end() - 1)[1]
        free_src.append(src[i:])
        tables['free'] = fns_in(''.join(free_src))
        for ctx, (hdr, want_attrs) in HEADERS.items():
            ms = list(re.finditer(hdr, src, re.M))
            if not ms:
                raise Broken('no `%s`' % hdr)
            if ctx != 'error' and len(ms) != 1:
                raise Broken('%d blocks `%s`' % (len(ms), hdr))
            tab = {}
            for m in ms:
                check_attrs(attrs_before(src, m.start()), want_attrs, 'the block `%s`' % squeeze(m.group(0)))
                for k, v in fns_in(block_at(src, m.end() - 1)[0][1:-1]).items():
                    if k in tab: raise Broken('fn %s defined twice' % k)
                    tab[k] = v
            tables[ctx] = tab
        # every Display impl of the file is one of the translated ones
        disp = [squeeze(m.group(0)) for m in re.finditer(r'^impl(?:<[^>\n]*>)? (?:fmt::)?Display for [^\n{]*\{', src, re.M)]
        if len(disp) != 4:
            raise Broken('the Display impls are %s' % disp)
    except (Broken, ValueError, IndexError) as e:
        return None, [('err:blocks', str(e))]
    for fn, ctx, head_want, _, cfg in FNS:
        short = fn.split('::')[-1]
        try:
            if short not in tables[ctx]:
                raise Broken('function missing')
            attrs, head, body = tables[ctx][short]
            check_attrs(attrs, cfg, 'the function')
            if head != head_want:
                raise Broken('signature is `%s`, the interpreter assumes `%s`' % (head, head_want))
            bodies[fn] = parse_body(fn, body, enums)
        except (Broken, ValueError, IndexError) as e:
            broken.append(('err:' + fn, str(e)))
    return (bodies, enum_list, eq_enums), broken

# ---- Coq output --------------------------------------------------------------------------------------------
def q(s):
    return '"%s"' % s
def nl(bs):
    return '[%s]' % '; '.join(str(b) for b in bs)
def coq_expr(e):
    k = e[0]
    if k == 'usize': return '(EUsize %d)' % e[1]
    if k == 'byte': return '(EByte %d)' % e[1]
    if k == 'bool': return '(EBool %s)' % ('true' if e[1] else 'false')
    if k == 'str': return '(EStrLit %s)' % nl(e[1])
    if k == 'var': return '(EVar %s)' % q(e[1])
    if k == 'mutref': return '(EMutRef %s)' % q(e[1])
    if k == 'field': return '(EField %s %s)' % (coq_expr(e[1]), q(e[2]))
    if k == 'ref': return '(ERef %s)' % coq_expr(e[1])
    if k == 'deref': return '(EDeref %s)' % coq_expr(e[1])
    if k == 'tuple': return '(ETuple %s)' % coq_exprs(e[1])
    if k == 'ctor': return '(ECtor %s %s %s)' % (q(e[1]), q(e[2]), coq_exprs(e[3]))
    if k == 'struct': return '(EStruct %s [%s] %s)' % (q(e[1]), '; '.join(q(f) for f in e[2]), coq_exprs(e[3]))
    if k == 'bin': return '(EBin %s %s %s)' % (e[1], coq_expr(e[2]), coq_expr(e[3]))
    if k == 'and': return '(EAnd %s %s)' % (coq_expr(e[1]), coq_expr(e[2]))
    if k == 'not': return '(ENot %s)' % coq_expr(e[1])
    if k == 'from': return '(ESliceFrom %s %s)' % (coq_expr(e[1]), coq_expr(e[2]))
    if k == 'range': return '(ESliceRange %s %s %s)' % (coq_expr(e[1]), coq_expr(e[2]), coq_expr(e[3]))
    if k == 'prim': return '(EPrim %s %s)' % (e[1], coq_exprs(e[2]))
    if k == 'call': return '(ECall %s %s)' % (q(e[1]), coq_exprs(e[2]))
    if k == 'callclosure': return '(ECallClosure %s %s)' % (q(e[1]), coq_exprs(e[2]))
    if k == 'writestr': return '(EWriteStr %s %s)' % (q(e[1]), coq_expr(e[2]))
    if k == 'displayfmt': return '(EDisplayFmt %s %s)' % (coq_expr(e[1]), q(e[2]))
    if k == 'write': return '(EWrite %s %s)' % (q(e[1]), coq_exprs(e[2]))
    if k == 'fmtargs': return '(EFormatArgs %s)' % coq_exprs(e[1])
    if k == 'tostring': return '(EToString %s)' % coq_expr(e[1])
    raise Broken('internal: expr ' + k)
def coq_exprs(es):
    return '[%s]' % '; '.join(coq_expr(e) for e in es)
def coq_pat(p):
    if p[0] == 'wild': return 'PWild'
    if p[0] == 'bind': return '(PBind %s)' % q(p[1])
    return '(PVariant %s %s [%s])' % (q(p[1]), q(p[2]), '; '.join('None' if x is None else 'Some %s' % q(x) for x in p[3]))
def coq_stmt(s, ind):
    k = s[0]
    pad = ' ' * (ind + 2)
    if k == 'let': return 'SLet %s %s' % (q(s[1]), coq_expr(s[2]))
    if k == 'lettuple': return 'SLetTuple [%s] %s' % ('; '.join(q(x) for x in s[1]), coq_expr(s[2]))
    if k == 'addassign': return 'SAddAssign %s %s' % (q(s[1]), coq_expr(s[2]))
    if k == 'truncate': return 'STruncate %s %s' % (q(s[1]), coq_expr(s[2]))
    if k == 'if': return 'SIf %s %s %s' % (coq_expr(s[1]), coq_block(s[2], ind + 2), coq_block(s[3], ind + 2))
    if k == 'while': return 'SWhile %s %s' % (coq_expr(s[1]), coq_block(s[2], ind + 2))
    if k == 'ret': return 'SRet %s' % coq_expr(s[1])
    if k == 'unreachable': return 'SUnreachable'
    if k == 'letmatch':
        arms = (';\n' + pad).join('(%s, (%s, %s))' % (coq_pat(p), coq_block(body, ind + 4), 'Some %s' % coq_expr(tv) if tv is not None else 'None')
                                  for p, body, tv in s[3])
        return 'SLetMatch %s %s [\n%s%s]' % (q(s[1]), coq_expr(s[2]), pad, arms)
    if k == 'match':
        arms = (';\n' + pad).join('(%s, %s)' % (coq_pat(p), coq_block(b, ind + 4)) for p, b in s[2])
        return 'SMatch %s [\n%s%s]' % (coq_expr(s[1]), pad, arms)
    raise Broken('internal: ' + k)
def coq_block(ss, ind):
    if not ss: return '[]'
    if len(ss) == 1 and ss[0][0] in ('ret', 'unreachable'):
        return '[' + coq_stmt(ss[0], ind) + ']'
    pad = ' ' * ind
    return '[\n' + pad + (';\n' + pad).join(coq_stmt(s, ind) for s in ss) + ']'
def cname(fn):
    return 'ERR_' + fn.replace('::', '_')

def emit(bodies, enum_list, eq_enums):
    L = ['(* Gen/ErrTables.v — GENERATED by tools/translate_err.py from /repo/src/error.rs on every run. Do not edit.',
         '   serde_json::Error: classify and its predicates, line / column, the io::Error conversion, the constructors, fix_position, the four',
         '   Display impls (every message text byte for byte), de::Error / ser::Error custom, invalid_type, invalid_value, make_error,',
         '   parse_line_col, starts_with_digit — statement by statement (AST: Model/ErrAst.v) — and the variants of ErrorCode and Category. *)',
         'From Coq Require Import List NArith String.', 'From SJ Require Import Base.Bytes Model.ErrAst.', 'Import ListNotations.',
         'Local Open Scope string_scope.', 'Local Open Scope N_scope.', '']
    for fn, ctx, _, params, _ in FNS:
        ps = '[%s]' % '; '.join('(%s, %s)' % (q(x), 'true' if byref else 'false') for x, _, byref in params)
        L.append('Definition %s : fdef := mkFn %s %s.' % (cname(fn), ps, coq_block(bodies[fn], 2)))
        L.append('')
    L.append('(* the enums of the file: variant, number of fields *)')
    for name, order in enum_list:
        L.append('Definition ERR_ENUM_%s : list (string * nat) := [%s].' % (name, '; '.join('(%s, %d%%nat)' % (q(v), a) for v, a in order)))
    L.append('')
    L.append('Definition ERR_PROG : prog := mkProg [')
    L.append(';\n'.join('  (%s, %s)' % (q(fn), cname(fn)) for fn, *_ in FNS))
    L.append('] [%s]' % '; '.join('(%s, ERR_ENUM_%s)' % (q(n), n) for n, _ in enum_list))
    L.append('  [%s]' % '; '.join('(%s, [%s])' % (q(n), '; '.join(q(f) for f in fs)) for n, _, fs in STRUCTS))
    L.append('  [%s].' % '; '.join(q(n) for n in eq_enums))
    L.append('')
    return '\n'.join(L)

def main():
    ap = argparse.ArgumentParser()
    ap.add_argument('--repo', default=os.environ.get('VERIF_REPO', '/repo'))
    ap.add_argument('--out', default=os.path.join(os.path.dirname(os.path.abspath(__file__)), '..', 'coq', 'theories', 'Gen', 'ErrTables.v'))
    a = ap.parse_args()
    try:
        res, broken = translate(a.repo)
    except OSError as e:
        res, broken = None, [('err:source', str(e))]
    for name, why in broken:
        print('BROKEN %s: %s' % (name, why))
    if broken:
        return 3
    try:
        text = emit(*res)
    except Broken as e:
        print('BROKEN err:emit: %s' % e)
        return 3
    old = open(a.out).read() if os.path.exists(a.out) else None
    if old != text:
        with open(a.out, 'w') as f:
            f.write(text)
        print('UPDATED ' + os.path.relpath(a.out))
    return 0

if __name__ == '__main__':
    sys.exit(main())
