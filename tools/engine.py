"""engine.py — shared machinery of the checks: builds, sharded execution of the Rust harness and the
extracted Coq model on the same case files, audits, evidence and replay files."""
import os, sys, json, time, subprocess, hashlib, re, shutil, fcntl, random, itertools
from concurrent.futures import ThreadPoolExecutor

VERIF = os.path.abspath(os.path.join(os.path.dirname(os.path.abspath(__file__)), '..'))
REPO = os.environ.get('VERIF_REPO', '/repo')
CACHE = os.path.join(VERIF, '.cache')
COQ = os.path.join(VERIF, 'coq')
NCPU = 16

# harness feature configurations: name -> (cargo features, model cfg letters)
CONFIGS = {
    'def': ([], '-'),
    'po': (['preserve_order'], 'p'),
    'fr': (['float_roundtrip'], 'f'),
    'ap': (['arbitrary_precision'], 'a'),
    'raw': (['raw_value'], '-'),
    'ud': (['unbounded_depth'], '-'),
    'frap': (['float_roundtrip', 'arbitrary_precision'], 'fa'),
    'rawpofr': (['raw_value', 'preserve_order', 'float_roundtrip'], 'pf'),
}

def log(*a):
    print('[check]', *a, file=sys.stderr, flush=True)

def sh(cmd, timeout=3600, cwd=None, env=None):
    e = dict(os.environ)
    e['CARGO_NET_OFFLINE'] = 'true'
    if env:
        e.update(env)
    p = subprocess.run(cmd, shell=isinstance(cmd, str), cwd=cwd, env=e, stdout=subprocess.PIPE,
                       stderr=subprocess.STDOUT, timeout=timeout)
    return p.returncode, p.stdout.decode('utf-8', 'replace')

class Lock:
    def __init__(self, name):
        os.makedirs(CACHE, exist_ok=True)
        self.path = os.path.join(CACHE, name + '.lock')
    def __enter__(self):
        self.f = open(self.path, 'w')
        fcntl.flock(self.f, fcntl.LOCK_EX)
        return self
    def __exit__(self, *a):
        fcntl.flock(self.f, fcntl.LOCK_UN)
        self.f.close()

# ------------------------------------------------------------------ builds
# the translators besides tools/translate.py: (script, generated file under coq/theories/Gen, tag used in BROKEN lines, proof file tied to it)
TRANSLATORS = [
    ('translate_lex.py', 'LexTables', 'lexical', 'Proofs/LexTables.v'),
    ('translate_fmt.py', 'FmtTables', 'fmt', 'Proofs/SerFmt.v'),
    ('translate_num.py', 'NumTables', 'num', 'Proofs/NumAccSrc.v'),
    ('translate_keys.py', 'KeyTables', 'keys', 'Proofs/SerKeys.v'),
    ('translate_eq.py', 'EqTables', 'eq', 'Proofs/PointerEqSrc.v'),
    ('translate_scan.py', 'ScanTables', 'scan', 'Proofs/ScanSrc.v'),
    ('translate_cursor.py', 'CursorTables', 'cursor', 'Proofs/CursorSrc.v'),
    ('translate_ignore.py', 'IgnoreTables', 'ignore', 'Proofs/IgnoreSrc.v'),
    ('translate_ptr.py', 'PtrTables', 'ptr', 'Proofs/PointerSrc.v'),
    ('translate_map.py', 'MapTables', 'map', 'Proofs/MapSrc.v'),
    ('translate_ser.py', 'SerTables', 'ser', 'Proofs/SerSrc.v'),
    ('translate_numparse.py', 'NumParseTables', 'numparse', 'Proofs/NumParseSrc.v'),
    ('translate_vser.py', 'VserTables', 'vser', 'Proofs/VserSrc.v'),
    ('translate_vacc.py', 'VaccTables', 'vacc', 'Proofs/VaccSrc.v'),
    ('translate_str.py', 'StrTables', 'str', 'Proofs/StrSrc.v'),
    ('translate_vde.py', 'VdeTables', 'vde', 'Proofs/VdeSrc.v'),
    ('translate_de.py', 'DeTables', 'de', 'Proofs/DeSrc.v'),
    ('translate_read.py', 'ReadTables', 'read', 'Proofs/ReadSrc.v'),
    ('translate_esc.py', 'EscTables', 'esc', 'Proofs/EscSrc.v'),
    ('translate_strscan.py', 'StrScanTables', 'strscan', 'Proofs/StrScanSrc.v'),
    ('translate_lexalg.py', 'LexAlgTables', 'lexalg', 'Proofs/LexAlgSrc.v'),
    ('translate_stream.py', 'StreamTables', 'stream', 'Proofs/StreamSrc.v'),
    ('translate_numfr.py', 'NumFrTables', 'numfr', 'Proofs/NumFrSrc.v'),
    ('translate_err.py', 'ErrTables', 'err', 'Proofs/ErrSrc.v'),
    ('translate_access.py', 'AccessTables', 'access', 'Proofs/AccessSrc.v'),
]
TRANSLATORS = [t for t in TRANSLATORS if os.path.exists(os.path.join(VERIF, 'tools', t[0]))]

def translate():
    """regenerate Gen/Tables.v from /repo/src; returns list of broken items"""
    if ALT:
        # development-time run against a scratch copy: never rewrite the shared Gen/Tables.v; a changed table is reported as a broken tie
        tmp = os.path.join(CACHE, 'Tables-alt-%s.v' % ALT_TAG)
        rc, out = sh(['python3', os.path.join(VERIF, 'tools', 'translate.py'), '--repo', REPO, '--out', tmp])
        broken = [l for l in out.splitlines() if l.startswith('BROKEN')]
        cur = os.path.join(COQ, 'theories', 'Gen', 'Tables.v')
        if not broken and os.path.exists(tmp) and open(tmp).read() != open(cur).read():
            import difflib
            d = [l for l in difflib.unified_diff(open(cur).read().splitlines(), open(tmp).read().splitlines(), lineterm='', n=0) if l[:1] in '+-' and not l.startswith(('+++', '---'))]
            broken.append('BROKEN tables-changed (theorems about the generated tables would have to be re-proved): ' + ' | '.join(x[:120] for x in d[:4]))
        for script, gen, tagname, proof in TRANSLATORS:
            tl = os.path.join(VERIF, 'tools', script)
            if not os.path.exists(tl):
                continue
            tmp2 = os.path.join(CACHE, '%s-alt-%s.v' % (gen, ALT_TAG))
            rc2, out2 = sh(['python3', tl, '--repo', REPO, '--out', tmp2])
            broken += [l for l in out2.splitlines() if l.startswith('BROKEN')]
            cur2 = os.path.join(COQ, 'theories', 'Gen', gen + '.v')
            def differs():
                return os.path.exists(tmp2) and os.path.exists(cur2) and open(tmp2).read() != open(cur2).read()
            if differs() and (time.sleep(3) or differs()):       # re-read once: a concurrent main-mode run may be rewriting the shared file
                if gen != 'LexTables':
                    import difflib
                    d = [l for l in difflib.unified_diff(open(cur2).read().splitlines(), open(tmp2).read().splitlines(), lineterm='', n=0) if l[:1] in '+-' and not l.startswith(('+++', '---'))]
                    broken.append('BROKEN %s:tables-changed (%s would have to be re-proved against the translated source): ' % (tagname, proof) + ' | '.join(x[:140] for x in d[:4]))
                else:
                    broken.append('BROKEN lexical tables changed (theorems about the generated lexical tables would have to be re-proved)')
        return broken, out
    rc, out = sh(['python3', os.path.join(VERIF, 'tools', 'translate.py'), '--repo', REPO])
    broken = [l for l in out.splitlines() if l.startswith('BROKEN')]
    for script in [t[0] for t in TRANSLATORS]:
        if os.path.exists(os.path.join(VERIF, 'tools', script)):
            rc2, out2 = sh(['python3', os.path.join(VERIF, 'tools', script), '--repo', REPO])
            broken += [l for l in out2.splitlines() if l.startswith('BROKEN')]
            out += out2
    return broken, out

def build_model(targets=None):
    """full .vo build of the requested targets (default: everything) + extraction + OCaml driver.
    Returns (ok, failing_target_log)."""
    with Lock('model'):
        args = [os.path.join(VERIF, 'tools', 'build_model.sh')] + (targets or [])
        rc, out = sh(args, timeout=3400)
        ok = rc == 0 and 'MODEL-OK' in out and 'Error' not in out
        return ok, out

def coq_target_ok(target):
    """is coq/<target> (a .vo) up to date and built?"""
    with Lock('model'):
        rc, out = sh('make -q %s' % target, cwd=COQ)
    return rc == 0

ALT = REPO != '/repo'
ALT_TAG = hashlib.sha1(REPO.encode()).hexdigest()[:8] if ALT else ''

def target_root():
    # development-time only: VERIF_REPO=<scratch worktree> runs the checks against a copy of the repository
    # (seeded-mutation testing) with its own harness copy and build directory, leaving /repo untouched
    return os.path.join(CACHE, 'target-alt-' + ALT_TAG) if ALT else os.path.join(CACHE, 'target')

def harness_dir():
    if not ALT:
        return os.path.join(VERIF, 'harness')
    d = os.path.join(CACHE, 'harness-alt-' + ALT_TAG)
    src = os.path.join(VERIF, 'harness')
    os.makedirs(d, exist_ok=True)
    for root, dirs, files in os.walk(src):
        dirs[:] = [x for x in dirs if x not in ('target',)]
        rel = os.path.relpath(root, src)
        os.makedirs(os.path.join(d, rel), exist_ok=True)
        for f in files:
            sp, dp = os.path.join(root, f), os.path.join(d, rel, f)
            data = open(sp, 'rb').read()
            if f == 'Cargo.toml':
                data = data.replace(b'path = "/repo"', ('path = "%s"' % REPO).encode())
            if f.endswith('.rs'):
                data = data.replace(b'"/repo/', ('"%s/' % REPO).encode())
            if not os.path.exists(dp) or open(dp, 'rb').read() != data:
                open(dp, 'wb').write(data)
    return d

def harness_bin(cfg, name='sjh'):
    return os.path.join(target_root(), cfg, 'release', name)

def build_harness(cfgs):
    """cargo build the harness for each feature configuration from /repo's working tree."""
    res = {}
    def one(cfg):
        feats, _ = CONFIGS[cfg]
        with Lock('cargo-' + cfg):
            hd = harness_dir()
            lock = os.path.join(hd, 'Cargo.lock')
            if not os.path.exists(lock):
                shutil.copy(os.path.join(REPO if os.path.exists(os.path.join(REPO, 'Cargo.lock')) else '/repo', 'Cargo.lock'), lock)
            cmd = ['cargo', 'build', '--release', '--offline', '-q']
            if feats:
                cmd += ['--features', ','.join(feats)]
            rc, out = sh(cmd, cwd=hd, timeout=1700, env={'CARGO_TARGET_DIR': os.path.join(target_root(), cfg)})
            return cfg, rc == 0 and os.path.exists(harness_bin(cfg)), out
    with ThreadPoolExecutor(max_workers=4) as ex:
        for cfg, ok, out in ex.map(one, cfgs):
            res[cfg] = (ok, out)
    return res

# ------------------------------------------------------------------ running cases
def _run_shard(binary, path):
    p = subprocess.run([binary, path], stdout=subprocess.PIPE, stderr=subprocess.PIPE, timeout=3000,
                       preexec_fn=lambda: __import__('resource').setrlimit(__import__('resource').RLIMIT_STACK, (-1, -1)) if False else None)
    return p.stdout.decode('utf-8', 'replace').split('\n')[:-1], p.returncode

def run_lines(binary, lines, tag, nshard=NCPU, stack_unlimited=False):
    """run `binary <shardfile>` over the lines, sharded; returns list of output lines (same order)"""
    if not lines:
        return []
    d = os.path.join(CACHE, 'run', '%s-%d' % (tag, os.getpid()))
    os.makedirs(d, exist_ok=True)
    n = len(lines)
    nshard = max(1, min(nshard, (n + 999) // 1000))
    size = (n + nshard - 1) // nshard
    paths = []
    for i in range(nshard):
        pth = os.path.join(d, 's%d.txt' % i)
        with open(pth, 'w') as f:
            chunk = lines[i * size:(i + 1) * size]
            f.write('\n'.join(chunk))
            f.write('\n')
        paths.append((pth, len(lines[i * size:(i + 1) * size])))
    def one(pn):
        pth, cnt = pn
        cmd = [binary, pth]
        if stack_unlimited:
            cmd = ['sh', '-c', 'ulimit -s unlimited 2>/dev/null || ulimit -s 1000000; exec "$0" "$1"', binary, pth]
        p = subprocess.run(cmd, stdout=subprocess.PIPE, stderr=subprocess.PIPE, timeout=1500)
        out = p.stdout.decode('utf-8', 'replace').split('\n')
        if out and out[-1] == '':
            out = out[:-1]
        if len(out) != cnt:
            # the process died part-way: mark the remaining cases
            out = out + ['CRASH rc=%d' % p.returncode] * (cnt - len(out))
        return out
    with ThreadPoolExecutor(max_workers=NCPU) as ex:
        outs = list(ex.map(one, paths))
    shutil.rmtree(d, ignore_errors=True)
    r = []
    for o in outs:
        r.extend(o)
    return r

def run_impl(cfg, lines, tag='impl', name='sjh'):
    return run_lines(harness_bin(cfg, name), lines, tag + '-' + cfg)

def run_model(lines, tag='model', name='sjdriver'):
    return run_lines(os.path.join(VERIF, 'ocaml', name), lines, tag, stack_unlimited=True)

# ------------------------------------------------------------------ audit
FORBIDDEN = re.compile(r'\b(Admitted|admit|Axiom|Axioms|Parameter|Parameters|Conjecture|Conjectures|Hypothesis|Hypotheses|Variable|Variables)\b|Unset\s+Guard|bypass_check|type-in-type|impredicative-set|Admit\s+Obligations|Unset\s+Universe\s+Checking|Unset\s+Positivity')
ALLOWED_AXIOMS = {
    'ClassicalDedekindReals.sig_not_dec', 'ClassicalDedekindReals.sig_forall_dec',
    'FunctionalExtensionality.functional_extensionality_dep', 'Classical_Prop.classic',
    'Eqdep.Eq_rect_eq.eq_rect_eq', 'JMeq.JMeq_eq',
}

def strip_comments(src):
    out = []
    depth = 0
    i = 0
    while i < len(src):
        if src.startswith('(*', i):
            depth += 1
            i += 2
        elif src.startswith('*)', i) and depth > 0:
            depth -= 1
            i += 2
        else:
            if depth == 0:
                out.append(src[i])
            i += 1
    return ''.join(out)

def audit_sources():
    """grep the whole development for forbidden declarations (Section-local Variable/Hypothesis are allowed
    only inside a Section; we simply forbid them everywhere except files listed with explicit sections)."""
    bad = []
    # the development = the files listed in coq/FILES
    tracked = [os.path.join(COQ, l.strip()) for l in open(os.path.join(COQ, 'FILES')) if l.strip() and not l.startswith('#')]
    for p in tracked:
        if not os.path.exists(p):
            continue
        if True:
            src = strip_comments(open(p, encoding='utf-8').read())
            in_section = 0
            for ln, line in enumerate(src.split('\n'), 1):
                if re.match(r'\s*Section\b', line):
                    in_section += 1
                if re.match(r'\s*End\b', line) and in_section > 0:
                    in_section -= 1
                for m in FORBIDDEN.finditer(line):
                    w = m.group(0)
                    if w.split()[0] in ('Variable', 'Variables', 'Hypothesis', 'Hypotheses') and in_section > 0:
                        continue
                    bad.append('%s:%d: %s' % (os.path.relpath(p, VERIF), ln, w))
    return bad

def property_file_report(pid):
    """compile-time output of Properties/<pid>.v (and companion files Properties/<pid><suffix>.v listed in coq/FILES):
    theorem names and their Print Assumptions"""
    vf = os.path.join(COQ, 'theories', 'Properties', pid + '.v')
    if not os.path.exists(vf):
        return None
    files = [vf]
    try:
        listed = [l.strip() for l in open(os.path.join(COQ, 'FILES')) if l.strip() and not l.startswith('#')]
    except OSError:
        listed = []
    for l in listed:
        m = re.match(r'theories/Properties/(%s[a-z]+)\.v$' % re.escape(pid), l)
        if m:
            files.insert(0, os.path.join(COQ, l))
    names, axioms, closed, rc_all, outs = [], set(), 0, 0, ''
    for f in files:
        src = strip_comments(open(f, encoding='utf-8').read())
        names += re.findall(r'^\s*(?:Theorem|Lemma|Corollary|Example)\s+(\w+)', src, re.M)
        with Lock('model'):
            rc, out = sh(['coqc', '-Q', 'theories', 'SJ', '-w', '-notation-overridden,-deprecated-hint-without-locality,-deprecated-instance-without-locality', f], cwd=COQ, timeout=1800)
        rc_all = rc_all or rc
        blocks = out.split('Axioms:')
        for b in blocks[1:]:
            for line in b.split('\n'):
                mm = re.match(r'^([A-Za-z_][\w.]*)\s*$', line.strip()) or re.match(r'^([A-Za-z_][\w.]*)\s*:', line)
                if mm and not line.startswith(' ' * 3):
                    axioms.add(mm.group(1))
        closed += out.count('Closed under the global context')
        outs += out[-4000:]
    return {'rc': rc_all, 'names': names, 'axioms': sorted(axioms), 'closed': closed, 'out': outs[-6000:]}

# ------------------------------------------------------------------ evidence / replay
def write_json(path, obj):
    os.makedirs(os.path.dirname(path), exist_ok=True)
    tmp = path + '.tmp'
    with open(tmp, 'w') as f:
        json.dump(obj, f, indent=1, sort_keys=True)
        f.write('\n')
    os.replace(tmp, path)

def replay_path(pid, obj):
    h = hashlib.sha1(json.dumps(obj, sort_keys=True).encode()).hexdigest()[:12]
    p = os.path.join(CACHE if ALT else VERIF, 'evidence', 'replay', '%s-%s.json' % (pid, h))
    write_json(p, obj)
    return p

def load_known_findings():
    p = os.path.join(VERIF, 'known_findings.json')
    if not os.path.exists(p):
        return []
    return json.load(open(p)).get('findings', [])


def coqchk(pid, timeout=2400):
    """independent re-check of the compiled property file and everything it depends on (thorough tier)"""
    t = time.time()
    with Lock('model'):
        rc, out = sh(['coqchk', '-silent', '-o', '-Q', 'theories', 'SJ', 'SJ.Properties.%s' % pid], cwd=COQ, timeout=timeout)
    axioms = []
    m = re.search(r'\* Axioms:(.*?)\n\s*\n\s*\*', out, re.S)
    if m:
        axioms = [l.strip() for l in m.group(1).split('\n') if l.strip() and '<none>' not in l]
    bad = [a for a in axioms if a.replace('Coq.Logic.', '').replace('Coq.Reals.', '') not in ALLOWED_AXIOMS]
    flags_ok = all(k in out for k in ('type-in-type: <none>', 'unsafe (co)fixpoints: <none>', 'positivity is assumed: <none>'))
    return {'ok': rc == 0 and not bad and flags_ok, 'rc': rc, 'axioms': axioms, 'not_allowlisted': bad, 'wall_s': round(time.time() - t, 1), 'tail': out[-600:] if rc else ''}


# which properties' models/theorems depend on which translated item (a broken item is a broken tie only for those)
SER_ITEMS = ('ESCAPE_TABLE', 'CHAR_ESCAPE_SHAPE')
SER_PROPS = ('C03', 'C04', 'C05', 'C13', 'C15', 'C16')
LEX_PROPS = ('C07', 'C04', 'C16', 'C01', 'C02')
INDEPENDENT = ('C17', 'C18')          # Map / pointer / macro developments use none of the tables of tools/translate.py
PARSER_PROPS = ('C01', 'C02', 'C09', 'C10', 'C11', 'C12', 'C13', 'C14', 'C19')
TAG_PROPS = {'fmt': SER_PROPS, 'keys': SER_PROPS, 'ser': SER_PROPS, 'vser': ('C15', 'C03'), 'num': ('C06', 'C18', 'C20'), 'eq': ('C18',), 'ptr': ('C18',), 'vacc': ('C18',), 'map': ('C17',),
             'scan': ('C20', 'C06') + PARSER_PROPS, 'cursor': PARSER_PROPS, 'ignore': PARSER_PROPS, 'read': PARSER_PROPS, 'strscan': PARSER_PROPS + ('C05',), 'esc': SER_PROPS, 'lexalg': ('C07', 'C04', 'C02'), 'stream': ('C12', 'C13', 'C14'), 'numfr': ('C07', 'C02', 'C01', 'C04', 'C12', 'C14'), 'access': PARSER_PROPS + ('C06', 'C16', 'C04'), 'err': ('C09', 'C10', 'C11', 'C13', 'C14'), 'de': PARSER_PROPS + ('C04', 'C06', 'C16'),
             'numparse': PARSER_PROPS + ('C06', 'C08'), 'str': PARSER_PROPS + ('C05',), 'vde': ('C16', 'C06')}

def tie_relevant(pid, broken_line):
    # statement-level translators: `BROKEN <tag>:...` concerns the properties whose cone contains the proof tied to that translator
    mt = re.match(r'BROKEN\s+([a-z0-9]+):', broken_line)
    if mt and mt.group(1) in TAG_PROPS:
        return pid in TAG_PROPS[mt.group(1)]
    if pid in INDEPENDENT:
        return False
    m = re.match(r'BROKEN\s+([A-Za-z0-9_-]+)', broken_line)
    item = m.group(1) if m else ''
    if item in SER_ITEMS or item.startswith('fmt') or broken_line.startswith('BROKEN fmt:') or broken_line.startswith('BROKEN keys:'):
        return pid in SER_PROPS
    if broken_line.startswith('BROKEN num:'):
        return pid in ('C06', 'C18', 'C20')
    if broken_line.startswith('BROKEN eq:'):
        return pid == 'C18'
    if item.startswith('lexical') or 'lexical' in broken_line or item.upper().startswith('LEX') or item.startswith('BASE10') or item.startswith('POW5') or item.startswith('F32_') or item.startswith('F64_'):
        return pid in LEX_PROPS
    if item == 'tables-changed':
        names = re.findall(r'Definition (\w+)', broken_line)
        if names and all(n in ('ESCAPE_TABLE',) for n in names):
            return pid in SER_PROPS
    return True
