#!/usr/bin/env python3
"""translate_de.py — regenerates coq/theories/Gen/DeTables.v from /repo/src/de.rs on every run.

A statement-level translator for the TYPED ENTRY POINTS of the text deserializer:

    impl<'de, R: Read<'de>> de::Deserializer<'de> for &mut Deserializer<R>       (every fn of the impl and every `deserialize_number!` instance)
        deserialize_any  deserialize_bool  deserialize_i8 .. deserialize_u128 / f32 / f64  deserialize_char  deserialize_str  deserialize_string
        deserialize_bytes  deserialize_byte_buf  deserialize_option  deserialize_unit  deserialize_unit_struct  deserialize_newtype_struct
        deserialize_seq  deserialize_tuple  deserialize_tuple_struct  deserialize_map  deserialize_struct  deserialize_enum
        deserialize_identifier  deserialize_ignored_any
    impl<'de, R: Read<'de>> Deserializer<R>
        end  peek_invalid_type  deserialize_number  do_deserialize_f32  do_deserialize_i128  do_deserialize_u128  deserialize_raw_value

into the AST of Model/DeAst.v (`rx` / `dstmt`; the grammar is in that file's header).  Visitor calls are translated as the abstract
`XVisit <form>`; `check_recursion! { items }` is expanded to `DEnter; items; DLeave` (the macro and both `if_checking_recursion_limit!`
definitions are pinned by exact text); `deserialize_number!(m[, using])` becomes the body `self.using(visitor)` (macro pinned), the two
cfg(float_roundtrip) instances of deserialize_f32 become one `DIfRoundtrip`.  Proofs/DeSrc.v proves the hand-written models (Model/De.v,
Model/DeTyped.v) equal to the interpretation of the generated bodies.

Anything outside the subset is reported as `BROKEN de:<fn>: <why>` (exit status 3; the previous file is NOT rewritten).  Pinned by exact
(whitespace-squeezed) text: every signature and attribute line, the helpers the interpreter takes as primitives (peek, peek_or_null, eat_char,
next_char, error, peek_error, fix_position of de.rs and of error.rs, tri!), ParserNumber::visit / invalid_type, the four `XxxAccess::new`
constructors (`first: true`), the macros above.

Usage: translate_de.py [--repo /repo] [--out <file>]
"""
import re, sys, os, argparse
sys.path.insert(0, os.path.dirname(os.path.abspath(__file__)))
import translate_scan as ts
import translate_fmt as tf
Broken, squeeze, block_at, strip_comments = ts.Broken, ts.squeeze, tf.block_at, tf.strip_comments

TYPED_IMPL = r"^impl<'de, R: Read<'de>> de::Deserializer<'de> for &mut Deserializer<R>\s*\{"
INHERENT_IMPL = r"^impl<'de, R: Read<'de>> Deserializer<R>\s*\{"

V_RES = '-> Result<V::Value> where V: de::Visitor<\'de>,'
V_ANY = "-> Result<V::Value> where V: de::Visitor<'any>,"
# name -> (impl, attribute lines, squeezed header after `fn name`, kind)      kind: res = Result<V::Value>, unit = Result<()>, err = Error
SIGS = {
    'deserialize_any':            ('typed', '#[inline]', '<V>(self, visitor: V) ' + V_RES, 'res'),
    'deserialize_bool':           ('typed', '', '<V>(self, visitor: V) ' + V_RES, 'res'),
    'deserialize_char':           ('typed', '', '<V>(self, visitor: V) ' + V_RES, 'res'),
    'deserialize_str':            ('typed', '', '<V>(self, visitor: V) ' + V_RES, 'res'),
    'deserialize_string':         ('typed', '', '<V>(self, visitor: V) ' + V_RES, 'res'),
    'deserialize_bytes':          ('typed', '', '<V>(self, visitor: V) ' + V_RES, 'res'),
    'deserialize_byte_buf':       ('typed', '#[inline]', '<V>(self, visitor: V) ' + V_RES, 'res'),
    'deserialize_option':         ('typed', '#[inline]', '<V>(self, visitor: V) ' + V_RES, 'res'),
    'deserialize_unit':           ('typed', '', '<V>(self, visitor: V) ' + V_RES, 'res'),
    'deserialize_unit_struct':    ('typed', '', "<V>(self, _name: &'static str, visitor: V) " + V_RES, 'res'),
    'deserialize_newtype_struct': ('typed', '#[inline]', '<V>(self, name: &str, visitor: V) ' + V_RES, 'res'),
    'deserialize_seq':            ('typed', '', '<V>(self, visitor: V) ' + V_RES, 'res'),
    'deserialize_tuple':          ('typed', '', '<V>(self, _len: usize, visitor: V) ' + V_RES, 'res'),
    'deserialize_tuple_struct':   ('typed', '', "<V>( self, _name: &'static str, _len: usize, visitor: V, ) " + V_RES, 'res'),
    'deserialize_map':            ('typed', '', '<V>(self, visitor: V) ' + V_RES, 'res'),
    'deserialize_struct':         ('typed', '', "<V>( self, _name: &'static str, _fields: &'static [&'static str], visitor: V, ) " + V_RES, 'res'),
    'deserialize_enum':           ('typed', '#[inline]', "<V>( self, _name: &str, _variants: &'static [&'static str], visitor: V, ) " + V_RES, 'res'),
    'deserialize_identifier':     ('typed', '', '<V>(self, visitor: V) ' + V_RES, 'res'),
    'deserialize_ignored_any':    ('typed', '', '<V>(self, visitor: V) ' + V_RES, 'res'),
    'end':                        ('inherent', '', '(&mut self) -> Result<()>', 'unit'),
    'peek_invalid_type':          ('inherent', '#[cold]', '(&mut self, exp: &dyn Expected) -> Error', 'err'),
    'deserialize_number':         ('inherent', '', "<'any, V>(&mut self, visitor: V) " + V_ANY, 'res'),
    'do_deserialize_f32':         ('inherent', '#[cfg(feature = "float_roundtrip")]', "<'any, V>(&mut self, visitor: V) " + V_ANY, 'res'),
    'do_deserialize_i128':        ('inherent', '', "<'any, V>(&mut self, visitor: V) " + V_ANY, 'res'),
    'do_deserialize_u128':        ('inherent', '', "<'any, V>(&mut self, visitor: V) " + V_ANY, 'res'),
    'deserialize_raw_value':      ('inherent', '#[cfg(feature = "raw_value")]', '<V>(&mut self, visitor: V) ' + V_RES, 'res'),
}
TYPED_FNS = [f for f in SIGS if SIGS[f][0] == 'typed']
INHERENT_FNS = [f for f in SIGS if SIGS[f][0] == 'inherent']
# the `deserialize_number!` instances the Deserializer trait needs
NUMBER_METHODS = ['deserialize_i8', 'deserialize_i16', 'deserialize_i32', 'deserialize_i64', 'deserialize_i128',
                  'deserialize_u8', 'deserialize_u16', 'deserialize_u32', 'deserialize_u64', 'deserialize_u128',
                  'deserialize_f32', 'deserialize_f64']

PINNED = dict(ts.PINNED)
PINNED['fix_position'] = ('fn fix_position(&self, err: Error) -> Error', '{ err.fix_position(move |code| self.error(code)) }')
PINNED_TEXT = {   # file -> [(what, regex locating the `{`-block's header, expected squeezed block)]
    'de.rs': [
        ('ParserNumber::visit', r"fn visit<'de, V>\(self, visitor: V\) -> Result<V::Value>\s*where\s*V: de::Visitor<'de>,\s*\{",
         '{ match self { ParserNumber::F64(x) => visitor.visit_f64(x), ParserNumber::U64(x) => visitor.visit_u64(x), '
         'ParserNumber::I64(x) => visitor.visit_i64(x), #[cfg(feature = "arbitrary_precision")] '
         'ParserNumber::String(x) => visitor.visit_map(NumberDeserializer { number: x.into() }), } }'),
        ('ParserNumber::invalid_type', r"fn invalid_type\(self, exp: &dyn Expected\) -> Error\s*\{",
         '{ match self { ParserNumber::F64(x) => de::Error::invalid_type(Unexpected::Float(x), exp), '
         'ParserNumber::U64(x) => de::Error::invalid_type(Unexpected::Unsigned(x), exp), '
         'ParserNumber::I64(x) => de::Error::invalid_type(Unexpected::Signed(x), exp), #[cfg(feature = "arbitrary_precision")] '
         'ParserNumber::String(_) => de::Error::invalid_type(Unexpected::Other("number"), exp), } }'),
        ('SeqAccess::new', r"^impl<'a, R: 'a> SeqAccess<'a, R>\s*\{", "{ fn new(de: &'a mut Deserializer<R>) -> Self { SeqAccess { de, first: true } } }"),
        ('MapAccess::new', r"^impl<'a, R: 'a> MapAccess<'a, R>\s*\{", "{ fn new(de: &'a mut Deserializer<R>) -> Self { MapAccess { de, first: true } } }"),
        ('VariantAccess::new', r"^impl<'a, R: 'a> VariantAccess<'a, R>\s*\{", "{ fn new(de: &'a mut Deserializer<R>) -> Self { VariantAccess { de } } }"),
        ('UnitVariantAccess::new', r"^impl<'a, R: 'a> UnitVariantAccess<'a, R>\s*\{",
         "{ fn new(de: &'a mut Deserializer<R>) -> Self { UnitVariantAccess { de } } }"),
        ('deserialize_number!', r"^macro_rules! deserialize_number\s*\{",
         '{ ($method:ident) => { deserialize_number!($method, deserialize_number); }; ($method:ident, $using:ident) => { '
         "fn $method<V>(self, visitor: V) -> Result<V::Value> where V: de::Visitor<'de>, { self.$using(visitor) } }; }"),
        ('check_recursion!', r"^macro_rules! check_recursion\s*\{",
         '{ ($this:ident $($body:tt)*) => { if_checking_recursion_limit! { $this.remaining_depth -= 1; '
         'if $this.remaining_depth == 0 { return Err($this.peek_error(ErrorCode::RecursionLimitExceeded)); } } '
         '$this $($body)* if_checking_recursion_limit! { $this.remaining_depth += 1; } }; }'),
        ('if_checking_recursion_limit! (bounded)', r'^#\[cfg\(not\(feature = "unbounded_depth"\)\)\]\nmacro_rules! if_checking_recursion_limit\s*\{',
         '{ ($($body:tt)*) => { $($body)* }; }'),
        ('if_checking_recursion_limit! (unbounded)', r'^#\[cfg\(feature = "unbounded_depth"\)\]\nmacro_rules! if_checking_recursion_limit\s*\{',
         '{ ($this:ident $($body:tt)*) => { if !$this.disable_recursion_limit { $this $($body)* } }; }'),
    ],
    'error.rs': [
        ('Error::fix_position', r"pub\(crate\) fn fix_position<F>\(self, f: F\) -> Self\s*where\s*F: FnOnce\(ErrorCode\) -> Error,\s*\{",
         '{ if self.err.line == 0 { f(self.err.code) } else { self } }'),
    ],
}

TOKEN = re.compile(r"\s*(b\"(?:[^\"\\]|\\.)*\"|\"(?:[^\"\\]|\\.)*\"|b'(?:\\x[0-9a-fA-F]{2}|\\.|[^\\'])'|'(?:\\x[0-9a-fA-F]{2}|\\.|[^\\'])'"
                   r"|[A-Za-z_][A-Za-z0-9_]*|\.\.=|=>|::|==|!=|[@|(){},;!=.*&#\[\]<>:])")

def tokenize(s):
    out, i = [], 0
    s = s.strip()
    while i < len(s):
        m = TOKEN.match(s, i)
        if not m:
            raise Broken('token outside the subset at `%s`' % s[i:i + 40].strip())
        out.append(m.group(1))
        i = m.end()
    return out

VISITS = {   # squeezed call text after `visitor.` -> form
    'visit_unit()': ('FUnit',), 'visit_bool(true)': ('FBool', True), 'visit_bool(false)': ('FBool', False),
    'visit_none()': ('FNone',), 'visit_some(self)': ('FSome',), 'visit_newtype_struct(self)': ('FNewtype',),
    'visit_seq(SeqAccess::new(self))': ('FSeq',), 'visit_map(MapAccess::new(self))': ('FMap',),
    'visit_enum(VariantAccess::new(self))': ('FEnumMap',), 'visit_enum(UnitVariantAccess::new(self))': ('FEnumUnit',),
}
UNEXPECTED = ['Unexpected::Unit', 'Unexpected::Bool(true)', 'Unexpected::Bool(false)', 'Unexpected::Seq', 'Unexpected::Map', 'Unexpected::Str(&s)']
STR_METHODS = {'visit_borrowed_str': 'VmBorrowedStr', 'visit_str': 'VmStr', 'visit_borrowed_bytes': 'VmBorrowedBytes', 'visit_bytes': 'VmBytes'}

PW = tokenize('tri!(self.parse_whitespace())')
NPW = len(PW)

class D(ts.P):
    """recursive descent over the token list of one function body; byte / Option<u8> patterns are ts.P's"""
    def __init__(self, toks, fn, kind):
        self.t, self.i, self.fn, self.kind = toks, 0, fn, kind
        self.ext, self.ext2, self.buf, self.sigs = True, False, False, {}
        self.cleared = False          # `self.scratch.clear();` was the previous item
    def eats(self, text):
        return self.eat(*tokenize(text))
    def needs(self, text):
        self.need(*tokenize(text))
    def ats(self, text):
        return self.at(*tokenize(text))
    def close_of(self, j):
        """self.t[j] == '{': index of the matching '}'"""
        return self.skip_block(j) - 1
    def ecode(self):
        self.need('ErrorCode', '::')
        c = self.t[self.i]; self.i += 1
        if c not in ts.ECODES:
            raise Broken('unknown ErrorCode::%s' % c)
        return c
    def var(self, scope, kind):
        x = self.ident()
        if scope.get(x) != kind:
            raise Broken('`%s` is not a %s variable here' % (x, kind))
        return x
    def take_cleared(self, what):
        if not self.cleared:
            raise Broken('%s is not directly preceded by `self.scratch.clear();`' % what)
        self.cleared = False

    # ---- Result patterns ------------------------------------------------------------------
    def rpat(self, scope):
        if self.eat('_'):
            return ('any',)
        for ctor, k, tag in (('Ok', 'val', 'ok'), ('Err', 'err', 'err')):
            if self.eat(ctor, '('):
                if self.eat('_'): x = None
                elif ctor == 'Ok' and self.eat('(', ')'): x = None
                else:
                    x = self.ident(); scope[x] = k
                self.need(')')
                return (tag, x)
        raise Broken('Result pattern outside the subset at `%s`' % self.here())
    def ppat(self, scope):
        alts = []
        while True:
            sc = {}
            self.need('(')
            a = self.rpat(sc); self.need(',')
            b = self.rpat(sc); self.need(')')
            alts.append((('pair', a, b), sc))
            if not self.eat('|'): break
        if any(sc != alts[0][1] for _, sc in alts):
            raise Broken('alternatives of an or-pattern bind different variables')
        if len(alts[0][1]) != len([x for x in (alts[0][0][1], alts[0][0][2]) if x[0] != 'any' and x[1] is not None]):
            raise Broken('a pair pattern binds one name twice')
        scope.update(alts[0][1])
        p = alts[0][0]
        for q, _ in alts[1:]:
            p = ('or', p, q)
        return p

    # ---- expressions ---------------------------------------------------------------------------
    def arm_expr(self, scope):
        """the right-hand side of `=>`: an expression, then `,` unless a block or the last arm"""
        blk = self.at('{')
        e = self.expr(scope)
        if blk: self.eat(',')
        elif not self.at('}'): self.need(',')
        return e
    def block_expr(self, scope):
        """{ items [tail] }  ->  XBlock; a block ending in `return R;` has the value XRet R"""
        self.need('{')
        ss, tail = self.items(dict(scope))
        self.need('}')
        if tail is None:
            if ss and ss[-1][0] == 'ret':
                return ('block', ss[:-1], ('xret', ss[-1][1]))
            raise Broken('block without a value before `%s`' % self.here())
        return ('block', ss, tail) if ss else tail
    def visit(self, scope):
        self.need('visitor', '.')
        j = self.i
        if self.t[j + 1:j + 2] != ['(']: raise Broken('visitor call outside the subset at `%s`' % self.here())
        depth, k = 0, j + 1
        while True:
            if k >= len(self.t): raise Broken('unbalanced visitor call')
            depth += {'(': 1, ')': -1}.get(self.t[k], 0)
            k += 1
            if depth == 0: break
        text = ''.join(self.t[j:k])
        self.i = k
        if text in VISITS: return ('visit', VISITS[text])
        m = re.fullmatch(r'visit_(i|u)128\(([a-z_][a-z0-9_]*)\)', text)
        if m:
            if scope.get(m.group(2)) != 'int': raise Broken('`%s`: the argument is not the parsed integer' % text)
            return ('visit', ('FI128' if m.group(1) == 'i' else 'FU128', m.group(2)))
        raise Broken('visitor call `visitor.%s` outside the subset' % text)
    def expr(self, scope):
        if self.kind == 'err':
            return self.eexpr(scope)
        if self.at('{'):
            return self.block_expr(scope)
        if self.eat('return'):
            return ('xret', self.expr(scope))
        if self.at('visitor', '.'):
            return self.visit(scope)
        if self.eats('Ok(())'):
            if self.kind != 'unit': raise Broken('Ok(()) in a function returning Result<V::Value>')
            return ('okunit',)
        if self.eat('Ok', '('):
            if self.kind != 'res': raise Broken('Ok(x) in a function returning Result<()>')
            x = self.var(scope, 'val'); self.need(')')
            return ('ok', x)
        if self.eat('Err', '('):
            if self.at('self', '.'):
                self.i += 2
                if self.eats('fix_position('):
                    x = self.var(scope, 'err'); self.need(')', ')')
                    return ('errfix', x)
                if self.eats('peek_invalid_type(&visitor))'):
                    return ('errpit',)
                if self.eat('error', '('): peeked = False
                elif self.eat('peek_error', '('): peeked = True
                else: raise Broken('Err(self.%s..) outside the subset' % self.t[self.i])
                c = self.ecode(); self.need(')', ')')
                return ('errcode', peeked, c)
            x = self.var(scope, 'err'); self.need(')')
            return ('err', x)
        if self.ats('tri!(self.parse_integer(') or self.ats('tri!(self.parse_any_number('):
            fn = 'NInteger' if self.t[self.i + 5] == 'parse_integer' else 'NAnyNumber'
            self.i += 7
            if self.eat('true'): pos = True
            elif self.eat('false'): pos = False
            else: raise Broken('argument of %s is not a bool literal' % fn)
            self.needs(')).visit(visitor)')
            return ('numvisit', fn, pos)
        if self.ats('self.read.end_raw_buffering(visitor)'):
            self.i += len(tokenize('self.read.end_raw_buffering(visitor)'))
            return ('endraw',)
        if self.at('self', '.') and self.t[self.i + 3:self.i + 6] == ['(', 'visitor', ')']:
            f = self.t[self.i + 2]
            if f not in SIGS and f not in NUMBER_METHODS: raise Broken('call of self.%s(visitor): not a translated function' % f)
            if f in SIGS and SIGS[f][3] != 'res': raise Broken('self.%s(visitor) does not return Result<V::Value>' % f)
            self.i += 6
            return ('call', f)
        if self.eat('match'):
            return self.match_expr(scope)
        if self.is_ident() and scope.get(self.t[self.i]) == 'res':
            return ('var', self.ident())
        raise Broken('expression outside the subset at `%s`' % self.here())
    def match_expr(self, scope):
        """after `match`"""
        if self.ats('tri!(self.parse_whitespace())'):
            self.i += len(tokenize('tri!(self.parse_whitespace())'))
            self.need('{')
            arms = []
            while not self.at('}'):
                sc = dict(scope)
                p = self.pat('opt', sc)
                for x in sc:
                    if x not in scope or sc[x] != scope.get(x): sc[x] = 'byte' if sc[x] == 'u8' else sc[x]
                self.need('=>')
                arms.append((p, self.arm_expr(sc)))
            self.need('}')
            return ('matchws', arms)
        if self.ats('tri!(self.read.parse_str(&mut self.scratch))') or self.ats('tri!(self.read.parse_str_raw(&mut self.scratch))'):
            raw = self.t[self.i + 7] == 'parse_str_raw'
            self.take_cleared('the string scanner')
            self.i += len(tokenize('tri!(self.read.parse_str(&mut self.scratch))'))
            self.need('{')
            ms = {}
            for ctor in ('Borrowed', 'Copied'):
                self.need('Reference', '::', ctor, '(')
                x = self.ident()
                self.need(')', '=>', 'visitor', '.')
                m = self.t[self.i]; self.i += 1
                if m not in STR_METHODS: raise Broken('visitor.%s on a parsed string' % m)
                self.need('(', x, ')')
                if not self.at('}'): self.need(',')
                ms[ctor] = STR_METHODS[m]
            self.need('}')
            return ('strvisit', raw, ms['Borrowed'], ms['Copied'])
        if self.ats('buf.parse()'):
            self.i += len(tokenize('buf.parse()'))
            if not scope.get('buf') == 'buf': raise Broken('buf.parse(): no `let mut buf = String::new();` in scope')
            self.need('{')
            self.need('Ok', '(')
            x = self.ident(); self.need(')', '=>')
            sc = dict(scope); sc[x] = 'int'
            ok = self.arm_expr(sc)
            self.needs('Err(_) =>')
            err = self.arm_expr(dict(scope))
            self.need('}')
            if ok == ('visit', ('FI128', x)): signed = True
            elif ok == ('visit', ('FU128', x)): signed = False
            else: raise Broken('the Ok arm of `match buf.parse()` is not visitor.visit_i128(%s) / visit_u128(%s): the integer type is not determined' % (x, x))
            return ('matchparse', signed, x, ok, err)
        if self.at('('):
            self.i += 1
            x = self.var(scope, 'res'); self.need(',')
            if self.eats('self.end_seq()'): en = 'EndSeq'
            elif self.eats('self.end_map()'): en = 'EndMap'
            else: raise Broken('second component of the matched pair is not self.end_seq() / self.end_map() at `%s`' % self.here())
            self.need(')', '{')
            arms = []
            while not self.at('}'):
                sc = dict(scope)
                p = self.ppat(sc)
                self.need('=>')
                arms.append((p, self.arm_expr(sc)))
            self.need('}')
            return ('matchpair', x, en, arms)
        x = self.ident()
        if scope.get(x) == 'byte':
            self.need('{')
            arms = []
            while not self.at('}'):
                p = self.bp()
                self.need('=>')
                arms.append((p, self.arm_expr(dict(scope))))
            self.need('}')
            return ('matchbyte', x, arms)
        if scope.get(x) == 'res':
            self.need('{')
            arms = []
            while not self.at('}'):
                sc = dict(scope)
                p = self.rpat(sc)
                self.need('=>')
                arms.append((p, self.arm_expr(sc)))
            self.need('}')
            return ('matchres', x, arms)
        raise Broken('match on `%s`, which is neither the peeked byte nor a Result variable' % x)

    # ---- Error-valued expressions (peek_invalid_type) ------------------------------------------------
    def pcall(self):
        if self.eats('self.parse_ident('):
            if not self.t[self.i].startswith('b"'): raise Broken('argument of parse_ident is not a byte string literal')
            lit = tf.bytestr(self.t[self.i]); self.i += 1
            self.need(')')
            return ('PcIdent', lit), None
        if self.eats('self.parse_any_number('):
            if self.eat('true'): pos = True
            elif self.eat('false'): pos = False
            else: raise Broken('argument of parse_any_number is not a bool literal')
            self.need(')')
            return ('PcAnyNumber', pos), 'num'
        if self.eats('self.read.parse_str(&mut self.scratch)'):
            self.take_cleared('the string scanner')
            return ('PcParseStr',), 'str'
        raise Broken('looked-at call outside the subset at `%s`' % self.here())
    def eexpr(self, scope):
        if self.at('{'):
            return self.block_expr(scope)
        if self.eat('return'):
            return ('xret', self.eexpr(scope))
        if self.eats('de::Error::invalid_type('):
            j = self.i
            while self.t[j:j + 3] != [',', 'exp', ')']:
                j += 1
                if j >= len(self.t): raise Broken('de::Error::invalid_type(.., exp) expected')
            what = ''.join(self.t[self.i:j])
            if what not in UNEXPECTED: raise Broken('de::Error::invalid_type(%s, exp): unexpected-value form outside the subset' % what)
            if what == 'Unexpected::Str(&s)' and scope.get('s') != 'str': raise Broken('Unexpected::Str(&s): s is not the parsed string')
            self.i = j + 3
            return ('einvalid',)
        if self.is_ident() and self.t[self.i + 1:self.i + 6] == ['.', 'invalid_type', '(', 'exp', ')']:
            self.var(scope, 'num'); self.i += 5
            return ('einvalid',)
        if self.eats('self.fix_position('):
            x = self.var(scope, 'err'); self.need(')')
            return ('efix', x)
        if self.at('self', '.', 'error', '(') or self.at('self', '.', 'peek_error', '('):
            peeked = self.t[self.i + 2] == 'peek_error'
            self.i += 4
            c = self.ecode(); self.need(')')
            return ('ecode', peeked, c)
        if self.eat('match'):
            if self.eats("self.peek_or_null().unwrap_or(b'\\x00')"):
                self.need('{')
                arms = []
                while not self.at('}'):
                    p = self.bp()
                    self.need('=>')
                    arms.append((p, self.arm_expr(dict(scope))))
                self.need('}')
                return ('matchpon', arms)
            c, k = self.pcall()
            self.need('{', 'Ok', '(')
            sc = dict(scope)
            if self.eat('_') or self.eat('(', ')'): okx = None
            else:
                okx = self.ident()
                if k is None: raise Broken('Ok(%s) binds the unit value' % okx)
                sc[okx] = k
            self.need(')', '=>')
            ok = self.arm_expr(sc)
            self.need('Err', '(')
            errx = self.ident(); self.need(')', '=>')
            sc2 = dict(scope); sc2[errx] = 'err'
            err = self.arm_expr(sc2)
            self.need('}')
            return ('matchcall', c, okx, ok, errx, err)
        if self.is_ident() and scope.get(self.t[self.i]) == 'err':
            return ('evar', self.ident())
        raise Broken('Error-valued expression outside the subset at `%s`' % self.here())

    # ---- items ---------------------------------------------------------------------------------------
    def items(self, scope):
        """-> (statements, tail expression or None); stops before the closing `}`"""
        out = []
        while not self.at('}'):
            if self.i >= len(self.t): raise Broken('unexpected end of body')
            if out and out[-1][0] == 'ret': raise Broken('item after a return: `%s`' % self.here())
            if self.cleared and not (self.at('match') and 'parse_str' in ''.join(self.t[self.i:self.i + 12])):
                raise Broken('`self.scratch.clear();` is not directly followed by the string scanner')
            if self.eats('self.eat_char();'):
                out.append(('eat',)); continue
            if self.eats('self.scratch.clear();'):
                self.cleared = True; continue
            if self.ats('tri!(self.parse_ident('):
                self.i += len(tokenize('tri!(self.parse_ident('))
                if not self.t[self.i].startswith('b"'): raise Broken('argument of parse_ident is not a byte string literal')
                lit = tf.bytestr(self.t[self.i]); self.i += 1
                self.need(')', ')', ';')
                out.append(('tryident', lit)); continue
            if self.eats('tri!(self.parse_whitespace());'):
                out.append(('tryws',)); continue
            if self.eats('tri!(self.ignore_value());'):
                out.append(('tryignore',)); continue
            if self.eats('tri!(self.scan_integer128(&mut buf));'):
                if scope.get('buf') != 'buf': raise Broken('scan_integer128(&mut buf): no `let mut buf = String::new();` in scope')
                out.append(('tryscan128',)); continue
            if self.eats('let mut buf = String::new();'):
                scope['buf'] = 'buf'
                out.append(('newbuf',)); continue
            if self.eat('buf', '.', 'push', '('):
                if scope.get('buf') != 'buf': raise Broken('buf.push: no `let mut buf = String::new();` in scope')
                if not (self.t[self.i].startswith("'")): raise Broken('buf.push of something other than a char literal')
                out.append(('pushbuf', ts.lit_value(self.t[self.i]))); self.i += 1
                self.need(')', ';'); continue
            if self.at('self', '.', 'single_precision', '='):
                self.i += 4
                v = self.eat('true') or (self.need('false') or False)
                self.need(';')
                out.append(('setsingle', v)); continue
            if self.eats('self.read.begin_raw_buffering();'):
                out.append(('beginraw',)); continue
            if self.eats('let _ = name;'):
                if self.fn != 'deserialize_newtype_struct': raise Broken('`let _ = name;`')
                continue
            if self.eats('#[cfg(feature = "raw_value")] { if name == crate::raw::TOKEN'):
                if self.fn != 'deserialize_newtype_struct': raise Broken('raw-value token test outside deserialize_newtype_struct')
                self.need('{')
                ss, tail = self.items(dict(scope))
                if tail is not None: raise Broken('value at the end of the token branch')
                self.need('}', '}')
                out.append(('iftoken', ss)); continue
            if self.eats('check_recursion! {'):
                if not self.at('self'): raise Broken('check_recursion! body does not start with `self`')
                close = self.close_of(self.i - 1)
                save, self.t = self.t, self.t[:close] + ['}']        # the macro body, expanded in place: same scope as the enclosing block
                ss, tail = self.items(scope)
                self.t = save
                if tail is not None or self.i != close: raise Broken('check_recursion! body is not a sequence of statements')
                self.i = close + 1
                if any(s[0] == 'ret' for s in ss): raise Broken('return inside check_recursion!')
                out += [('enter',)] + ss + [('leave',)]; continue
            if self.ats('if let Err('):
                self.i += 4
                x = self.ident(); self.need(')', '=')
                c, _ = self.pcall()
                self.need('{')
                sc = dict(scope); sc[x] = 'err'
                ss, tail = self.items(sc)
                if tail is not None: raise Broken('value at the end of an `if let` body')
                self.need('}')
                if self.at('else'): raise Broken('if let .. else')
                out.append(('ifleterr', c, x, ss)); continue
            if self.at('let') and self.is_ident(1) and self.t[self.i + 2:self.i + 4] == ['=', 'match'] \
               and self.t[self.i + 4:self.i + 4 + NPW] == PW and self.kind != 'err' \
               and self.t[self.i + 4 + NPW:self.i + 7 + NPW] == ['{', 'Some', '('] and self.t[self.i + 8 + NPW:self.i + 11 + NPW] == [')', '=>', self.t[self.i + 7 + NPW]]:
                x = self.t[self.i + 1]
                self.i += 4 + NPW
                self.need('{', 'Some', '(')
                b = self.ident(); self.need(')', '=>', b, ',', 'None', '=>')
                none = self.arm_expr(dict(scope))
                self.need('}', ';')
                if none[0] == 'block' and not none[1]: none = none[2]
                if none[0] != 'xret': raise Broken('the None arm of `let %s = match tri!(self.parse_whitespace())` does not return' % x)
                scope[x] = 'byte'
                out.append(('letws', x, none[1])); continue
            if self.at('let') and self.is_ident(1) and self.t[self.i + 2:self.i + 5] == ['=', 'tri', '!']:
                x = self.t[self.i + 1]
                self.i += 5
                self.need('(')
                e = self.expr(scope)
                self.need(')', ';')
                scope[x] = 'val'
                out.append(('lettri', x, e)); continue
            if self.at('let') and self.is_ident(1) and self.t[self.i + 2:self.i + 3] == ['=']:
                x = self.t[self.i + 1]
                self.i += 3
                e = self.expr(scope)
                self.need(';')
                if self.kind == 'err':
                    scope[x] = 'err'
                    out.append(('leterr', x, e))
                else:
                    scope[x] = 'res'
                    out.append(('let', x, e))
                continue
            if self.at('match') and self.t[self.i + 1:self.i + 1 + NPW] == PW and self.kind != 'err':
                close = self.close_of(self.i + 1 + NPW)
                if self.t[close + 1:close + 2] != ['}']:          # a statement: arms are unit blocks
                    self.i += 2 + NPW
                    arms = []
                    while not self.at('}'):
                        sc = dict(scope)
                        p = self.pat('opt', sc)
                        self.need('=>', '{')
                        ss, tail = self.items(sc)
                        if tail is not None: raise Broken('value at the end of a statement arm')
                        self.need('}'); self.eat(',')
                        arms.append((p, ss))
                    self.need('}')
                    out.append(('matchws_s', arms)); continue
            if self.eat('return'):
                e = self.expr(scope)
                self.need(';')
                out.append(('ret', e)); continue
            e = self.expr(scope)
            if not self.at('}'): raise Broken('expression outside tail position before `%s`' % self.here())
            return out, e
        if self.cleared: raise Broken('`self.scratch.clear();` is not directly followed by the string scanner')
        return out, None

def parse_fn(fn, kind, body):
    p = D(tokenize(body), fn, kind)
    p.need('{')
    ss, tail = p.items({})
    p.need('}')
    if p.i != len(p.t): raise Broken('trailing text after body')
    if tail is not None:
        ss = ss + [('ret', tail)]
    if not ss or ss[-1][0] != 'ret': raise Broken('the body does not end in a value')
    return ss

# ---- source extraction --------------------------------------------------------------------------------
def impl_block(src, header):
    ms = list(re.finditer(header, src, re.M))
    if len(ms) != 1: raise Broken('expected exactly one `%s`, found %d' % (header, len(ms)))
    return block_at(src, ms[0].end() - 1)[0]

def fns_of(block):
    """name -> (attribute lines, header after `fn name`, body) for every fn directly inside the impl block; plus the macro invocations"""
    inner, out, i = block[1:-1], {}, 0
    for m in re.finditer(r'\bfn ([A-Za-z_][A-Za-z0-9_]*)', inner):
        if m.start() < i: continue
        j = inner.index('{', m.end())
        body, end = block_at(inner, j)
        pre = inner[i:m.start()]
        am = re.search(r'((?:#\[[^\n]*\]\s*)*)(?:pub(?:\(crate\))?\s+)?\Z', pre)
        out.setdefault(m.group(1), []).append((squeeze(am.group(1)), squeeze(inner[m.end():j]), squeeze(strip_comments(body))))
        i = end
    return out

def number_instances(block):
    """`[#[cfg(..)]] deserialize_number!(method[, using]);` directly inside the impl block -> method -> [(cfg, using)]"""
    inner, spans, i = block[1:-1], [], 0
    for m in re.finditer(r'\bfn ([A-Za-z_][A-Za-z0-9_]*)', inner):          # blank out fn bodies
        if m.start() < i: continue
        j = inner.index('{', m.end())
        i = block_at(inner, j)[1]
        spans.append((j, i))
    top = inner
    for a, b in reversed(spans):
        top = top[:a] + top[b:]
    out = {}
    for m in re.finditer(r'^[ \t]*(#\[cfg\(([^\n]*)\)\]\n[ \t]*)?deserialize_number!\(\s*(\w+)\s*(?:,\s*(\w+)\s*)?\);', top, re.M):
        out.setdefault(m.group(3), []).append((m.group(2), m.group(4) or 'deserialize_number'))
    n = len(re.findall(r'deserialize_number!', top))
    if n != sum(len(v) for v in out.values()): raise Broken('a deserialize_number! invocation outside the subset')
    if re.search(r'\b\w+!\s*[({]', re.sub(r'deserialize_number!', '', top)): raise Broken('another macro invocation inside the impl')
    return out

def translate(repo):
    src = open(os.path.join(repo, 'src', 'de.rs'), encoding='utf-8').read()
    src = '\n'.join('' if l.lstrip().startswith('//') else l for l in src.split('\n'))
    broken, bodies = [], {}
    blocks = {}
    for tag, header in (('typed', TYPED_IMPL), ('inherent', INHERENT_IMPL)):
        try:
            blocks[tag] = impl_block(src, header)
        except (Broken, ValueError, IndexError) as e:
            broken.append(('de:impl:' + tag, str(e)))
    if broken: return bodies, broken
    found = {tag: fns_of(blocks[tag]) for tag in blocks}
    extra = sorted(set(found['typed']) - set(TYPED_FNS))
    if extra: broken.append(('de:impl:typed', 'fn %s is not one the translation knows' % ', '.join(extra)))
    for fn, (impl, attr, header, kind) in SIGS.items():
        try:
            if fn not in found[impl]: raise Broken('not found in the %s impl' % impl)
            if len(found[impl][fn]) != 1: raise Broken('%d definitions in the %s impl' % (len(found[impl][fn]), impl))
            gattr, gheader, body = found[impl][fn][0]
            if gattr != attr: raise Broken('attribute lines are `%s`, expected `%s`' % (gattr, attr))
            if gheader != header: raise Broken('signature is `%s`, the interpreter assumes `%s`' % (gheader, header))
            bodies[fn] = parse_fn(fn, kind, body)
        except (Broken, ValueError, IndexError) as e:
            broken.append(('de:' + fn, str(e)))
    try:
        inst = number_instances(blocks['typed'])
        if sorted(inst) != sorted(NUMBER_METHODS):
            raise Broken('instances are %s, the Deserializer trait needs %s' % (sorted(inst), sorted(NUMBER_METHODS)))
        for m, alts in inst.items():
            for _, using in alts:
                if using not in SIGS or SIGS[using][0] != 'inherent' or SIGS[using][3] != 'res':
                    raise Broken('%s delegates to self.%s, not a translated function' % (m, using))
            if len(alts) == 1 and alts[0][0] is None:
                bodies[m] = [('ret', ('call', alts[0][1]))]
            elif len(alts) == 2 and sorted(a[0] for a in alts) == ['feature = "float_roundtrip"', 'not(feature = "float_roundtrip")']:
                on = [u for c, u in alts if c == 'feature = "float_roundtrip"'][0]
                off = [u for c, u in alts if c != 'feature = "float_roundtrip"'][0]
                bodies[m] = [('ifroundtrip', [('ret', ('call', on))], [('ret', ('call', off))])]
            else:
                raise Broken('instances of %s: %s' % (m, alts))
    except (Broken, ValueError, IndexError) as e:
        broken.append(('de:deserialize_number!', str(e)))
    for fname, pins in PINNED_TEXT.items():
        try:
            text = src if fname == 'de.rs' else '\n'.join('' if l.lstrip().startswith('//') else l
                                                          for l in open(os.path.join(repo, 'src', fname), encoding='utf-8').read().split('\n'))
        except OSError as e:
            broken.append(('de:pinned:' + fname, str(e))); continue
        for what, header, want in pins:
            try:
                ms = list(re.finditer(header, text, re.M))
                if len(ms) != 1: raise Broken('expected exactly one `%s`, found %d' % (header, len(ms)))
                got = squeeze(strip_comments(block_at(text, ms[0].end() - 1)[0]))
                if got != want: raise Broken('text is `%s`, the interpreter assumes `%s`' % (got, want))
            except (Broken, ValueError, IndexError) as e:
                broken.append(('de:pinned:' + what, str(e)))
    save = ts.PINNED
    ts.PINNED = PINNED
    try:
        broken += ts.check_pinned(repo, src, 'de')
    finally:
        ts.PINNED = save
    return bodies, broken

# ---- Coq output -----------------------------------------------------------------------------------------
q, opt, coq_bp, coq_pat = ts.q, ts.opt, ts.coq_bp, ts.coq_pat
def b(v): return 'true' if v else 'false'
def nl(xs): return '[' + '; '.join(str(x) for x in xs) + ']'
def coq_rpat(p):
    if p[0] == 'any': return 'RpAny'
    return '(%s %s)' % ('RpOk' if p[0] == 'ok' else 'RpErr', opt(p[1]))
def coq_ppat(p):
    if p[0] == 'pair': return '(PPair %s %s)' % (coq_rpat(p[1]), coq_rpat(p[2]))
    return '(PPOr %s %s)' % (coq_ppat(p[1]), coq_ppat(p[2]))
def coq_pcall(c):
    if c[0] == 'PcIdent': return '(PcIdent %s)' % nl(c[1])
    if c[0] == 'PcAnyNumber': return '(PcAnyNumber %s)' % b(c[1])
    return 'PcParseStr'
def coq_arms(arms, fp, ind):
    pad = ' ' * ind
    return '[\n' + pad + (';\n' + pad).join('(%s, %s)' % (fp(p), coq_rx(e, ind + 2)) for p, e in arms) + ']'
def coq_rx(e, ind):
    k = e[0]
    if k == 'visit':
        f = e[1]
        return '(XVisit %s)' % (f[0] if len(f) == 1 else '(%s %s)' % (f[0], b(f[1]) if f[0] == 'FBool' else q(f[1])))
    if k == 'strvisit': return '(XStrVisit %s %s %s)' % (b(e[1]), e[2], e[3])
    if k == 'numvisit': return '(XNumVisit %s %s)' % (e[1], b(e[2]))
    if k == 'ok': return '(XOk %s)' % q(e[1])
    if k == 'okunit': return 'XOkUnit'
    if k == 'err': return '(XErr %s)' % q(e[1])
    if k == 'errfix': return '(XErrFix %s)' % q(e[1])
    if k == 'errcode': return '(XErrCode %s %s)' % (b(e[1]), e[2])
    if k == 'errpit': return 'XErrPit'
    if k == 'call': return '(XCall %s)' % q(e[1])
    if k == 'var': return '(XVar %s)' % q(e[1])
    if k == 'block': return '(XBlock %s %s)' % (coq_block(e[1], ind + 2), coq_rx(e[2], ind + 2))
    if k == 'xret': return '(XRet %s)' % coq_rx(e[1], ind)
    if k == 'matchbyte': return '(XMatchByte %s %s)' % (q(e[1]), coq_arms(e[2], coq_bp, ind + 2))
    if k == 'matchres': return '(XMatchRes %s %s)' % (q(e[1]), coq_arms(e[2], coq_rpat, ind + 2))
    if k == 'matchpair': return '(XMatchPair %s %s %s)' % (q(e[1]), e[2], coq_arms(e[3], coq_ppat, ind + 2))
    if k == 'matchws': return '(XMatchWs %s)' % coq_arms(e[1], coq_pat, ind + 2)
    if k == 'matchparse': return '(XMatchParse %s %s %s %s)' % (b(e[1]), q(e[2]), coq_rx(e[3], ind + 2), coq_rx(e[4], ind + 2))
    if k == 'endraw': return 'XEndRaw'
    if k == 'einvalid': return 'XeInvalidType'
    if k == 'ecode': return '(XeCode %s %s)' % (b(e[1]), e[2])
    if k == 'efix': return '(XeFix %s)' % q(e[1])
    if k == 'evar': return '(XeVar %s)' % q(e[1])
    if k == 'matchpon': return '(XMatchPon %s)' % coq_arms(e[1], coq_bp, ind + 2)
    if k == 'matchcall': return '(XMatchCall %s %s %s %s %s)' % (coq_pcall(e[1]), opt(e[2]), coq_rx(e[3], ind + 2), q(e[4]), coq_rx(e[5], ind + 2))
    raise Broken('internal: ' + k)
def coq_stmt(s, ind):
    k = s[0]
    if k == 'eat': return 'DEat'
    if k == 'tryident': return 'DTryIdent %s' % nl(s[1])
    if k == 'tryws': return 'DTryWs'
    if k == 'tryignore': return 'DTryIgnore'
    if k == 'tryscan128': return 'DTryScan128'
    if k == 'letws': return 'DLetWs %s %s' % (q(s[1]), coq_rx(s[2], ind + 2))
    if k == 'let': return 'DLet %s %s' % (q(s[1]), coq_rx(s[2], ind + 2))
    if k == 'lettri': return 'DLetTri %s %s' % (q(s[1]), coq_rx(s[2], ind + 2))
    if k == 'leterr': return 'DLetErr %s %s' % (q(s[1]), coq_rx(s[2], ind + 2))
    if k == 'enter': return 'DEnter'
    if k == 'leave': return 'DLeave'
    if k == 'setsingle': return 'DSetSingle %s' % b(s[1])
    if k == 'newbuf': return 'DNewBuf'
    if k == 'pushbuf': return 'DPushBuf %d' % s[1]
    if k == 'beginraw': return 'DBeginRaw'
    if k == 'iftoken': return 'DIfToken %s' % coq_block(s[1], ind + 2)
    if k == 'ifroundtrip': return 'DIfRoundtrip %s %s' % (coq_block(s[1], ind + 2), coq_block(s[2], ind + 2))
    if k == 'matchws_s':
        pad = ' ' * (ind + 2)
        return 'DMatchWs [\n' + pad + (';\n' + pad).join('(%s, %s)' % (coq_pat(p), coq_block(ss, ind + 4)) for p, ss in s[1]) + ']'
    if k == 'ifleterr': return 'DIfLetErr %s %s %s' % (coq_pcall(s[1]), q(s[2]), coq_block(s[3], ind + 2))
    if k == 'ret': return 'DRet %s' % coq_rx(s[1], ind + 2)
    raise Broken('internal: ' + k)
def coq_block(ss, ind):
    if not ss: return '[]'
    if len(ss) <= 2 and all(s[0] in ('eat', 'tryident', 'enter', 'leave', 'pushbuf') or (s[0] == 'ret' and s[1][0] in ('call', 'evar', 'errcode', 'ecode')) for s in ss):
        return '[' + '; '.join(coq_stmt(s, ind) for s in ss) + ']'
    pad = ' ' * ind
    return '[\n' + pad + (';\n' + pad).join(coq_stmt(s, ind) for s in ss) + ']'

def order(bodies):
    return [f for f in ['deserialize_any', 'deserialize_bool'] + NUMBER_METHODS + TYPED_FNS[2:] + INHERENT_FNS if f in bodies]

def emit(bodies):
    L = ['(* Gen/DeTables.v — GENERATED by tools/translate_de.py from /repo/src/de.rs on every run. Do not edit.',
         "   The bodies of the typed entry points of `impl de::Deserializer<'de> for &mut Deserializer<R>` (incl. the deserialize_number! instances) and of",
         '   end / peek_invalid_type / deserialize_number / do_deserialize_f32 / _i128 / _u128 / deserialize_raw_value, statement by statement',
         '   (AST: Model/DeAst.v). *)',
         'From Coq Require Import List NArith String.', 'From SJ Require Import Base.Bytes Model.ScanAst Model.DeAst.', 'Import ListNotations.',
         'Local Open Scope string_scope.', 'Local Open Scope N_scope.', '']
    names = order(bodies)
    for fn in names:
        L.append('Definition DE_%s : dfn := mkD %s.' % (fn, coq_block(bodies[fn], 2)))
        L.append('')
    L.append('Definition DE_TABLE : dtable := [')
    L.append(';\n'.join('  (%s, DE_%s)' % (q(fn), fn) for fn in names))
    L.append('].')
    L.append('')
    return '\n'.join(L)

def main():
    ap = argparse.ArgumentParser()
    ap.add_argument('--repo', default='/repo')
    ap.add_argument('--out', default=os.path.join(os.path.dirname(os.path.abspath(__file__)), '..', 'coq', 'theories', 'Gen', 'DeTables.v'))
    a = ap.parse_args()
    bodies, broken = translate(a.repo)
    for name, why in broken:
        print('BROKEN %s: %s' % (name, why))
    if broken:
        return 3
    text = emit(bodies)
    old = open(a.out).read() if os.path.exists(a.out) else None
    if old != text:
        with open(a.out, 'w') as f:
            f.write(text)
        print('UPDATED ' + os.path.relpath(a.out))
    return 0

if __name__ == '__main__':
    sys.exit(main())
