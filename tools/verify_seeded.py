#!/usr/bin/env python3
"""verify_seeded.py <outdir> <PID> <k> — development-time: independently confirm a seeded change produced by a sub-agent:
   in a scratch worktree of /repo: (1) demo passes without the change, (2) change applies and builds, (3) the existing test suite
   passes with it, (4) the demo fails with it.  On success the change is stored as /verif/seeded/<PID>-m<k>/ with the results."""
import os, sys, json, subprocess, shutil, re
out, pid, k = sys.argv[1], sys.argv[2], sys.argv[3]
src = os.path.join(out, 'm%s' % k)
meta = json.load(open(os.path.join(src, 'meta.json')))
wt = '/tmp/seedverify_%s_%s' % (pid.lower(), k)
env = dict(os.environ, CARGO_NET_OFFLINE='true', CARGO_TARGET_DIR='/tmp/seedverify_target')
def sh(cmd, cwd=wt, timeout=3000):
    p = subprocess.run(cmd, shell=True, cwd=cwd, env=env, stdout=subprocess.PIPE, stderr=subprocess.STDOUT, timeout=timeout)
    return p.returncode, p.stdout.decode('utf-8', 'replace')
subprocess.run(['git', '-C', '/repo', 'worktree', 'remove', '--force', wt], stdout=subprocess.DEVNULL, stderr=subprocess.DEVNULL)
shutil.rmtree(wt, ignore_errors=True)
subprocess.check_call(['git', '-C', '/repo', 'worktree', 'add', '-q', '--detach', wt, 'HEAD'])
res = {}
try:
    feats = (meta.get('features') or '').strip()
    fflag = ('--features ' + feats) if feats else ''
    shutil.copy(os.path.join(src, 'demo.rs'), os.path.join(wt, 'tests', 'seeded_demo.rs'))
    rc, o = sh('cargo test --offline %s --test seeded_demo 2>&1 | tail -15' % fflag)
    res['demo_without_change'] = 'pass' if re.search(r'test result: ok', o) and 'FAILED' not in o else 'FAIL'
    res['demo_without_change_tail'] = o[-600:]
    rc, o = sh('git apply %s' % os.path.join(src, 'patch.diff'))
    res['applies'] = rc == 0
    os.remove(os.path.join(wt, 'tests', 'seeded_demo.rs'))
    rc, o = sh('cargo test --offline --workspace --no-fail-fast 2>&1 | grep -E "^test result|FAILED|^error" | head -30')
    res['existing_tests_with_change'] = 'pass' if 'FAILED' not in o and 'error' not in o and o.count('test result: ok') >= 8 else 'FAIL'
    res['existing_tests_tail'] = o[-800:]
    shutil.copy(os.path.join(src, 'demo.rs'), os.path.join(wt, 'tests', 'seeded_demo.rs'))
    rc, o = sh('cargo test --offline %s --test seeded_demo 2>&1 | tail -15' % fflag)
    res['demo_with_change'] = 'fails' if ('FAILED' in o or 'panicked' in o) else 'PASSES'
    res['demo_with_change_tail'] = o[-600:]
finally:
    subprocess.run(['git', '-C', '/repo', 'worktree', 'remove', '--force', wt], stdout=subprocess.DEVNULL, stderr=subprocess.DEVNULL)
    shutil.rmtree(wt, ignore_errors=True)
ok = res.get('demo_without_change') == 'pass' and res.get('applies') and res.get('existing_tests_with_change') == 'pass' and res.get('demo_with_change') == 'fails'
print(pid, k, 'CONFIRMED' if ok else 'NOT-CONFIRMED', {a: b for a, b in res.items() if not a.endswith('_tail')})
if ok:
    dst = os.path.join('/verif/seeded', '%s-m%s' % (pid, k))
    os.makedirs(dst, exist_ok=True)
    shutil.copy(os.path.join(src, 'patch.diff'), dst)
    shutil.copy(os.path.join(src, 'demo.rs'), dst)
    meta['breaks_property'] = pid
    meta['confirmed_by_coordinator'] = {a: b for a, b in res.items() if not a.endswith('_tail')}
    meta['what_was_run'] = 'scratch worktree of /repo HEAD: cargo test --test seeded_demo (passes), git apply patch.diff, cargo test --workspace --no-fail-fast (all pass), cargo test --test seeded_demo (fails)'
    meta.setdefault('caught_by', [])
    json.dump(meta, open(os.path.join(dst, 'meta.json'), 'w'), indent=1)
