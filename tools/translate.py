#!/usr/bin/env python3
"""Translator: regenerates coq/theories/Gen/Tables.v from /repo/src on every run.

Everything in the source that is a table, a constant, a byte set or a
code->category mapping is extracted here with a strict shape assertion.  If the
source no longer has the expected shape the item is reported as broken
(exit status 3, names on stdout as `BROKEN <item>`), and the previous value is
NOT silently reused: the caller decides what to do.

Usage: translate.py [--repo /repo] [--out <file>] [--check]
"""
import re, sys, os, json, argparse

def rd(repo, rel):
    with open(os.path.join(repo, rel), encoding='utf-8') as f:
        return f.read()

class Broken(Exception):
    pass

def byte_lit(tok):
    """Rust byte literal b'x' / b'\\n' / b'\\\\' / b'\\x08' -> int"""
    m = re.fullmatch(r"b'(\\x[0-9a-fA-F]{2}|\\.|[^\\'])'", tok.strip())
    if not m:
        raise Broken('byte literal ' + tok)
    s = m.group(1)
    if s.startswith('\\x'):
        return int(s[2:], 16)
    if s.startswith('\\'):
        return {'n': 10, 't': 9, 'r': 13, '\\': 92, "'": 39, '"': 34, '0': 0}[s[1]]
    return ord(s)

def byte_alts(s):
    return [byte_lit(t) for t in s.split('|')]

def nlist(xs):
    return '[' + '; '.join(str(x) for x in xs) + ']%N'

def zlist(xs):
    return '[' + '; '.join(('(%d)' % x) if x < 0 else str(x) for x in xs) + ']%Z'

def fn_body(src, header_re):
    """text of the function whose header matches header_re (brace matched)"""
    m = re.search(header_re, src)
    if not m:
        raise Broken('function ' + header_re)
    i = src.index('{', m.end() - 1) if src[m.end() - 1] != '{' else m.end() - 1
    depth = 0
    j = i
    while j < len(src):
        c = src[j]
        if c == '{':
            depth += 1
        elif c == '}':
            depth -= 1
            if depth == 0:
                return src[i:j + 1]
        j += 1
    raise Broken('unbalanced ' + header_re)

def squeeze(s):
    return re.sub(r'\s+', ' ', s).strip()

def translate(repo):
    out = {}
    broken = []
    def item(name, f):
        try:
            out[name] = f()
        except (Broken, KeyError, ValueError, AttributeError, IndexError) as e:
            broken.append((name, str(e)))
            out[name] = None

    de = rd(repo, 'src/de.rs')
    read = rd(repo, 'src/read.rs')
    err = rd(repo, 'src/error.rs')
    ser = rd(repo, 'src/ser.rs')

    # ---- de.rs ---------------------------------------------------------
    def ws_set():
        body = fn_body(de, r'fn parse_whitespace\(&mut self\) -> Result<Option<u8>> \{')
        m = re.search(r'Some\(([^)]*)\) => \{\s*self\.eat_char\(\);\s*\}\s*other => \{\s*return Ok\(other\);', body)
        if not m:
            # the same loop written as `while let Some(<bytes>) = <peeked> { self.eat_char(); <peek again> } Ok(<peeked>)`
            m = re.search(r'while let Some\(([^)]*)\) = (\w+) \{\s*self\.eat_char\(\);\s*\2 = tri!\(self\.peek\(\)\);\s*\}\s*Ok\(\2\)', body)
            if not (m and re.search(r'let mut %s = tri!\(self\.peek\(\)\);' % m.group(2), body)):
                raise Broken('parse_whitespace arm')
        return sorted(byte_alts(m.group(1)))
    item('WS_SET', ws_set)

    def delim_set():
        body = fn_body(de, r'fn peek_end_of_value\(&mut self\) -> Result<\(\)> \{')
        m = re.search(r'Some\(([^)]*)\)\s*\|\s*None => Ok\(\(\)\),', body)
        if not m:
            raise Broken('peek_end_of_value arm')
        return sorted(byte_alts(m.group(1)))
    item('DELIM_SET', delim_set)

    def depth0():
        ms = re.findall(r'remaining_depth: (\d+),', de)
        if len(ms) != 1:
            raise Broken('remaining_depth initialiser')
        return int(ms[0])
    item('DEPTH0', depth0)

    def overflow_macro():
        m = re.search(r'macro_rules! overflow \{(.*?)\n\}\n', de, re.S)
        if not m:
            raise Broken('overflow! macro')
        want = '($a:ident * 10 + $b:ident, $c:expr) => { match $c { c => $a >= c / 10 && ($a > c / 10 || $b > c % 10), } };'
        if squeeze(m.group(1)) != want:
            raise Broken('overflow! body changed: ' + squeeze(m.group(1)))
        return 1
    item('OVERFLOW_SHAPE', overflow_macro)

    def check_recursion_macro():
        m = re.search(r'macro_rules! check_recursion \{(.*?)\n\}\n', de, re.S)
        if not m:
            raise Broken('check_recursion! macro')
        want = ('($this:ident $($body:tt)*) => { if_checking_recursion_limit! { $this.remaining_depth -= 1; '
                'if $this.remaining_depth == 0 { return Err($this.peek_error(ErrorCode::RecursionLimitExceeded)); } } '
                '$this $($body)* if_checking_recursion_limit! { $this.remaining_depth += 1; } };')
        if squeeze(m.group(1)) != want:
            raise Broken('check_recursion! body changed: ' + squeeze(m.group(1)))
        return 1
    item('CHECK_RECURSION_SHAPE', check_recursion_macro)

    def pow10():
        m = re.search(r'static POW10: \[f64; (\d+)\] = \[(.*?)\];', de, re.S)
        if not m:
            raise Broken('POW10')
        n = int(m.group(1))
        body = re.sub(r'//[^\n]*', '', m.group(2))
        toks = [t.strip() for t in body.split(',') if t.strip()]
        exps = []
        for t in toks:
            mm = re.fullmatch(r'1e(\d{3})', t)
            if not mm:
                raise Broken('POW10 literal ' + t)
            exps.append(int(mm.group(1)))
        if len(exps) != n:
            raise Broken('POW10 length')
        return exps
    item('POW10_EXPS', pow10)

    # ---- error.rs ------------------------------------------------------
    CODES = ['Message', 'Io', 'EofWhileParsingList', 'EofWhileParsingObject', 'EofWhileParsingString',
             'EofWhileParsingValue', 'ExpectedColon', 'ExpectedListCommaOrEnd', 'ExpectedObjectCommaOrEnd',
             'ExpectedSomeIdent', 'ExpectedSomeValue', 'ExpectedDoubleQuote', 'InvalidEscape', 'InvalidNumber',
             'NumberOutOfRange', 'InvalidUnicodeCodePoint', 'ControlCharacterWhileParsingString',
             'KeyMustBeAString', 'ExpectedNumericKey', 'FloatKeyMustBeFinite',
             'LoneLeadingSurrogateInHexEscape', 'TrailingComma', 'TrailingCharacters',
             'UnexpectedEndOfHexEscape', 'RecursionLimitExceeded']
    def classify():
        body = fn_body(err, r'pub fn classify\(&self\) -> Category \{')
        m = re.search(r'match self\.err\.code \{(.*)\}\s*\}', body, re.S)
        if not m:
            raise Broken('classify match')
        arms = re.findall(r'((?:ErrorCode::\w+(?:\(_\))?\s*\|?\s*)+)=>\s*Category::(\w+),', m.group(1))
        mp = {}
        for pats, cat in arms:
            for c in re.findall(r'ErrorCode::(\w+)', pats):
                if c in mp:
                    raise Broken('classify duplicate ' + c)
                mp[c] = cat
        if sorted(mp) != sorted(CODES):
            raise Broken('classify codes %s' % sorted(set(mp) ^ set(CODES)))
        # enum declaration must list the same variants in the same order
        en = re.search(r'pub\(crate\) enum ErrorCode \{(.*?)\n\}', err, re.S)
        if not en:
            raise Broken('enum ErrorCode')
        vs = re.findall(r'^\s{4}(\w+)(?:\([^)]*\))?,', en.group(1), re.M)
        if vs != CODES:
            raise Broken('ErrorCode variants changed')
        return mp
    item('CATEGORY', classify)

    def messages():
        body = fn_body(err, r'impl Display for ErrorCode \{')
        res = {}
        for c in CODES[2:]:
            m = re.search(r'ErrorCode::%s => (?:\{\s*)?f\.write_str\("((?:[^"\\]|\\.)*)"\)' % c, body)
            if not m:
                raise Broken('message of ' + c)
            res[c] = m.group(1)
        return res
    item('MESSAGES', messages)


    def error_api():
        """the callers' view of the category: is_io / is_syntax / is_data / is_eof are classify() == the category of their name; io_error_kind is the
        kind of the wrapped io::Error; io::Error::from(Error) = the wrapped error for Io, InvalidData for Syntax / Data, UnexpectedEof for Eof;
        source() = the wrapped error's source for Io, None otherwise; fix_position repositions only an unpositioned error (line == 0)"""
        sq = squeeze(re.sub(r'^\s*//.*$', '', err, flags=re.M))
        for name, cat in (('is_io', 'Io'), ('is_syntax', 'Syntax'), ('is_data', 'Data'), ('is_eof', 'Eof')):
            forms = ('pub fn %s(&self) -> bool { self.classify() == Category::%s }' % (name, cat),
                     'pub fn %s(&self) -> bool { matches!(self.classify(), Category::%s) }' % (name, cat),
                     'pub fn %s(&self) -> bool { Category::%s == self.classify() }' % (name, cat))
            if sum(sq.count(f) for f in forms) != 1:
                raise Broken('%s is no longer `self.classify() == Category::%s`' % (name, cat))
        need = ['pub fn io_error_kind(&self) -> Option<ErrorKind> { if let ErrorCode::Io(io_error) = &self.err.code { Some(io_error.kind()) } else { None } }',
                'fn from(j: Error) -> Self { if let ErrorCode::Io(err) = j.err.code { err } else { match j.classify() { Category::Io => unreachable!(), '
                'Category::Syntax | Category::Data => io::Error::new(ErrorKind::InvalidData, j), Category::Eof => io::Error::new(ErrorKind::UnexpectedEof, j), } } }',
                'match &self.err.code { ErrorCode::Io(err) => err.source(), _ => None, }',
                'pub(crate) fn fix_position<F>(self, f: F) -> Self where F: FnOnce(ErrorCode) -> Error, { if self.err.line == 0 { f(self.err.code) } else { self } }']
        for t in need:
            if sq.count(t) != 1:
                raise Broken('error.rs no longer contains exactly once: ' + t[:90] + ' ...')
        return 1
    item('ERROR_API_SHAPE', error_api)


    def idents():
        """every `parse_ident(b"...")` site of de.rs follows the arm of the literal's first byte and names the rest of that literal:
        n -> ull, t -> rue, f -> alse (the bool map-key sites also expect the closing quote).  The model hard-codes these three literals."""
        sites = []
        for m in re.finditer(r'parse_ident\(b"((?:[^"\\]|\\.)*)"\)', de):
            before = de[:m.start()]
            arm = re.findall(r"b'(\w)'\)? => \{", before)
            if not arm:
                raise Broken('parse_ident site without a byte arm')
            sites.append((arm[-1], m.group(1)))
        want = {('n', 'ull'), ('t', 'rue'), ('f', 'alse'), ('t', 'rue\\"'), ('f', 'alse\\"')}
        if set(sites) != want:
            raise Broken('parse_ident sites %r' % sorted(set(sites) ^ want))
        if len(sites) != 15:
            raise Broken('%d parse_ident sites, the model mirrors 15' % len(sites))
        return 1
    item('IDENT_SHAPE', idents)

    # ---- read.rs -------------------------------------------------------
    def is_escape():
        m = re.search(r'fn is_escape\(ch: u8, including_control_characters: bool\) -> bool \{\s*(.*?)\s*\}', read, re.S)
        if not m:
            raise Broken('is_escape')
        mm = re.fullmatch(r"ch == (b'.+?') \|\| ch == (b'.+?') \|\| \(including_control_characters && ch < (0x[0-9A-Fa-f]+)\)", squeeze(m.group(1)))
        if not mm:
            # the same predicate spelled `matches!(ch, b'"' | b'\\') || (including_control_characters && ch <= 0x1F)` (or with `<`)
            m2 = re.fullmatch(r"matches!\(ch, (b'.+?') \| (b'.+?')\) \|\| \(including_control_characters && ch (<=?) (0x[0-9A-Fa-f]+)\)", squeeze(m.group(1)))
            if not m2:
                raise Broken('is_escape body: ' + squeeze(m.group(1)))
            return [byte_lit(m2.group(1)), byte_lit(m2.group(2)), int(m2.group(4), 16) + (1 if m2.group(3) == '<=' else 0)]
        return [byte_lit(mm.group(1)), byte_lit(mm.group(2)), int(mm.group(3), 16)]
    item('IS_ESCAPE', is_escape)

    def hex_ranges():
        body = fn_body(read, r'const fn decode_hex_val_slow\(val: u8\) -> Option<u8> \{')
        arms = re.findall(r"(b'.')\.\.=(b'.') => Some\(val - (b'.')( \+ 10)?\),", body)
        if len(arms) != 3 or '_ => None' not in body:
            raise Broken('decode_hex_val_slow arms')
        r = []
        for lo, hi, base, plus in arms:
            if byte_lit(lo) != byte_lit(base):
                raise Broken('hex base')
            r.append((byte_lit(lo), byte_lit(hi), 10 if plus else 0))
        t = squeeze(fn_body(read, r'const fn build_hex_table\(shift: usize\) -> \[i16; 256\] \{'))
        want = ('{ let mut table = [0; 256]; let mut ch = 0; while ch < 256 { table[ch] = match decode_hex_val_slow(ch as u8) '
                '{ Some(val) => (val as i16) << shift, None => -1, }; ch += 1; } table }')
        if t != want:
            raise Broken('build_hex_table body')
        if not re.search(r'static HEX0: \[i16; 256\] = build_hex_table\(0\);\s*static HEX1: \[i16; 256\] = build_hex_table\(4\);', read):
            raise Broken('HEX0/HEX1')
        d = squeeze(fn_body(read, r'fn decode_four_hex_digits\(a: u8, b: u8, c: u8, d: u8\) -> Option<u16> \{'))
        wantd = ('{ let a = HEX1[a as usize] as i32; let b = HEX0[b as usize] as i32; let c = HEX1[c as usize] as i32; '
                 'let d = HEX0[d as usize] as i32; let codepoint = ((a | b) << 8) | c | d; // A single sign bit check. '
                 'if codepoint >= 0 { Some(codepoint as u16) } else { None } }')
        if d != wantd:
            raise Broken('decode_four_hex_digits body')
        return r
    item('HEX_RANGES', hex_ranges)

    def escape_decode():
        body = fn_body(read, r'fn parse_escape<\'de, R: Read<\'de>>\(')
        arms = re.findall(r"(b'(?:\\.|.)') => scratch\.push\((b'(?:\\x[0-9a-f]{2}|\\.|.)')\),", body)
        if len(arms) != 8:
            raise Broken('parse_escape arms %d' % len(arms))
        if "b'u' => return parse_unicode_escape(read, validate, scratch)," not in body:
            raise Broken('parse_escape u arm')
        if '_ => return error(read, ErrorCode::InvalidEscape),' not in body:
            raise Broken('parse_escape default arm')
        tbl = [(byte_lit(a), byte_lit(b)) for a, b in arms]
        # ignore_escape must list the same letters
        ib = fn_body(read, r'fn ignore_escape<\'de, R>\(read: &mut R\) -> Result<\(\)>')
        m = re.search(r"((?:b'(?:\\.|.)'\s*\|\s*)+b'(?:\\.|.)') => \{\}", ib)
        if not m or sorted(byte_alts(m.group(1))) != sorted(a for a, _ in tbl):
            raise Broken('ignore_escape letters')
        return tbl
    item('ESCAPE_DECODE', escape_decode)

    def surrogates():
        body = squeeze(fn_body(read, r'fn parse_unicode_escape<\'de, R: Read<\'de>>\('))
        need = ['if validate && n >= 0xDC00 && n <= 0xDFFF {', 'if n < 0xD800 || n > 0xDBFF {',
                'if n2 < 0xDC00 || n2 > 0xDFFF {',
                'let n = ((((n1 - 0xD800) as u32) << 10) | (n2 - 0xDC00) as u32) + 0x1_0000;']
        for s in need:
            if s not in body:
                raise Broken('parse_unicode_escape: ' + s)
        return 1
    item('SURROGATE_SHAPE', surrogates)

    def swar():
        body = squeeze(fn_body(read, r'fn skip_to_escape\(&mut self, forbid_control_characters: bool\) \{'))
        need = ['const ONE_BYTES: Chunk = Chunk::MAX / 255;',
                'let contains_ctrl = chars.wrapping_sub(ONE_BYTES * 0x20) & !chars;',
                "let chars_quote = chars ^ (ONE_BYTES * Chunk::from(b'\"'));",
                'let contains_quote = chars_quote.wrapping_sub(ONE_BYTES) & !chars_quote;',
                "let chars_backslash = chars ^ (ONE_BYTES * Chunk::from(b'\\\\'));",
                'let contains_backslash = chars_backslash.wrapping_sub(ONE_BYTES) & !chars_backslash;',
                'let masked = (contains_ctrl | contains_quote | contains_backslash) & (ONE_BYTES << 7);',
                '+ masked.trailing_zeros() as usize / 8;',
                'for chunk in rest.chunks_exact(STEP) {',
                'self.index += rest.len() / STEP * STEP; self.skip_to_escape_slow();']
        for s in need:
            if s not in body:
                raise Broken('skip_to_escape: ' + s)
        return [0x20, 34, 92]
    item('SWAR', swar)

    # ---- ser.rs --------------------------------------------------------
    def escape_table():
        consts = dict((k, byte_lit(v)) for k, v in re.findall(r"const (\w\w): u8 = (b'(?:\\.|.)');", ser))
        m0 = re.search(r'const __: u8 = (\d+);', ser)
        if not m0:
            raise Broken('__ const')
        consts['__'] = int(m0.group(1))
        m = re.search(r'static ESCAPE: \[u8; 256\] = \[(.*?)\];', ser, re.S)
        if not m:
            raise Broken('ESCAPE')
        body = re.sub(r'//[^\n]*', '', m.group(1))
        toks = [t.strip() for t in body.split(',') if t.strip()]
        if len(toks) != 256:
            raise Broken('ESCAPE length %d' % len(toks))
        return [consts[t] for t in toks]
    item('ESCAPE_TABLE', escape_table)

    def char_escape():
        # from_escape_table: escape letter -> CharEscape variant ; write_char_escape: variant -> bytes
        fe = fn_body(ser, r'fn from_escape_table\(escape: u8, byte: u8\) -> CharEscape \{')
        arms = dict(re.findall(r'self::(\w\w) => CharEscape::(\w+)', fe))
        want = {'BB': 'Backspace', 'TT': 'Tab', 'NN': 'LineFeed', 'FF': 'FormFeed', 'RR': 'CarriageReturn',
                'QU': 'Quote', 'BS': 'ReverseSolidus', 'UU': 'AsciiControl'}
        if arms != want or '_ => unreachable!()' not in fe:
            raise Broken('from_escape_table arms')
        we = fn_body(ser, r'fn write_char_escape<W>\(&mut self, writer: &mut W, char_escape: CharEscape\) -> io::Result<\(\)>')
        outs = dict(re.findall(r'(\w+) => b"((?:[^"\\]|\\.)*)",', we))
        want2 = {'Quote': '\\\\\\"', 'ReverseSolidus': '\\\\\\\\', 'Solidus': '\\\\/', 'Backspace': '\\\\b',
                 'FormFeed': '\\\\f', 'LineFeed': '\\\\n', 'CarriageReturn': '\\\\r', 'Tab': '\\\\t'}
        if outs != want2:
            raise Broken('write_char_escape arms %r' % outs)
        ctl = squeeze(we)
        need = ['static HEX_DIGITS: [u8; 16] = *b"0123456789abcdef";',
                "let bytes = &[ b'\\\\', b'u', b'0', b'0', HEX_DIGITS[(byte >> 4) as usize], HEX_DIGITS[(byte & 0xF) as usize], ];"]
        for s in need:
            if s not in ctl:
                raise Broken('write_char_escape: ' + s)
        return 1
    item('CHAR_ESCAPE_SHAPE', char_escape)

    return out, broken, CODES

COQ_CODE = {c: c for c in []}

def emit(out, CODES):
    L = []
    A = L.append
    A('(* Gen/Tables.v — GENERATED by tools/translate.py from /repo/src on every run. Do not edit. *)')
    A('From Coq Require Import List NArith ZArith.')
    A('From SJ Require Import Base.Bytes.')
    A('Import ListNotations.')
    A('Open Scope N_scope.')
    A('')
    A('Definition WS_SET : list N := %s.' % nlist(out['WS_SET']))
    A('Definition DELIM_SET : list N := %s.' % nlist(out['DELIM_SET']))
    A('Definition DEPTH0 : N := %d.' % out['DEPTH0'])
    A('Definition POW10_EXPS : list Z := %s.' % zlist(out['POW10_EXPS']))
    q, b, lim = out['IS_ESCAPE']
    A('Definition ESC_QUOTE : N := %d.' % q)
    A('Definition ESC_BSLASH : N := %d.' % b)
    A('Definition CTRL_LIMIT : N := %d.' % lim)
    A('Definition SWAR_CTRL : N := %d.' % out['SWAR'][0])
    A('Definition SWAR_QUOTE : N := %d.' % out['SWAR'][1])
    A('Definition SWAR_BSLASH : N := %d.' % out['SWAR'][2])
    A('(* decode_hex_val_slow: (lo, hi, add) ranges *)')
    A('Definition HEX_RANGES : list (N * N * N) := [%s].' % '; '.join('(%d, %d, %d)' % t for t in out['HEX_RANGES']))
    A('(* parse_escape: escape letter -> pushed byte *)')
    A('Definition ESCAPE_DECODE : list (N * N) := [%s].' % '; '.join('(%d, %d)' % t for t in out['ESCAPE_DECODE']))
    A('(* ser.rs ESCAPE table: 256 entries, 0 = not escaped, otherwise the escape letter *)')
    A('Definition ESCAPE_TABLE : list N := %s.' % nlist(out['ESCAPE_TABLE']))
    A('')
    A('Definition category (c : ecode) : cat :=')
    A('  match c with')
    catmap = {'Io': 'CatIo', 'Syntax': 'CatSyntax', 'Data': 'CatData', 'Eof': 'CatEof'}
    for c in CODES:
        pat = c + ' _' if c in ('Message', 'Io') else c
        A('  | %s => %s' % (pat, catmap[out['CATEGORY'][c]]))
    A('  end.')
    A('')
    return '\n'.join(L) + '\n'

def main():
    ap = argparse.ArgumentParser()
    ap.add_argument('--repo', default='/repo')
    ap.add_argument('--out', default=os.path.join(os.path.dirname(os.path.abspath(__file__)), '..', 'coq', 'theories', 'Gen', 'Tables.v'))
    ap.add_argument('--json', default=None)
    a = ap.parse_args()
    out, broken, CODES = translate(a.repo)
    for name, why in broken:
        print('BROKEN %s: %s' % (name, why))
    if a.json:
        with open(a.json, 'w') as f:
            json.dump({'items': out, 'broken': broken}, f)
    if broken:
        return 3
    text = emit(out, CODES)
    old = None
    if os.path.exists(a.out):
        with open(a.out) as f:
            old = f.read()
    if old != text:
        with open(a.out, 'w') as f:
            f.write(text)
        print('UPDATED ' + os.path.relpath(a.out))
    return 0

if __name__ == '__main__':
    sys.exit(main())
