#!/bin/sh
# build_model.sh [make-target...] — (re)generate tables, build Coq (full .vo build), extract, compile the OCaml driver.
set -e
cd "$(dirname "$0")/.."
python3 tools/translate.py
cd coq
if [ ! -f Makefile ] || [ _CoqProject -nt Makefile ] || [ "$(find theories -name '*.v' -newer Makefile | head -1)" != "" ]; then
  coq_makefile -f _CoqProject $(find theories -name '*.v' | sort) -o Makefile > /dev/null
fi
if [ $# -gt 0 ]; then
  timeout 3000 make -j16 "$@" 2>&1 | grep -v '^COQ\|^make\|^CLEAN' || true
else
  timeout 3000 make -j16 2>&1 | grep -v '^COQ\|^make\|^CLEAN' || true
fi
test -f theories/Extract/Extract.vo || { echo "BUILD-FAILED extraction"; exit 1; }
mkdir -p ../ocaml/gen
if [ ! -f ../ocaml/gen/sjmodel.ml ] || [ sjmodel.ml -nt ../ocaml/gen/sjmodel.ml ] ; then
  if [ -f sjmodel.ml ]; then mv sjmodel.ml sjmodel.mli ../ocaml/gen/; fi
fi
cd ../ocaml
if [ ! -x sjdriver ] || [ gen/sjmodel.ml -nt sjdriver ] || [ driver.ml -nt sjdriver ]; then
  (cd gen && ocamlfind ocamlopt -O2 -w -a -I . sjmodel.mli sjmodel.ml ../driver.ml -o ../sjdriver.tmp 2>&1 | tail -5) && mv sjdriver.tmp sjdriver
fi
echo MODEL-OK
