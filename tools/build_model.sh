#!/bin/sh
# build_model.sh [make-target...] — (re)generate tables, build Coq (full .vo build), extract, compile the OCaml drivers.
# Extraction files: coq/theories/Extract/Extract.v -> sjmodel.ml (driver ocaml/driver.ml -> ocaml/sjdriver)
#                   coq/theories/Extract/Extract_<name>.v -> sjmodel_<name>.ml (driver ocaml/driver_<name>.ml -> ocaml/sjdriver_<name>)
set -e
cd "$(dirname "$0")/.."
python3 tools/translate.py || true
# every other translator (tables, statement-level translations): tools/translate_<x>.py -> coq/theories/Gen/<X>Tables.v
for t in tools/translate_*.py; do python3 "$t" || true; done
cd coq
# the development = the files listed in coq/FILES (work in progress on disk that is not listed is not built, not audited)
if [ ! -f Makefile ] || [ _CoqProject -nt Makefile ] || [ FILES -nt Makefile ]; then
  coq_makefile -f _CoqProject $(grep -v '^#' FILES | grep . ) -o Makefile > /dev/null
fi
if [ $# -gt 0 ]; then
  timeout 3000 make -j16 "$@" 2>&1 | grep -v '^COQ\|^make\|^CLEAN' || true
else
  timeout 3000 make -j16 2>&1 | grep -v '^COQ\|^make\|^CLEAN' || true
fi
test -f theories/Extract/Extract.vo || { echo "BUILD-FAILED extraction"; exit 1; }
mkdir -p ../ocaml/gen
for f in sjmodel*.ml; do
  [ -f "$f" ] || continue
  base="${f%.ml}"
  if [ ! -f "../ocaml/gen/$f" ] || ! cmp -s "$f" "../ocaml/gen/$f"; then
    cp "$f" "../ocaml/gen/$f"; cp "$base.mli" "../ocaml/gen/$base.mli"
  fi
  rm -f "$f" "$base.mli"
done
cd ../ocaml
for m in gen/sjmodel*.ml; do
  base="$(basename "$m" .ml)"            # sjmodel or sjmodel_<name>
  suffix="${base#sjmodel}"               # "" or _<name>
  drv="driver$suffix.ml"; exe="sjdriver$suffix"
  [ -f "$drv" ] || continue
  if [ ! -x "$exe" ] || [ "$m" -nt "$exe" ] || [ "$drv" -nt "$exe" ]; then
    rm -rf "gen/build$suffix"; mkdir -p "gen/build$suffix"
    cp "gen/$base.ml" "gen/$base.mli" "$drv" "gen/build$suffix/"
    (cd "gen/build$suffix" && ocamlfind ocamlopt -O2 -w -a -I . "$base.mli" "$base.ml" "$drv" -o "../../$exe.tmp" 2>&1 | tail -5) && mv "$exe.tmp" "$exe"
  fi
done
# the preserve_order personality of the pointer driver (same binary, chosen by its name)
if [ -x sjdriver_ptr ] && { [ ! -x sjdriver_ptr_po ] || [ sjdriver_ptr -nt sjdriver_ptr_po ]; }; then cp sjdriver_ptr sjdriver_ptr_po; fi
echo MODEL-OK
