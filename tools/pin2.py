#!/usr/bin/env python3
"""pin2.py <Module> <lemma>=<NewName> ... — print pinned copies of (possibly section-discharged) lemmas of SJ.<Module>:
   `Theorem <NewName> : <type as Coq prints it>. Proof. exact (@<Module>.<lemma>). Qed.`  (development-time helper)"""
import re, subprocess, sys, tempfile, os
mod = sys.argv[1]
pairs = [a.split('=') for a in sys.argv[2:]]
src = 'From SJ Require %s.\nSet Printing Width 100000.\nSet Printing Depth 100000.\n' % mod
for l, n in pairs:
    src += 'Check @%s.%s.\n' % (mod.split('.')[-1], l)
with tempfile.TemporaryDirectory() as d:
    f = os.path.join(d, 'pinq.v'); open(f, 'w').write(src)
    out = subprocess.run(['coqc', '-Q', 'theories', 'SJ', f], cwd='/verif/coq', capture_output=True, text=True).stdout
blocks = re.split(r'^(?=\S)', out, flags=re.M)
types = {}
for b in blocks:
    m = re.match(r'(?:@)?([\w.]+)\s*\n?\s*:\s*(.*)$', b.strip(), re.S)
    if m:
        types[m.group(1).split('.')[-1]] = ' '.join(m.group(2).split())
print('From SJ Require %s.' % mod)
for l, n in pairs:
    t = types[l]
    # break the line at top-level arrows for readability
    t = t.replace(' -> ', ' ->\n  ')
    print('Theorem %s :\n  %s.\nProof. exact (@%s.%s). Qed.\nPrint Assumptions %s.\n' % (n, t, mod.split('.')[-1], l, n))
