#!/usr/bin/env python3
"""run_seeded.py [ID-mK ...] — development-time: run the registered quick check of the property each stored seeded change breaks
against a scratch worktree with the change applied (tools/try_mutation.sh), record the outcome in seeded/<ID-mK>/result.json and
regenerate seeded/MATRIX.md.  /repo is never modified."""
import os, sys, json, subprocess, re, time
V = '/verif'
S = os.path.join(V, 'seeded')
EXTRA = {'C01': ['C09'], 'C11': ['C09'], 'C05': ['C09', 'C01'], 'C04': ['C03', 'C14'], 'C06': ['C02'], 'C07': [], 'C10': [], 'C12': ['C13', 'C14']}
def claimed():
    m = json.load(open(os.path.join(V, 'MANIFEST.json')))
    return [c['property_id'] for c in m['checks']]
def main():
    ids = sys.argv[1:] or sorted(d for d in os.listdir(S) if os.path.isdir(os.path.join(S, d)))
    cl = claimed()
    for d in ids:
        pid = d.split('-')[0]
        checks = [c for c in [pid] + EXTRA.get(pid, []) if c in cl]
        if not checks:
            continue
        t = time.time()
        p = subprocess.run([os.path.join(V, 'tools', 'try_mutation.sh'), os.path.join(S, d, 'patch.diff')] + checks,
                           stdout=subprocess.PIPE, stderr=subprocess.STDOUT, timeout=7200)
        out = p.stdout.decode('utf-8', 'replace')
        res = {}
        cur = None
        for line in out.splitlines():
            m = re.match(r'=== (C\d+) against', line)
            if m:
                cur = m.group(1); res[cur] = {'violation': False, 'with_input': False, 'whats': []}
            elif cur and line.startswith('VIOLATION'):
                res[cur]['violation'] = True
                if 'no-failing-input-found' not in line:
                    res[cur]['with_input'] = True
            elif cur and 'what:' in line:
                res[cur]['whats'].append(line.split('what:')[1].strip())
            elif cur and ('Traceback' in line or 'AUDIT' in line):
                res[cur]['error'] = line
        json.dump({'checks': res, 'wall_s': round(time.time() - t), 'at': time.strftime('%Y-%m-%d %H:%M')}, open(os.path.join(S, d, 'result.json'), 'w'), indent=1)
        print(d, {k: ('CAUGHT' if v['with_input'] else 'broken-tie-only' if v['violation'] else 'missed') for k, v in res.items()}, flush=True)
    matrix()
def matrix():
    rows = []
    for d in sorted(os.listdir(S)):
        rp = os.path.join(S, d, 'result.json'); mp = os.path.join(S, d, 'meta.json')
        if not os.path.exists(mp):
            continue
        meta = json.load(open(mp))
        res = json.load(open(rp))['checks'] if os.path.exists(rp) else {}
        caught = [k + (' (%s)' % ', '.join(sorted(set(v['whats']))[:3]) if v['whats'] else '') for k, v in res.items() if v['with_input']]
        tie = [k for k, v in res.items() if v['violation'] and not v['with_input']]
        missed = [k for k, v in res.items() if not v['violation']]
        meta['caught_by'] = [k for k, v in res.items() if v['with_input']]
        json.dump(meta, open(mp, 'w'), indent=1)
        rows.append('| %s | %s | %s | %s | %s |' % (d, meta.get('summary', '').replace('|', '/')[:150], '; '.join(caught) or '-', ', '.join(tie) or '-', ', '.join(missed) or '-'))
    with open(os.path.join(S, 'MATRIX.md'), 'w') as f:
        f.write('# Seeded changes and the checks that catch them\n\nEach change was produced by a sub-agent that saw only the property text, confirmed independently (tools/verify_seeded.py: builds, existing tests pass, demo fails with / passes without the change) and run through the registered QUICK checks against a scratch worktree (tools/run_seeded.py). "caught" = VIOLATION with a concrete failing input; "tie only" = a broken proof/translator tie reported with no-failing-input-found; "missed" = check stayed quiet.\n\n| change | summary | caught by (failure class) | tie only | missed by |\n|---|---|---|---|---|\n')
        f.write('\n'.join(rows) + '\n')
if __name__ == '__main__':
    main()
