#!/usr/bin/env python3
"""translate_esc.py — regenerates coq/theories/Gen/EscTables.v from /repo/src/ser.rs (+ the tri! macro of lib.rs) on every run.

A statement-level translator for the STRING ESCAPING side of the text serializer (property C05):

    fn format_escaped_str / fn format_escaped_str_contents           the loop over the bytes with `start`, the ESCAPE lookup, the pending fragment
    CharEscape::from_escape_table, pub enum CharEscape                 the match on the named constants; the variants with their arity
    Formatter::{begin_string, end_string, write_string_fragment, write_char_escape}
                                                                       trait defaults (checked: no `impl .. Formatter for ..` of ser.rs overrides them)
    Serializer::{serialize_str, serialize_char}, MapKeySerializer::{serialize_str, serialize_char}
    const NAME: u8 = ..;  (all of them)      static ESCAPE: [u8; 256] = [NAME, ..]   (the entries are kept as the NAMES the source writes)

The bodies are parsed into the AST of Model/EscAst.v; Proofs/EscSrc.v then proves that the hand-written models (Model/SerStr.v, Model/Ser.v)
equal the interpretation of the generated bodies.  The subset:

    item ::= let [mut] x = E;  |  let x = CharEscape::from_escape_table(E, E);  |  let [mut] x = [0; n];  |  static X: [u8; n] = *b"..";
           | let x = match v { V => E, V(y) => { item* [E] }, .. };            v : CharEscape, every variant exactly once, no wildcard
           | x = E;  |  tri!(C);  |  if E cmp E { item* } [else { item* }]  |  for (i, &x) in E.iter().enumerate() { item* }  |  continue;
           | return R;  |  R                                               (R only in tail position)
           | match v { self::K => E, .., _ => unreachable!() }              (tail position of a value function; v an integer parameter)
    R    ::= Ok(()) | C | E
    C    ::= writer.write_all(E) | formatter.m(writer, E..) | self.m(writer, E..) | f(writer, formatter, E..)
           | format_escaped_str(&mut self.writer, &mut self.formatter, E) | self.serialize_str(E) | self.ser.serialize_str(E) | C.map_err(Error::io)
    E    ::= E `|` E | E & E | E >> k | E + E | E - E | E as T | ( E ) | x | literal | b'c' | b".." | TAB[E] | E.len() | E.as_bytes()
           | &E[E..E] | &E[E..] | &[E, ..] | E.encode_utf8(&mut x | &mut [0u8; n]) | CharEscape::V | CharEscape::V(E)
           with Rust's precedences; every integer literal gets the type (u8 / usize) of the operand it meets — also later, through the variable
           it initialises (`let mut start = 0;`); a literal that never meets a type, or meets two, is outside the subset.
A Result-valued call stands under tri! or in tail / return position, and its error type is the function's (io::Result vs Result: `.map_err(Error::io)`).

Pinned by exact (whitespace-squeezed) text: the signatures of the twelve functions, `use self::CharEscape::*;` at the head of write_char_escape
(it makes the bare names in the patterns variants, not bindings), the impl headers, `struct Serializer { writer, formatter }`,
`struct MapKeySerializer { ser }`, the tri! macro.  Anything else: `BROKEN esc:<what>: <why>`, exit status 3, the previous file is NOT rewritten.

Usage: translate_esc.py [--repo /repo] [--out <file>]        (--repo defaults to $VERIF_REPO, then /repo)
"""
import re, sys, os, argparse
sys.path.insert(0, os.path.dirname(os.path.abspath(__file__)))
import translate_fmt as tf
Broken, block_at, squeeze, find_block = tf.Broken, tf.block_at, tf.squeeze, tf.find_block

W1 = 'where W: ?Sized + io::Write,'
W2 = 'where W: ?Sized + io::Write, F: ?Sized + Formatter,'
# name -> (where it lives, squeezed text between `fn <name>` and the body, value parameters, kind)
FNS = [
    ('format_escaped_str', 'free', '<W, F>(writer: &mut W, formatter: &mut F, value: &str) -> io::Result<()> ' + W2, [('value', 'str')], 'io'),
    ('format_escaped_str_contents', 'free', '<W, F>( writer: &mut W, formatter: &mut F, value: &str, ) -> io::Result<()> ' + W2, [('value', 'str')], 'io'),
    ('CharEscape::from_escape_table', 'charescape', '(escape: u8, byte: u8) -> CharEscape', [('escape', 'u8'), ('byte', 'u8')], 'value'),
    ('Formatter::begin_string', 'formatter', '<W>(&mut self, writer: &mut W) -> io::Result<()> ' + W1, [], 'io'),
    ('Formatter::end_string', 'formatter', '<W>(&mut self, writer: &mut W) -> io::Result<()> ' + W1, [], 'io'),
    ('Formatter::write_string_fragment', 'formatter', '<W>(&mut self, writer: &mut W, fragment: &str) -> io::Result<()> ' + W1, [('fragment', 'str')], 'io'),
    ('Formatter::write_char_escape', 'formatter', '<W>(&mut self, writer: &mut W, char_escape: CharEscape) -> io::Result<()> ' + W1,
     [('char_escape', 'enum')], 'io'),
    ('Serializer::serialize_str', 'ser', '(self, value: &str) -> Result<()>', [('value', 'str')], 'res'),
    ('Serializer::serialize_char', 'ser', '(self, value: char) -> Result<()>', [('value', 'char')], 'res'),
    ('MapKeySerializer::serialize_str', 'mapkey', '(self, value: &str) -> Result<()>', [('value', 'str')], 'res'),
    ('MapKeySerializer::serialize_char', 'mapkey', '(self, value: char) -> Result<()>', [('value', 'char')], 'res'),
]
FN = {n: (ctx, head, params, kind) for n, ctx, head, params, kind in FNS}
STRING_METHODS = ['begin_string', 'end_string', 'write_string_fragment', 'write_char_escape']
HEADERS = {
    'charescape': r'\bimpl CharEscape\s*\{',
    'formatter': r'\bpub trait Formatter\s*\{',
    'ser': r"\bimpl<'a, W, F> ser::Serializer for &'a mut Serializer<W, F>\s*where\s*W: io::Write,\s*F: Formatter,\s*\{",
    'mapkey': r"\bimpl<'a, W, F> ser::Serializer for MapKeySerializer<'a, W, F>\s*where\s*W: io::Write,\s*F: Formatter,\s*\{",
}
PIN_LINES = [
    ('struct Serializer', 'pub struct Serializer<W, F = CompactFormatter> { writer: W, formatter: F, }'),
    ('struct MapKeySerializer', "struct MapKeySerializer<'a, W: 'a, F: 'a> { ser: &'a mut Serializer<W, F>, }"),
]
TRI = ('macro_rules! tri { ($e:expr $(,)?) => { match $e { core::result::Result::Ok(val) => val, '
       'core::result::Result::Err(err) => return core::result::Result::Err(err), } }; }')
ENUM_NAME = 'CharEscape'
TY_COQ = {'u8': 'TInt U8', 'usize': 'TInt Usize', 'str': 'TStr', 'slice': 'TSlice', 'char': 'TChar', 'enum': 'TEnum'}
KIND_COQ = {'io': 'FIoResult', 'res': 'FResult', 'value': 'FValue'}
INTS = {'u8': ('U8', 2 ** 8 - 1), 'usize': ('Usize', 2 ** 64 - 1)}
BITS = {'u8': 8, 'usize': 64}
PARAM_TY = {'&str': 'str', 'char': 'char', 'u8': 'u8', 'CharEscape': 'enum'}

TOKEN = re.compile(r"""\s*(b"(?:[^"\\]|\\.)*"|b'(?:\\x[0-9a-fA-F]{2}|\\.|[^\\'])'|0x[0-9A-Fa-f_]+|0b[01_]+|[0-9][0-9_]*(?:u8|usize)?"""
                   r"""|[A-Za-z_][A-Za-z0-9_]*|\.\.=|\.\.|=>|->|::|==|!=|<=|>=|<<|>>|&&|\|\||[|&+\-<>(){}\[\],;!=.*:#])""")
ESC = {'n': 10, 't': 9, 'r': 13, '\\': 92, '"': 34, '0': 0, "'": 39}
IDENT = re.compile(r'[A-Za-z_][A-Za-z0-9_]*\Z')
NUMBER = re.compile(r'(0x[0-9A-Fa-f_]+|0b[01_]+|[0-9][0-9_]*)(u8|usize)?\Z')
KEYWORDS = {'_', 'self', 'let', 'mut', 'if', 'else', 'match', 'while', 'loop', 'return', 'as', 'true', 'false', 'fn', 'for', 'in', 'break',
            'continue', 'ref', 'move', 'unsafe', 'static', 'const', 'use', 'tri', 'writer', 'formatter', 'Ok', 'Err', 'unreachable'}
CMPS = {'<': 'CLt', '<=': 'CLe', '>': 'CGt', '>=': 'CGe', '==': 'CEq', '!=': 'CNe'}

def strip_comments(s):
    """drops // comments; aware of (byte) string and char literals, so a `//` inside a literal stays"""
    out, i, n = [], 0, len(s)
    while i < n:
        c = s[i]
        if c == '"':
            j = i + 1
            while j < n and s[j] != '"':
                j += 2 if s[j] == '\\' else 1
            out.append(s[i:j + 1]); i = j + 1; continue
        if c == "'":
            m = tf.CHARLIT.match(s, i)
            if m:
                out.append(m.group(0)); i = m.end(); continue
        if s.startswith('//', i):
            while i < n and s[i] != '\n':
                i += 1
            continue
        if s.startswith('/*', i):
            raise Broken('block comment')
        out.append(c); i += 1
    return ''.join(out)

def tokenize(s):
    out, i = [], 0
    s = s.strip()
    while i < len(s):
        m = TOKEN.match(s, i)
        if not m:
            raise Broken('token outside the subset at `%s`' % s[i:i + 40].strip())
        out.append(m.group(1))
        i = m.end()
    return out

def byte_value(tok):
    body = tok[2:-1]
    if body.startswith('\\x'):
        return int(body[2:], 16)
    if body.startswith('\\'):
        if body[1] not in ESC:
            raise Broken('escape in literal %s' % tok)
        return ESC[body[1]]
    if ord(body) > 127:
        raise Broken('non-ASCII literal %s' % tok)
    return ord(body)

def num_value(tok):
    m = NUMBER.match(tok)
    t = m.group(1).replace('_', '')
    v = int(t[2:], 16) if t.startswith('0x') else int(t[2:], 2) if t.startswith('0b') else int(t)
    return v, m.group(2)

class Cell:
    """the type of an integer literal (and of the variables it flows into) until an operand decides it"""
    def __init__(self, v):
        self.vals, self.t = [v], None
    def fix(self, ty):
        if ty not in INTS:
            raise Broken('integer literal used at type %s' % ty)
        if self.t is not None and self.t != ty:
            raise Broken('integer literal used at two types (%s / %s)' % (self.t, ty))
        for v in self.vals:
            if not 0 <= v <= INTS[ty][1]:
                raise Broken('literal %d does not fit %s' % (v, ty))
        self.t = ty

def rty(t):
    """the decided type behind t (a Cell once fixed is its type)"""
    if isinstance(t, Cell) and t.t is not None:
        return t.t
    return t

def unify(ta, tb, where):
    ta, tb = rty(ta), rty(tb)
    if isinstance(ta, Cell) and isinstance(tb, Cell):
        if ta is tb: return ta
        raise Broken('operator between two untyped literals before `%s`' % where)
    if isinstance(ta, Cell): ta.fix(tb); return tb
    if isinstance(tb, Cell): tb.fix(ta); return ta
    if ta != tb:
        raise Broken('operands of different types %s / %s before `%s`' % (ta, tb, where))
    return ta

class P:
    """recursive descent over the token list of one function body"""
    def __init__(self, toks, fn, consts, statics, enum):
        self.t, self.i, self.fn = toks, 0, fn
        self.ctx, _, self.params, self.kind = FN[fn]
        self.consts, self.statics, self.enum = consts, statics, enum
        self.glob_enum, self.in_for = False, 0
        self.cells = []
    # ---- token access ----
    def at(self, *lits):
        return self.t[self.i:self.i + len(lits)] == list(lits)
    def eat(self, *lits):
        if self.at(*lits):
            self.i += len(lits)
            return True
        return False
    def ats(self, text):
        return self.at(*tokenize(text))
    def eats(self, text):
        return self.eat(*tokenize(text))
    def here(self):
        return ' '.join(self.t[self.i:self.i + 12])
    def need(self, *lits):
        if not self.eat(*lits):
            raise Broken('expected `%s` at `%s`' % (' '.join(lits), self.here()))
    def needs(self, text):
        self.need(*tokenize(text))
    def peek(self, k=0):
        return self.t[self.i + k] if self.i + k < len(self.t) else ''
    def is_ident(self, k=0):
        return bool(IDENT.match(self.peek(k))) and self.peek(k) not in KEYWORDS
    def ident(self):
        if self.is_ident():
            self.i += 1
            return self.t[self.i - 1]
        raise Broken('identifier expected at `%s`' % self.here())
    def plain_number(self):
        if NUMBER.match(self.peek()):
            v, suf = num_value(self.peek())
            if suf is None:
                self.i += 1
                return v
        raise Broken('plain integer literal expected at `%s`' % self.here())

    # ---- expressions: (ast, type); type is one of u8 usize str slice char enum zeros, or a Cell ----
    def binlevel(self, sub, ops):
        a, ta = sub()
        while self.peek() in ops:
            op = ops[self.peek()]; self.i += 1
            b, tb = sub()
            ta = unify(ta, tb, self.here())
            if rty(ta) not in INTS:
                raise Broken('arithmetic on %s' % rty(ta))
            a = ('bin', op, a, b)
        return a, ta
    def e_or(self, sc):
        return self.binlevel(lambda: self.e_and(sc), {'|': 'OOr'})
    def e_and(self, sc):
        return self.binlevel(lambda: self.e_shift(sc), {'&': 'OAnd'})
    def e_shift(self, sc):
        a, ta = self.e_add(sc)
        while self.peek() == '>>':
            self.i += 1
            k = self.plain_number()
            if rty(ta) not in INTS:
                raise Broken('shift of a value whose type is not a decided integer type')
            if k >= BITS[rty(ta)]:
                raise Broken('shift by %d in %s' % (k, rty(ta)))
            a = ('shr', a, k)
        if self.peek() == '<<':
            raise Broken('`<<` is outside the subset')
        return a, ta
    def e_add(self, sc):
        return self.binlevel(lambda: self.e_cast(sc), {'+': 'OAdd', '-': 'OSub'})
    def e_cast(self, sc):
        a, ta = self.e_unary(sc)
        while self.eat('as'):
            ty = self.peek()
            if ty not in INTS:
                raise Broken('cast to `%s`' % ty)
            self.i += 1
            if rty(ta) not in INTS:
                raise Broken('cast of a value whose type is not a decided integer type')
            a, ta = ('cast', a, ty), ty
        return a, ta
    def zeros(self):
        """[0; n] / [0u8; n]  (self.at('['))"""
        self.need('[')
        if not NUMBER.match(self.peek()):
            raise Broken('`[0; n]` expected at `%s`' % self.here())
        v, suf = num_value(self.peek()); self.i += 1
        if v != 0 or suf not in (None, 'u8'):
            raise Broken('array repeat expression other than [0; n] / [0u8; n]')
        self.need(';')
        n = self.plain_number()
        self.need(']')
        return ('zeros', n), 'zeros'
    def array(self, sc):
        """[E, ..] of u8  (self.at('['))"""
        self.need('[')
        es = []
        while not self.at(']'):
            e, te = self.e_or(sc)
            unify(te, 'u8', self.here())
            es.append(e)
            if not self.at(']'):
                self.need(',')
        self.need(']')
        if not es:
            raise Broken('empty array literal')
        return ('array', es), 'slice'
    def e_unary(self, sc):
        if self.eat('&'):
            if self.at('mut'):
                raise Broken('`&mut` outside encode_utf8')
            if self.at('['):
                return self.array(sc)
            e, te = self.e_postfix(sc, borrowed=True)
            if e[0] not in ('range', 'from'):
                raise Broken('`&` in front of something that is not a slicing or an array literal, before `%s`' % self.here())
            return e, te
        return self.e_postfix(sc, borrowed=False)
    def e_postfix(self, sc, borrowed):
        a, ta = self.e_primary(sc)
        while True:
            if self.eats('.len()'):
                if rty(ta) not in ('str', 'slice'): raise Broken('.len() of %s' % rty(ta))
                a, ta = ('len', a), 'usize'; continue
            if self.eats('.as_bytes()'):
                if rty(ta) != 'str': raise Broken('.as_bytes() of %s' % rty(ta))
                a, ta = ('asbytes', a), 'slice'; continue
            if self.eats('.encode_utf8('):
                if rty(ta) != 'char': raise Broken('.encode_utf8 of %s' % rty(ta))
                self.need('&', 'mut')
                if self.at('['):
                    b, _ = self.zeros()
                else:
                    x = self.ident()
                    if rty(sc.get(x)) != 'zeros': raise Broken('encode_utf8 into `%s`, which is not a `[0; n]` buffer' % x)
                    b = ('var', x)
                self.need(')')
                a, ta = ('encode', a, b), 'str'; continue
            if self.at('['):
                if a[0] != 'var' and a[0] != 'static':
                    raise Broken('indexing of a compound expression at `%s`' % self.here())
                self.i += 1
                lo, tlo = self.e_or(sc)
                unify(tlo, 'usize', self.here())
                if self.eat('..'):
                    if not borrowed: raise Broken('slicing without `&`')
                    if a[0] != 'var' or rty(ta) not in ('str', 'slice'): raise Broken('slicing of %s' % rty(ta))
                    if self.eat(']'):
                        a = ('from', a, lo)
                    else:
                        hi, thi = self.e_or(sc)
                        unify(thi, 'usize', self.here())
                        self.need(']')
                        a = ('range', a, lo, hi)
                    borrowed = False
                    continue
                self.need(']')
                if a[0] == 'static' or (a[0] == 'var' and rty(ta) == 'array'):
                    a, ta = ('index', a[1], lo), 'u8'; continue
                raise Broken('indexing of `%s`, which is not a static array' % a[1])
            if self.at('.'):
                raise Broken('method outside the subset at `%s`' % self.here())
            return a, ta
    def e_primary(self, sc):
        if self.eat('('):
            r = self.e_or(sc)
            self.need(')')
            return r
        tok = self.peek()
        if tok.startswith("b'"):
            self.i += 1
            return ('lit', 'u8', byte_value(tok)), 'u8'
        if tok.startswith('b"'):
            self.i += 1
            return ('bytes', tf.bytestr(tok)), 'slice'
        if NUMBER.match(tok):
            v, suf = num_value(tok); self.i += 1
            if suf is not None:
                if not 0 <= v <= INTS[suf][1]: raise Broken('literal %s out of range' % tok)
                return ('lit', suf, v), suf
            c = Cell(v); self.cells.append(c)
            return ('lit', c, v), c
        if self.at(ENUM_NAME, '::'):
            self.i += 2
            v = self.ident()
            if v not in self.enum: raise Broken('unknown variant %s::%s' % (ENUM_NAME, v))
            args = []
            if self.eat('('):
                while not self.at(')'):
                    e, te = self.e_or(sc)
                    unify(te, 'u8', self.here())
                    args.append(e)
                    if not self.at(')'): self.need(',')
                self.need(')')
            if len(args) != self.enum[v]: raise Broken('%s::%s takes %d fields' % (ENUM_NAME, v, self.enum[v]))
            return ('ctor', v, args), 'enum'
        if self.is_ident():
            x = self.ident()
            if x in sc:
                return ('var', x), sc[x]
            if x in self.statics:
                return ('static', x), 'array'
            raise Broken('unknown variable `%s`' % x)
        raise Broken('expression outside the subset at `%s`' % self.here())
    def value_expr(self, sc, want=None):
        e, te = self.e_or(sc)
        if want is not None:
            te = unify(te, want, self.here())
        return e, te

    def cond(self, sc):
        a, ta = self.e_or(sc)
        if self.peek() not in CMPS:
            raise Broken('comparison expected at `%s`' % self.here())
        op = CMPS[self.peek()]; self.i += 1
        b, tb = self.e_or(sc)
        t = unify(ta, tb, self.here())
        if isinstance(rty(t), Cell) or rty(t) not in INTS:
            raise Broken('comparison of values that are not of a decided integer type')
        if self.peek() in ('&&', '||'):
            raise Broken('`&&` / `||` are outside the subset')
        return ('cmp', op, a, b)

    # ---- calls: (ast, kind) or None ----
    def args_after(self, sc, callee):
        """the value arguments of a call of `callee`, up to and including `)`"""
        want = FN[callee][2]
        out = []
        for k, (_, ty) in enumerate(want):
            e, _ = self.value_expr(sc, ty)
            out.append(e)
            if k + 1 < len(want): self.need(',')
        self.eat(',')
        self.need(')')
        return out
    def call(self, sc):
        c = self.call0(sc)
        if c is None:
            return None
        node, kind = c
        while self.eats('.map_err(Error::io)'):
            if kind != 'io': raise Broken('.map_err(Error::io) on a call that does not return io::Result')
            node, kind = ('maperr', node), 'res'
        if self.at('.'):
            raise Broken('method on a call result outside the subset at `%s`' % self.here())
        return node, kind
    def call0(self, sc):
        ctx = self.ctx
        if ctx in ('free', 'formatter') and self.eats('writer.write_all('):
            e, _ = self.value_expr(sc, 'slice')
            self.need(')')
            return ('write', e), 'io'
        if ctx in ('free', 'formatter') and self.at('formatter' if ctx == 'free' else 'self', '.') and self.peek(3) == '(':
            m = 'Formatter::' + self.peek(2)
            if m not in FN: raise Broken('call of Formatter method `%s`, which is not translated' % self.peek(2))
            self.i += 4
            self.need('writer')
            if FN[m][2]: self.need(',')
            return ('fn', m, self.args_after(sc, m)), FN[m][3]
        if ctx == 'free' and self.peek() in FN and FN[self.peek()][0] == 'free' and self.peek(1) == '(':
            f = self.peek(); self.i += 2
            self.needs('writer, formatter,')
            return ('fn', f, self.args_after(sc, f)), FN[f][3]
        if ctx == 'ser' and self.peek() in FN and FN[self.peek()][0] == 'free' and self.peek(1) == '(':
            f = self.peek(); self.i += 2
            self.needs('&mut self.writer, &mut self.formatter,')
            return ('fn', f, self.args_after(sc, f)), FN[f][3]
        if ctx in ('ser', 'mapkey') and self.at('self', '.'):
            j = self.i + 2
            if ctx == 'mapkey':
                if self.t[j:j + 2] != ['ser', '.']: raise Broken('call on `self` of MapKeySerializer that does not go through `self.ser` at `%s`' % self.here())
                j += 2
            m = 'Serializer::' + (self.t[j] if j < len(self.t) else '')
            if m not in FN or self.t[j + 1:j + 2] != ['(']: raise Broken('call of a Serializer method that is not translated at `%s`' % self.here())
            self.i = j + 2
            return ('fn', m, self.args_after(sc, m)), FN[m][3]
        return None
    def result_call(self, sc, what):
        c = self.call(sc)
        if c is None:
            raise Broken('%s of something outside the subset at `%s`' % (what, self.here()))
        node, kind = c
        if kind != self.kind:
            raise Broken('%s of a call returning %s in a function returning %s' % (what, kind, self.kind))
        return node

    # ---- items ----
    def block(self, tail, sc, allow_value=False):
        self.need('{')
        out = self.items(tail, dict(sc), allow_value)
        self.need('}')
        return out
    def skip_block(self, j):
        if self.t[j:j + 1] != ['{']: raise Broken('`{` expected at `%s`' % ' '.join(self.t[j:j + 8]))
        depth = 0
        while True:
            if j >= len(self.t): raise Broken('unbalanced braces')
            depth += {'{': 1, '}': -1}.get(self.t[j], 0)
            j += 1
            if depth == 0: return j
    def enum_pattern(self):
        if self.at(ENUM_NAME, '::'):
            self.i += 2
        elif not self.glob_enum:
            raise Broken('bare name in a pattern without `use self::%s::*;` (it would bind, not match) at `%s`' % (ENUM_NAME, self.here()))
        if self.at('self', '::', ENUM_NAME, '::'):
            raise Broken('pattern path at `%s`' % self.here())
        v = self.ident()
        if v not in self.enum:
            raise Broken('`%s` in a pattern is not a variant of %s (it would bind everything)' % (v, ENUM_NAME))
        xs = []
        if self.eat('('):
            while not self.at(')'):
                x = self.ident()
                if x in self.enum or x in self.consts or x in self.statics: raise Broken('binder `%s` clashes with an item' % x)
                xs.append(x)
                if not self.at(')'): self.need(',')
            self.need(')')
        if len(xs) != self.enum[v]: raise Broken('pattern %s binds %d fields, the variant has %d' % (v, len(xs), self.enum[v]))
        return v, xs
    def let_match_enum(self, x, sc):
        """let x = match v { .. };   (after `match`)"""
        v = self.ident()
        if rty(sc.get(v)) != 'enum': raise Broken('match %s: not a %s' % (v, ENUM_NAME))
        self.need('{')
        arms, seen, vty = [], set(), None
        while not self.at('}'):
            var, xs = self.enum_pattern()
            if var in seen: raise Broken('variant %s matched twice' % var)
            seen.add(var)
            self.need('=>')
            sc2 = dict(sc)
            for b in xs: sc2[b] = 'u8'
            if self.at('{'):
                self.need('{')
                body, tailv = self.items(False, sc2, allow_value=True)
                self.need('}')
                self.eat(',')
            else:
                body, (e, te) = [], self.value_expr(sc2)
                tailv = (e, te)
                if not self.at('}'): self.need(',')
            if tailv is not None:
                vty = tailv[1] if vty is None else unify(vty, tailv[1], self.here())
            elif not (body and body[-1][0] == 'ret'):
                raise Broken('arm %s has neither a value nor a return' % var)
            arms.append((var, xs, body, tailv[0] if tailv else None))
        self.need('}')
        self.need(';')
        missing = [k for k in self.enum if k not in seen]
        if missing: raise Broken('match without arms for %s (a wildcard is outside the subset)' % ', '.join(missing))
        if vty is None: raise Broken('match without a value')
        return ('letmatch', x, v, arms), vty
    def match_const(self, sc):
        """match v { self::K => E, .., _ => unreachable!() } in tail position of a value function (after `match`)"""
        v = self.ident()
        tv = rty(sc.get(v))
        if tv not in INTS: raise Broken('match %s: not an integer variable' % v)
        self.need('{')
        arms, seen = [], set()
        while not self.at('}'):
            if self.eat('_'):
                p = ('wild',)
            else:
                self.need('self', '::')
                k = self.ident()
                if k not in self.consts: raise Broken('`self::%s` is not a const of the file' % k)
                if self.consts[k][0] != tv: raise Broken('const %s has type %s, the scrutinee %s' % (k, self.consts[k][0], tv))
                if k in seen: raise Broken('const %s matched twice' % k)
                seen.add(k)
                p = ('const', k)
            if self.peek() in ('|', 'if'): raise Broken('or-pattern / guard at `%s`' % self.here())
            self.need('=>')
            if self.eats('unreachable!()'):
                body = [('unreachable',)]
            else:
                e, _ = self.value_expr(sc, 'enum')
                body = [('ret', ('val', e))]
            if not self.at('}'): self.need(',')
            arms.append((p, body))
            if p == ('wild',) and not self.at('}'): raise Broken('arm after the wildcard')
        self.need('}')
        if not arms: raise Broken('match without arms')
        return ('matchconst', v, arms)
    def items(self, tail, sc, allow_value=False):
        """-> list of items; with allow_value: (list, (expr, type) | None)"""
        out, done, value = [], False, None
        first = True
        while not self.at('}'):
            if self.i >= len(self.t):
                raise Broken('unexpected end of body')
            if done or value is not None:
                raise Broken('item after a return / continue / tail expression: `%s`' % self.here())
            was_first, first = first, False
            if self.ats('use self::%s::*;' % ENUM_NAME):
                if not (was_first and tail): raise Broken('`use` that is not the first item of the function')
                self.needs('use self::%s::*;' % ENUM_NAME)
                for k in self.enum:
                    if k in sc: raise Broken('variant %s shadowed by a variable' % k)
                self.glob_enum = True
                continue
            if self.at('use'):
                raise Broken('`use` outside the subset: `%s`' % self.here())
            if self.at('static'):
                self.need('static')
                x = self.ident()
                self.needs(': [u8;')
                n = self.plain_number()
                self.needs('] = *')
                if not self.peek().startswith('b"'): raise Broken('static initialiser other than *b".." at `%s`' % self.here())
                b = tf.bytestr(self.peek()); self.i += 1
                self.need(';')
                if len(b) != n: raise Broken('static %s: %d bytes declared, %d given' % (x, n, len(b)))
                if x in sc or x in self.statics or x in self.consts: raise Broken('static %s shadows another item' % x)
                sc[x] = 'array'
                out.append(('static', x, b)); continue
            if self.at('let'):
                self.need('let'); self.eat('mut')
                x = self.ident()
                if x in self.enum or x in self.consts or x in self.statics: raise Broken('`let %s` clashes with an item of that name' % x)
                if self.at(':'): raise Broken('type annotation on `let %s`' % x)
                self.need('=')
                if self.eat('match'):
                    s, ty = self.let_match_enum(x, sc)
                    sc[x] = ty
                    out.append(s); continue
                if self.at(ENUM_NAME, '::') and (ENUM_NAME + '::' + self.peek(2)) in FN and self.peek(3) == '(':
                    f = ENUM_NAME + '::' + self.peek(2); self.i += 4
                    if FN[f][3] != 'value': raise Broken('%s is not a value function' % f)
                    args = self.args_after(sc, f)
                    self.need(';')
                    sc[x] = 'enum'
                    out.append(('letcall', x, f, args)); continue
                if self.at('['):
                    e, te = self.zeros()
                else:
                    e, te = self.value_expr(sc)
                self.need(';')
                sc[x] = te
                out.append(('let', x, e)); continue
            if self.eat('tri', '!', '('):
                c = self.result_call(sc, 'tri!')
                self.need(')'); self.need(';')
                out.append(('tri', c)); continue
            if self.is_ident() and self.peek(1) == '=':
                x = self.ident(); self.need('=')
                if x not in sc: raise Broken('assignment to unknown variable %s' % x)
                e, te = self.value_expr(sc, sc[x])
                if rty(te) not in INTS: raise Broken('assignment to a variable of type %s' % rty(te))
                self.need(';')
                out.append(('assign', x, e)); continue
            if self.is_ident() and self.peek(1) in ('+', '-', '|', '&', '>>', '<<') and self.peek(2) == '=':
                raise Broken('compound assignment at `%s`' % self.here())
            if self.at('if'):
                self.need('if')
                c = self.cond(sc)
                j = self.skip_block(self.i)
                has_else = self.t[j:j + 1] == ['else']
                if has_else and self.t[j + 1:j + 2] == ['if']: raise Broken('else-if chain')
                is_tail = tail and has_else and self.t[self.skip_block(j + 1):self.skip_block(j + 1) + 1] == ['}']
                a = self.block(is_tail, sc)
                b = []
                if self.eat('else'):
                    b = self.block(is_tail, sc)
                out.append(('if', c, a, b)); done = is_tail
                continue
            if self.at('for'):
                self.needs('for (')
                i = self.ident(); self.needs(', &')
                x = self.ident(); self.needs(') in')
                e, te = self.e_primary(sc)
                if rty(te) != 'slice': raise Broken('for over a %s' % rty(te))
                self.needs('.iter().enumerate()')
                sc2 = dict(sc); sc2[i] = 'usize'; sc2[x] = 'u8'
                if i == x: raise Broken('for binds the same name twice')
                self.in_for += 1
                body = self.block(False, sc2)
                self.in_for -= 1
                out.append(('for', i, x, e, body)); continue
            if self.eats('continue;'):
                if not self.in_for: raise Broken('continue outside a for')
                out.append(('continue',)); done = True; continue
            if self.eat('return'):
                out.append(('ret', self.rexpr(sc, 'return')))
                self.need(';')
                done = True; continue
            if self.at('match'):
                if not (tail and self.kind == 'value'): raise Broken('match statement outside the tail position of a value function')
                self.need('match')
                out.append(self.match_const(sc))
                if not self.at('}'): raise Broken('item after the tail match')
                done = True; continue
            if self.eats('unreachable!()'):
                out.append(('unreachable',)); done = True
                self.eat(';')
                continue
            # a tail expression
            if tail:
                out.append(('ret', self.rexpr(sc, 'tail expression')))
                if not self.at('}'): raise Broken('value expression outside tail position before `%s`' % self.here())
                done = True; continue
            if allow_value:
                value = self.value_expr(sc)
                continue
            raise Broken('item outside the subset: `%s`' % self.here())
        if tail and not done:
            raise Broken('block in tail position ends without a value')
        if allow_value:
            return out, value
        return out
    def rexpr(self, sc, what):
        if self.eats('Ok(())'):
            if self.kind == 'value': raise Broken('Ok(()) in a value function')
            return ('ok',)
        if self.kind == 'value':
            e, _ = self.value_expr(sc, 'enum')
            return ('val', e)
        return ('call', self.result_call(sc, what))

def parse_body(fn, body, consts, statics, enum):
    p = P(tokenize(body), fn, consts, statics, enum)
    sc = dict(FN[fn][2])
    ss = p.block(True, sc)
    if p.i != len(p.t):
        raise Broken('trailing text after body')
    for c in p.cells:
        if c.t is None:
            raise Broken('an integer literal whose type nothing decides')
    return ss

# ---- source access -------------------------------------------------------------------------------------
def fns_in(text, toplevel):
    """name -> (attribute text, squeezed head between `fn name` and the body, comment-free body) for the fns directly in `text`"""
    out, i = {}, 0
    pat = r'^((?:#\[[^\n]*\]\n)*)fn (\w+)' if toplevel else r'((?:#\[[^\n]*\]\s*)*)\bfn (\w+)'
    for m in re.finditer(pat, text, re.M):
        if m.start(2) < i:
            continue
        j = text.index('{', m.end())
        semi = text.find(';', m.end())
        if semi != -1 and semi < j:
            i = semi + 1
            continue
        body, i = block_at(text, j)
        if m.group(2) in out:
            raise Broken('fn %s defined twice' % m.group(2))
        out[m.group(2)] = (m.group(1), squeeze(text[m.end():j]), squeeze(strip_comments(body)))
    return out

def translate(repo):
    src = open(os.path.join(repo, 'src', 'ser.rs'), encoding='utf-8').read()
    src = '\n'.join('' if l.lstrip().startswith('//') else l for l in src.split('\n'))
    broken = []
    consts, const_list, statics, enum, enum_list, bodies = {}, [], {}, {}, [], {}
    # ---- constants ----
    try:
        for m in re.finditer(r'^const (\w+): (\w+) = ([^;]*);', strip_comments(src), re.M):
            name, ty, lit = m.group(1), m.group(2), m.group(3).strip()
            if ty not in INTS: continue
            if name in consts: raise Broken('const %s defined twice' % name)
            if re.fullmatch(r"b'(?:\\x[0-9a-fA-F]{2}|\\.|[^\\'])'", lit): v = byte_value(lit)
            elif NUMBER.match(lit) and num_value(lit)[1] in (None, ty): v = num_value(lit)[0]
            else: raise Broken('const %s = `%s`' % (name, lit))
            if not 0 <= v <= INTS[ty][1]: raise Broken('const %s out of range' % name)
            consts[name] = (ty, v); const_list.append((name, ty, v))
        for name in consts:
            if len(re.findall(r'\b(?:static|const|let)\s+(?:mut\s+)?%s\b' % re.escape(name), src)) != 1:
                raise Broken('%s is defined more than once' % name)
    except (Broken, ValueError, IndexError) as e:
        broken.append(('esc:consts', str(e)))
    # ---- static ESCAPE ----
    try:
        ms = list(re.finditer(r'^static (\w+): \[u8; (\d+)\] = \[', src, re.M))
        if [m.group(1) for m in ms] != ['ESCAPE']:
            raise Broken('expected exactly the one top-level `static ESCAPE: [u8; N] = [`, found %s' % [m.group(1) for m in ms])
        if len(re.findall(r'\b(?:static|const|let)\s+(?:mut\s+)?ESCAPE\b', src)) != 1:
            raise Broken('ESCAPE is defined more than once')
        start = ms[0].end()
        end = src.index('];', start)
        toks = tokenize(strip_comments(src[start:end]))
        entries, k = [], 0
        while k < len(toks):
            t = toks[k]
            if t in consts:
                if consts[t][0] != 'u8': raise Broken('entry %s is not a u8' % t)
                entries.append(('const', t))
            elif t.startswith("b'"): entries.append(('lit', 'u8', byte_value(t)))
            elif NUMBER.match(t) and num_value(t)[1] in (None, 'u8') and 0 <= num_value(t)[0] <= 255: entries.append(('lit', 'u8', num_value(t)[0]))
            else: raise Broken('entry `%s` of ESCAPE' % t)
            k += 1
            if k < len(toks):
                if toks[k] != ',': raise Broken('`,` expected after entry %d of ESCAPE' % len(entries))
                k += 1
        if len(entries) != int(ms[0].group(2)):
            raise Broken('ESCAPE declares %s entries and lists %d' % (ms[0].group(2), len(entries)))
        statics['ESCAPE'] = entries
    except (Broken, ValueError, IndexError) as e:
        broken.append(('esc:ESCAPE', str(e)))
    # ---- enum CharEscape ----
    try:
        blk = strip_comments(find_block(src, r'\bpub enum %s\s*\{' % ENUM_NAME))
        toks = tokenize(blk[1:-1])
        k = 0
        while k < len(toks):
            if toks[k] == '#': raise Broken('attribute inside the enum')
            name = toks[k]
            if not IDENT.match(name) or name in KEYWORDS: raise Broken('variant name expected at `%s`' % ' '.join(toks[k:k + 6]))
            k += 1
            ar = 0
            if toks[k:k + 1] == ['(']:
                k += 1
                while toks[k] != ')':
                    if toks[k] != 'u8': raise Broken('field of type `%s` in variant %s' % (toks[k], name))
                    ar += 1; k += 1
                    if toks[k] == ',': k += 1
                k += 1
            if name in enum: raise Broken('variant %s twice' % name)
            enum[name] = ar; enum_list.append((name, ar))
            if k < len(toks):
                if toks[k] != ',': raise Broken('`,` expected after variant %s' % name)
                k += 1
        if not enum: raise Broken('no variants')
    except (Broken, ValueError, IndexError) as e:
        broken.append(('esc:enum ' + ENUM_NAME, str(e)))
    if broken:
        return None, broken
    # ---- the functions ----
    try:
        tables = {'free': fns_in(src, True)}
        for ctx, hdr in HEADERS.items():
            tables[ctx] = fns_in(find_block(src, hdr)[1:-1], False)
    except (Broken, ValueError, IndexError) as e:
        return None, [('esc:blocks', str(e))]
    for fn, ctx, head_want, _, _ in FNS:
        short = fn.split('::')[-1]
        try:
            if short not in tables[ctx]:
                raise Broken('function missing')
            attrs, head, body = tables[ctx][short]
            if 'cfg' in attrs:
                raise Broken('conditional compilation attribute `%s`' % squeeze(attrs))
            if head != head_want:
                raise Broken('signature is `%s`, the interpreter assumes `%s`' % (head, head_want))
            bodies[fn] = parse_body(fn, body, consts, statics, enum)
        except (Broken, ValueError, IndexError) as e:
            broken.append(('esc:' + fn, str(e)))
    # ---- no impl overrides the string methods of Formatter ----
    try:
        for m in re.finditer(r'^impl(?:<[^>]*>)? Formatter for ([^{\n]*)\{', src, re.M):
            blk = block_at(src, m.end() - 1)[0]
            over = sorted(set(fns_in(blk[1:-1], False)) & set(STRING_METHODS))
            if over:
                raise Broken('impl Formatter for %s overrides %s (the model takes the trait defaults)' % (squeeze(m.group(1)), ', '.join(over)))
    except (Broken, ValueError, IndexError) as e:
        broken.append(('esc:pinned:Formatter impls', str(e)))
    # ---- pinned lines ----
    flat = squeeze(strip_comments(src))
    for tag, text in PIN_LINES:
        if flat.count(text) != 1:
            broken.append(('esc:pinned:' + tag, 'expected exactly once: `%s`' % text))
    try:
        lib = open(os.path.join(repo, 'src', 'lib.rs'), encoding='utf-8').read()
        lib = '\n'.join('' if l.lstrip().startswith('//') else l for l in lib.split('\n'))
        m = re.search(r'^macro_rules! tri\s*\{', lib, re.M)
        if not m:
            raise Broken('macro not found')
        got = squeeze('macro_rules! tri ' + block_at(lib, m.end() - 1)[0])
        if got != TRI:
            raise Broken('macro is `%s`, the interpreter assumes `%s`' % (got, TRI))
    except (Broken, ValueError, IndexError, OSError) as e:
        broken.append(('esc:pinned:tri!', str(e)))
    return (bodies, const_list, statics, enum_list), broken

# ---- Coq output --------------------------------------------------------------------------------------------
def q(s):
    return '"%s"' % s
def nl(bs):
    return '[%s]%%N' % '; '.join(str(b) for b in bs)
def ity(t):
    t = rty(t)
    if t not in INTS: raise Broken('internal: undecided literal type')
    return INTS[t][0]
def coq_expr(e):
    k = e[0]
    if k == 'lit': return '(ELit %s %d)' % (ity(e[1]), e[2])
    if k == 'var': return '(EVar %s)' % q(e[1])
    if k == 'const': return '(EConst %s)' % q(e[1])
    if k == 'cast': return '(ECast %s %s)' % (coq_expr(e[1]), ity(e[2]))
    if k == 'bin': return '(EBin %s %s %s)' % (e[1], coq_expr(e[2]), coq_expr(e[3]))
    if k == 'shr': return '(EShr %s %d)' % (coq_expr(e[1]), e[2])
    if k == 'index': return '(EIndex %s %s)' % (q(e[1]), coq_expr(e[2]))
    if k == 'len': return '(ELen %s)' % coq_expr(e[1])
    if k == 'asbytes': return '(EAsBytes %s)' % coq_expr(e[1])
    if k == 'range': return '(ESliceRange %s %s %s)' % (coq_expr(e[1]), coq_expr(e[2]), coq_expr(e[3]))
    if k == 'from': return '(ESliceFrom %s %s)' % (coq_expr(e[1]), coq_expr(e[2]))
    if k == 'bytes': return '(EBytes %s)' % nl(e[1])
    if k == 'array': return '(EArray %s)' % coq_exprs(e[1])
    if k == 'zeros': return '(EZeros %d)' % e[1]
    if k == 'encode': return '(EEncodeUtf8 %s %s)' % (coq_expr(e[1]), coq_expr(e[2]))
    if k == 'ctor': return '(ECtor %s %s)' % (q(e[1]), coq_exprs(e[2]))
    raise Broken('internal: expr ' + k)
def coq_exprs(es):
    return '[%s]' % '; '.join(coq_expr(e) for e in es)
def coq_call(c):
    k = c[0]
    if k == 'write': return '(CWriteAll %s)' % coq_expr(c[1])
    if k == 'fn': return '(CFn %s %s)' % (q(c[1]), coq_exprs(c[2]))
    if k == 'maperr': return '(CMapErrIo %s)' % coq_call(c[1])
    raise Broken('internal: call ' + k)
def coq_rexpr(r):
    if r[0] == 'ok': return 'ROk'
    if r[0] == 'call': return '(RCall %s)' % coq_call(r[1])
    return '(RVal %s)' % coq_expr(r[1])
def coq_stmt(s, ind):
    k = s[0]
    pad = ' ' * (ind + 2)
    if k == 'let': return 'SLet %s %s' % (q(s[1]), coq_expr(s[2]))
    if k == 'letcall': return 'SLetCall %s %s %s' % (q(s[1]), q(s[2]), coq_exprs(s[3]))
    if k == 'static': return 'SStatic %s %s' % (q(s[1]), nl(s[2]))
    if k == 'assign': return 'SAssign %s %s' % (q(s[1]), coq_expr(s[2]))
    if k == 'tri': return 'STri %s' % coq_call(s[1])
    if k == 'if': return 'SIf (CCmp %s %s %s) %s %s' % (s[1][1], coq_expr(s[1][2]), coq_expr(s[1][3]), coq_block(s[2], ind + 2), coq_block(s[3], ind + 2))
    if k == 'for': return 'SForEnum %s %s %s %s' % (q(s[1]), q(s[2]), coq_expr(s[3]), coq_block(s[4], ind + 2))
    if k == 'continue': return 'SContinue'
    if k == 'ret': return 'SRet %s' % coq_rexpr(s[1])
    if k == 'unreachable': return 'SUnreachable'
    if k == 'letmatch':
        arms = (';\n' + pad).join('(%s, [%s], %s, %s)' % (q(v), '; '.join(q(x) for x in xs), coq_block(body, ind + 4),
                                                         'Some %s' % coq_expr(tv) if tv is not None else 'None') for v, xs, body, tv in s[3])
        return 'SLetMatchEnum %s %s [\n%s%s]' % (q(s[1]), q(s[2]), pad, arms)
    if k == 'matchconst':
        arms = (';\n' + pad).join('(%s, %s)' % ('PWild' if p == ('wild',) else 'PConst %s' % q(p[1]), coq_block(b, ind + 4)) for p, b in s[2])
        return 'SMatchConst %s [\n%s%s]' % (q(s[1]), pad, arms)
    raise Broken('internal: ' + k)
def coq_block(ss, ind):
    if not ss: return '[]'
    if len(ss) == 1 and ss[0][0] in ('continue', 'ret', 'tri', 'unreachable'):
        return '[' + coq_stmt(ss[0], ind) + ']'
    pad = ' ' * ind
    return '[\n' + pad + (';\n' + pad).join(coq_stmt(s, ind) for s in ss) + ']'
def cname(fn):
    return 'ESC_' + fn.replace('::', '_')

def emit(bodies, const_list, statics, enum_list):
    L = ['(* Gen/EscTables.v — GENERATED by tools/translate_esc.py from /repo/src/ser.rs on every run. Do not edit.',
         '   The string escaping of the text serializer (format_escaped_str(_contents), CharEscape, the string methods of Formatter,',
         '   serialize_str / serialize_char of Serializer and MapKeySerializer), statement by statement (AST: Model/EscAst.v), the u8 constants',
         '   and the ESCAPE table with its entries as the names the source writes. *)',
         'From Coq Require Import List NArith ZArith String.', 'From SJ Require Import Base.Bytes Model.EscAst.', 'Import ListNotations.',
         'Local Open Scope string_scope.', 'Local Open Scope Z_scope.', '']
    for fn, ctx, _, params, kind in FNS:
        ps = '[%s]' % '; '.join('(%s, %s)' % (q(x), TY_COQ[t]) for x, t in params)
        L.append('Definition %s : fdef := mkFn %s %s %s.' % (cname(fn), ps, KIND_COQ[kind], coq_block(bodies[fn], 2)))
        L.append('')
    L.append('(* const NAME: T = v; *)')
    L.append('Definition ESC_CONSTS : list (string * (ity * Z)) := [%s].' % '; '.join('(%s, (%s, %d))' % (q(n), INTS[t][0], v) for n, t, v in const_list))
    L.append('(* static ESCAPE: [u8; %d] *)' % len(statics['ESCAPE']))
    rows = []
    ents = [coq_expr(e)[1:-1] for e in statics['ESCAPE']]
    for r in range(0, len(ents), 16):
        rows.append('  ' + '; '.join(ents[r:r + 16]))
    L.append('Definition ESC_ESCAPE : list expr := [\n%s].' % ';\n'.join(rows))
    L.append('(* pub enum CharEscape: variant, number of fields *)')
    L.append('Definition ESC_ENUM : list (string * nat) := [%s].' % '; '.join('(%s, %d%%nat)' % (q(n), a) for n, a in enum_list))
    L.append('')
    L.append('Definition ESC_PROG : prog := mkProg [')
    L.append(';\n'.join('  (%s, %s)' % (q(fn), cname(fn)) for fn, *_ in FNS))
    L.append('] ESC_CONSTS [("ESCAPE", ESC_ESCAPE)] ESC_ENUM.')
    L.append('')
    return '\n'.join(L)

def main():
    ap = argparse.ArgumentParser()
    ap.add_argument('--repo', default=os.environ.get('VERIF_REPO', '/repo'))
    ap.add_argument('--out', default=os.path.join(os.path.dirname(os.path.abspath(__file__)), '..', 'coq', 'theories', 'Gen', 'EscTables.v'))
    a = ap.parse_args()
    res, broken = translate(a.repo)
    for name, why in broken:
        print('BROKEN %s: %s' % (name, why))
    if broken:
        return 3
    try:
        text = emit(*res)
    except Broken as e:
        print('BROKEN esc:emit: %s' % e)
        return 3
    old = open(a.out).read() if os.path.exists(a.out) else None
    if old != text:
        with open(a.out, 'w') as f:
            f.write(text)
        print('UPDATED ' + os.path.relpath(a.out))
    return 0

if __name__ == '__main__':
    sys.exit(main())
