#!/usr/bin/env python3
"""detok_try.py — standalone correspondence run for the private-token branch of ValueVisitor::visit_map (finding F23).

Model side : /root/scratch/detok_ocaml/sjdriver_detok   (extracted from coq/theories/Extract/Extract_detok.v, Model/DeTok.v)
Impl side  : /verif/.cache/target/<cfg>/release/sjh     (the ordinary harness binary, op `pv`)

  python3 detok_try.py [--build] [--seed N] [--n N]

--build  (re)build the model side: coqc Extract_detok.v in /root/scratch/detok_ocaml, ocamlfind ocamlopt with driver_detok.ml
         (the glue is /verif/ocaml/driver_ntarget.ml with the module / entry point renamed).
Protocol:  model  `pv <cfg letters> <r|-> <src> <hex>`   vs   harness  `pv <cfg letters> <src> <hex>`; answers compared line by line.
Configurations: every built harness whose feature set the model covers:
     def (-, -)   po (p, -)   ap (a, -)   frap (fa, -)   raw (-, r)   rawpofr (pf, r)
Sources: b (slice), r1 (1-byte reader), r3, and s (from_str) when the document is UTF-8.
"""
import os
import random
import subprocess
import sys

SCRATCH = "/root/scratch"
OCAML_DIR = SCRATCH + "/detok_ocaml"
DRIVER = OCAML_DIR + "/sjdriver_detok"
OLD_DRIVER = "/verif/ocaml/sjdriver"          # Model/De.v (op pv <cfg> <src> <hex>), only used to count the token-branch cases
TGT = "/verif/.cache/target"
NTOK = b"$serde_json::private::Number"
RTOK = b"$serde_json::private::RawValue"
COQ_W = "-notation-overridden,-deprecated-hint-without-locality,-deprecated-instance-without-locality,-extraction"

CONFIGS = [  # (harness dir, cfg letters, raw flag)
    ("def", "-", "-"),
    ("po", "p", "-"),
    ("ap", "a", "-"),
    ("frap", "fa", "-"),
    ("raw", "-", "r"),
    ("rawpofr", "pf", "r"),
]


def build():
    os.makedirs(OCAML_DIR, exist_ok=True)
    subprocess.check_call(["cp", "/verif/coq/theories/Extract/Extract_detok.v", OCAML_DIR])
    subprocess.check_call(["timeout", "900", "coqc", "-Q", "/verif/coq/theories", "SJ", "-w", COQ_W, "Extract_detok.v"], cwd=OCAML_DIR)
    src = open("/verif/ocaml/driver_ntarget.ml").read()
    src = src.replace("Sjmodel_ntarget", "Sjmodel_detok").replace("dispatch_ntarget", "dispatch_detok")
    src = src.replace("driver_ntarget.ml", "driver_detok.ml").replace("Driver_ntarget.v", "Driver_detok.v")
    open(OCAML_DIR + "/driver_detok.ml", "w").write(src)
    subprocess.check_call(["ocamlfind", "ocamlopt", "-O2", "-w", "-a", "-I", ".", "sjmodel_detok.mli", "sjmodel_detok.ml",
                           "driver_detok.ml", "-o", "sjdriver_detok"], cwd=OCAML_DIR, stderr=subprocess.DEVNULL)


# ------------------------------------------------------------------------------------------------ generator
def jstr(b):
    """a JSON string literal whose contents are the bytes b (ASCII / UTF-8), minimal escaping"""
    out = bytearray(b'"')
    for c in b:
        if c == 0x22:
            out += b'\\"'
        elif c == 0x5C:
            out += b"\\\\"
        elif c == 0x0A:
            out += b"\\n"
        elif c == 0x0D:
            out += b"\\r"
        elif c == 0x09:
            out += b"\\t"
        elif c < 0x20:
            out += b"\\u%04x" % c
        else:
            out.append(c)
    out += b'"'
    return bytes(out)


def jstr_u(b, rng, p=0.3):
    """the same contents with some characters spelled \\uXXXX"""
    out = bytearray(b'"')
    for c in b:
        if c < 0x80 and rng.random() < p:
            out += (b"\\u%04x" if rng.random() < 0.5 else b"\\u%04X") % c
        else:
            out += jstr(bytes([c]))[1:-1]
    out += b'"'
    return bytes(out)


NUM_PAYLOADS_OK = [b"0", b"1", b"-0", b"-1", b"12", b"1.5", b"1e5", b"1E+5", b"1e-5", b"0.0", b"-0.0", b"1e400", b"-1e-400",
                   b"18446744073709551615", b"18446744073709551616", b"-9223372036854775808", b"-9223372036854775809",
                   b"123456789012345678901234567890", b"0.1000000000000000000000000000001", b"1.0e0", b"0e0", b"9" * 60]
NUM_PAYLOADS_BAD = [b"", b" ", b"1x", b"x", b" 1", b"1 ", b"01", b"-", b"+1", b"1e", b"1e+", b".5", b"1.", b"NaN", b"0x10", b"1,2",
                    b"--1", b"-01", b"1.e5", b"1e5.5", b"\n1x", b"\n\n12\n", b"1\nx", b"12\n\n\nx", b"null", b"\"1\"", b"1e5x",
                    b"00", b"-x", b"1.5.5", b"\t1", b"1\r\n", b"\xc3\xa9", b"1\xc3\xa9", b"Infinity", b"1_000"]
NONSTRING = [b"5", b"-1.5", b"null", b"true", b"false", b"[]", b"{}", b"[1]", b'{"a":1}', b"1e999", b"nul", b"tru", b"-", b"[",
             b"{", b"0x", b"x", b"", b"1.", b'{"a"}', b"[1,]"]
RAW_PAYLOADS_OK = [b"1", b"null", b"true", b'"s"', b"[]", b"{}", b"[1,2]", b'{"a":1}', b" null ", b"\n[\n1\n]\n", b'{"a":{"b":[1,{"c":null}]}}',
                   b"1.5e3", b"-0", b"[[[[]]]]", b'"\\u00e9"', b'"\xc3\xa9"', b'{"a":1,"a":2}', b'{"b":1,"a":2}', b"1e400",
                   b"[" * 127 + b"]" * 127, b'{"' + RTOK + b'":"7"}', b'{"' + NTOK + b'":"7"}',
                   b'{"' + RTOK + b'":"{\\"' + RTOK + b'\\":\\"[1]\\"}"}', b'[{"' + RTOK + b'":"[2]"},3]']
RAW_PAYLOADS_BAD = [b"", b" ", b"[1,", b"tru", b"1 2", b'{"a"}', b"[1,]", b"{,}", b"\n\n  x", b"[\n1,\n,]", b"nul", b'"abc', b"[1}",
                    b"[" * 128 + b"]" * 128, b"[" * 200, b'{"a":1,}', b"01", b"1.", b"-", b'"\\x"', b'"\\ud800"', b"\x01", b"[1] x",
                    b'{"' + RTOK + b'":"[1,"}', b'{"' + RTOK + b'":5}', b'{"' + NTOK + b'":"1x"}', b'{"' + RTOK + b'":"1","b":2}',
                    b'{"' + RTOK + b'":"\\n\\n[1,"}', b"\xff", b"1\x00"]
WS = [b"", b"", b"", b" ", b"\n", b"\t", b"\r\n", b"  ", b" \n "]


def rand_ws(rng):
    return rng.choice(WS)


def rand_plain(rng, depth=0):
    r = rng.random()
    if depth > 3 or r < 0.45:
        return rng.choice([b"null", b"true", b"false", b"0", b"1", b"-7", b"1.5", b"1e3", b'"x"', b'""', b'"\\n"', b'"\\u0024"',
                           b"18446744073709551616", b'"' + NTOK + b'"', b'"' + RTOK + b'"'])
    if r < 0.7:
        n = rng.randrange(0, 4)
        return b"[" + rand_ws(rng) + (b"," + rand_ws(rng)).join(rand_plain(rng, depth + 1) for _ in range(n)) + rand_ws(rng) + b"]"
    n = rng.randrange(0, 4)
    ms = []
    for _ in range(n):
        k = rng.choice([b'"a"', b'"b"', b'"k"', b'""', b'"a"', b'"\\u0061"', b'"$serde"', b'"$serde_json::private::Numbe"',
                        b'"$serde_json::private::Number "', b'"$serde_json::private::RawValu"'])
        ms.append(k + rand_ws(rng) + b":" + rand_ws(rng) + rand_plain(rng, depth + 1))
    return b"{" + rand_ws(rng) + (rand_ws(rng) + b"," + rand_ws(rng)).join(ms) + rand_ws(rng) + b"}"


def token_member(rng, tok, payload_is_string, payload):
    key = jstr(tok) if rng.random() < 0.8 else jstr_u(tok, rng)
    val = (jstr(payload) if rng.random() < 0.85 else jstr_u(payload, rng, 0.2)) if payload_is_string else payload
    return rand_ws(rng) + key + rand_ws(rng) + b":" + rand_ws(rng) + val + rand_ws(rng)


def rand_payload(rng, tok):
    """(is_string, bytes)"""
    r = rng.random()
    if r < 0.15:
        return False, rng.choice(NONSTRING)
    if tok == NTOK:
        return True, rng.choice(NUM_PAYLOADS_OK if rng.random() < 0.5 else NUM_PAYLOADS_BAD)
    if rng.random() < 0.2:
        return True, rng.choice(NUM_PAYLOADS_OK + NUM_PAYLOADS_BAD)
    if rng.random() < 0.15:
        return True, rand_plain(rng)
    return True, rng.choice(RAW_PAYLOADS_OK if rng.random() < 0.5 else RAW_PAYLOADS_BAD)


def token_object(rng):
    tok = rng.choice([NTOK, RTOK])
    members = []
    r = rng.random()
    before = 0 if r < 0.7 else rng.randrange(1, 3)
    for _ in range(before):
        members.append(rand_ws(rng) + rng.choice([b'"a"', b'"z"', jstr(rng.choice([NTOK, RTOK]) + b"x")]) + b":" + rand_plain(rng, 2) + rand_ws(rng))
    members.append(token_member(rng, tok, *rand_payload(rng, tok)))
    r = rng.random()
    after = 0 if r < 0.6 else rng.randrange(1, 3)
    for _ in range(after):
        c = rng.random()
        if c < 0.3:
            t2 = rng.choice([NTOK, RTOK, tok])
            members.append(token_member(rng, t2, *rand_payload(rng, t2)))       # duplicate / other token as a later member
        else:
            members.append(rand_ws(rng) + rng.choice([b'"a"', b'"b"']) + b":" + rand_plain(rng, 2) + rand_ws(rng))
    body = b",".join(members)
    tail = b"}"
    r = rng.random()
    if r < 0.04:
        tail = b",}"
    elif r < 0.07:
        tail = b""
    elif r < 0.09:
        tail = b"]"
    elif r < 0.11:
        tail = b" x}"
    elif r < 0.13:
        tail = b"} x"
    return b"{" + body + tail


def wrap(rng, inner):
    r = rng.random()
    if r < 0.4:
        return rand_ws(rng) + inner + rand_ws(rng)
    if r < 0.6:
        items = [rand_plain(rng, 2) for _ in range(rng.randrange(0, 3))]
        items.insert(rng.randrange(0, len(items) + 1), inner)
        return b"[" + (rand_ws(rng) + b"," + rand_ws(rng)).join(items) + b"]"
    if r < 0.8:
        ms = [b'"m":' + rand_ws(rng) + inner]
        if rng.random() < 0.5:
            ms.append(b'"n":' + rand_plain(rng, 2))
        if rng.random() < 0.3:
            ms.insert(0, b'"l":' + token_object(rng))
        return b"{" + b",".join(ms) + b"}"
    if r < 0.9:
        return wrap(rng, wrap(rng, inner))
    return b"[" + inner + b"," + token_object(rng) + b"]"


def gen_docs(rng, n_random):
    docs = []

    def add(fam, s):
        docs.append((fam, s))

    # fixed families
    for tok in (NTOK, RTOK):
        k = jstr(tok)
        oks = NUM_PAYLOADS_OK if tok == NTOK else RAW_PAYLOADS_OK
        bads = NUM_PAYLOADS_BAD if tok == NTOK else RAW_PAYLOADS_BAD
        for p in oks + bads + (NUM_PAYLOADS_OK[:4] + NUM_PAYLOADS_BAD[:6] if tok == RTOK else []):
            add("top", b"{" + k + b":" + jstr(p) + b"}")
            add("top-ws", b" \n{\n " + k + b" :\t" + jstr(p) + b"\n}\n")
            add("arr", b"[1,{" + k + b":" + jstr(p) + b"},2]")
            add("member", b'{"a":{' + k + b":" + jstr(p) + b'},"b":0}')
            add("second", b'{"a":0,' + k + b":" + jstr(p) + b"}")
            add("after", b"{" + k + b":" + jstr(p) + b',"a":0}')
            add("dup", b"{" + k + b":" + jstr(p) + b"," + k + b":" + jstr(p) + b"}")
        for p in NONSTRING:
            add("nonstring", b"{" + k + b":" + p + b"}")
            add("nonstring", b"[{" + k + b" : " + p + b" }]")
            add("nonstring", b"{" + k + b":" + p + b',"a":1}')
        other = RTOK if tok == NTOK else NTOK
        add("other", b"{" + jstr(other) + b':"1"}')
        add("other", b"{" + jstr(other) + b":1," + k + b':"1"}')
        add("other", b"{" + k + b':"1",' + jstr(other) + b':"1"}')
        # every prefix of a few documents, and every single-byte deletion
        for base in (b"{" + k + b':"12"}', b" { " + k + b' : "[1, 2]" , "a" : 1 } ', b'[{"a":{' + k + b':"1e5"}}]',
                     b"{" + jstr_u(tok, random.Random(7), 1.0) + b':"3"}'):
            for i in range(len(base) + 1):
                add("prefix", base[:i])
            for i in range(len(base)):
                add("delete", base[:i] + base[i + 1:])
        # recursion budget around the token object
        for d in (125, 126, 127, 128, 129):
            add("depth", b"[" * d + b"{" + k + b':"1"}' + b"]" * d)
            add("depth", b'{"a":' * d + b"{" + k + b':"1"}' + b"}" * d)
        # the key spelled with escapes
        add("esc-key", b'{"\\u0024' + tok[1:] + b'":"1"}')
        add("esc-key", b'{"' + tok[:-1] + b"\\u00%02x" % tok[-1] + b'":"1"}')
        add("esc-key", b'{"' + tok + b'\\u0000":"1"}')
        add("esc-key", b'{"' + tok.upper() + b'":"1"}')
    # raw text with inner depth: a fresh budget of 128 inside
    for d in (126, 127, 128):
        inner = b"[" * d + b"]" * d
        add("raw-depth", b"[" * 100 + b"{" + jstr(RTOK) + b":" + jstr(inner) + b"}" + b"]" * 100)
    # random families
    for _ in range(n_random):
        r = rng.random()
        if r < 0.7:
            add("rand-tok", wrap(rng, token_object(rng)))
        elif r < 0.85:
            add("rand-plain", rand_ws(rng) + rand_plain(rng) + rand_ws(rng))
        else:
            d = bytearray(wrap(rng, token_object(rng)))
            for _ in range(rng.randrange(1, 3)):
                if d:
                    i = rng.randrange(len(d))
                    c = rng.random()
                    if c < 0.4:
                        d[i] = rng.choice(b'{}[],:" \\\n0a$')
                    elif c < 0.7:
                        del d[i]
                    else:
                        d.insert(i, rng.choice(b'{}[],:" \\\n0a$'))
            add("mutated", bytes(d))
    return docs


def is_utf8(b):
    try:
        b.decode("utf-8")
        return True
    except UnicodeDecodeError:
        return False


def hexs(b):
    return b.hex() if b else "-"


def run(binary, lines, tag):
    path = "/tmp/detok_%s_%d.txt" % (tag, os.getpid())
    with open(path, "w") as f:
        f.write("\n".join(lines) + "\n")
    p = subprocess.run([binary, path], stdout=subprocess.PIPE, stderr=subprocess.PIPE, timeout=3000)
    os.unlink(path)
    out = p.stdout.decode("utf-8", "replace").split("\n")
    if out and out[-1] == "":
        out.pop()
    return out, p.returncode


def main():
    args = sys.argv[1:]
    seed, n = 20260930, 3000
    if "--build" in args:
        build()
    if "--seed" in args:
        seed = int(args[args.index("--seed") + 1])
    if "--n" in args:
        n = int(args[args.index("--n") + 1])
    rng = random.Random(seed)
    docs = gen_docs(rng, n)
    fam_count = {}
    for fam, _ in docs:
        fam_count[fam] = fam_count.get(fam, 0) + 1
    print("documents: %d  %s" % (len(docs), " ".join("%s=%d" % kv for kv in sorted(fam_count.items()))))
    total = 0
    bad = 0
    token_hits = 0
    for hdir, letters, rawf in CONFIGS:
        binary = "%s/%s/release/sjh" % (TGT, hdir)
        if not os.path.exists(binary):
            print("SKIP %s: no binary" % hdir)
            continue
        m_lines, h_lines, meta = [], [], []
        for fam, d in docs:
            srcs = ["b", "r1", "r3"] + (["s"] if is_utf8(d) else [])
            for src in srcs:
                m_lines.append("pv %s %s %s %s" % (letters, rawf, src, hexs(d)))
                h_lines.append("pv %s %s %s" % (letters, src, hexs(d)))
                meta.append((fam, src, d))
        mo, mrc = run(DRIVER, m_lines, "m_" + hdir)
        ho, hrc = run(binary, h_lines, "h_" + hdir)
        if len(mo) != len(m_lines) or len(ho) != len(h_lines):
            print("LENGTH MISMATCH %s: model %d (rc %d) harness %d (rc %d) cases %d" % (hdir, len(mo), mrc, len(ho), hrc, len(m_lines)))
            bad += 1
            continue
        nb = 0
        for a, b, (fam, src, d) in zip(mo, ho, meta):
            if a != b:
                nb += 1
                if nb <= 15:
                    print("DISAGREE [%s %s %s] %r\n    model  : %s\n    harness: %s" % (hdir, fam, src, d, a, b))
        total += len(m_lines)
        bad += nb
        # how many of these cases take a token branch: the answer of Model/De.v (the main driver) differs
        hits = "n/a"
        if os.path.exists(OLD_DRIVER):
            oo, _ = run(OLD_DRIVER, h_lines, "o_" + hdir)
            if len(oo) == len(mo):
                hits = sum(1 for a, b in zip(mo, oo) if a != b)
                token_hits += hits
        print("%-8s cfg=%-2s raw=%s cases=%d disagreements=%d  (cases where Model/De.v answers differently: %s)" % (hdir, letters, rawf, len(m_lines), nb, hits))
    print("TOTAL cases=%d disagreements=%d token-branch cases=%d" % (total, bad, token_hits))
    return 1 if bad else 0


if __name__ == "__main__":
    sys.exit(main())
